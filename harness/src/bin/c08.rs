//! C08 — LSP position conversion and quick-fix edits.
//! Correspondence: pos_conv::{span_to_range, range_to_span} and the TextEdit built by
//! diagnostics::lint_to_code_actions vs Model/PosConv.v (extracted); the reference LSP client below vs
//! the specification side of the model (resolve / client_apply).
//! Oracle: the reference client (UTF-16 code units, written from the LSP specification, shares nothing
//! with pos_conv.rs) resolves every diagnostic range to exactly the lint's characters, applies every
//! TextEdit and gets what Suggestion::apply gets, and code actions requested at every position inside
//! a diagnostic range contain that lint's fixes.  Histories on ONE DocumentState (the order of operations
//! the doc_state mutex of backend.rs admits: the document is replaced, code actions are served, and only
//! then - or never - diagnostics are generated again): code actions always speak about the CURRENT text.
use harper_core::linting::{Lint, LintGroup, Linter, Suggestion};
use harper_core::parsers::PlainEnglish;
use harper_core::{Dialect, Document, FstDictionary, IgnoredLints, Lrc, MergedDictionary, Span, TokenKind};
use hv::common::*;
use hv::{frontends, gen};
use lsx::config::{CodeActionConfig, DiagnosticSeverity};
use lsx::diagnostics::lint_to_code_actions;
use lsx::document_state::DocumentState;
use lsx::pos_conv::{range_to_span, span_to_range};
use lsx::tower_lsp::lsp_types::{CodeActionOrCommand, Position, Range, TextEdit, Url};
use serde_json::{json, Value};
use std::sync::{Arc, Mutex};

#[path = "../lsclient.rs"]
mod lsclient;
use lsclient::{HandlerFut, Session};

// ------------------------------------------------------------------------------------------------
// The reference LSP client.  A document is a sequence of UTF-16 code units; lines end at "\r\n", "\n"
// or "\r" (LSP 3.17, "Text Documents"); `character` is an offset in code units into the line.
// ------------------------------------------------------------------------------------------------
pub struct RefClient {
    units: Vec<u16>,
    /// (offset of the first unit of the line, offset one past its last content unit)
    lines: Vec<(usize, usize)>,
}

impl RefClient {
    pub fn new(text: &str) -> Self {
        let units: Vec<u16> = text.encode_utf16().collect();
        let mut lines = vec![];
        let mut start = 0;
        let mut i = 0;
        while i < units.len() {
            if units[i] == 0x0d {
                lines.push((start, i));
                i += if i + 1 < units.len() && units[i + 1] == 0x0a { 2 } else { 1 };
                start = i;
            } else if units[i] == 0x0a {
                lines.push((start, i));
                i += 1;
                start = i;
            } else {
                i += 1;
            }
        }
        lines.push((start, units.len()));
        RefClient { units, lines }
    }
    /// code-unit offset of a position; None when the line does not exist or the column lies beyond it
    pub fn offset(&self, p: Position) -> Option<usize> {
        let (s, e) = *self.lines.get(p.line as usize)?;
        let o = s + p.character as usize;
        if o <= e { Some(o) } else { None }
    }
    /// number of characters before the code-unit offset; None when it splits a surrogate pair
    pub fn char_index(&self, off: usize) -> Option<usize> {
        String::from_utf16(&self.units[..off]).ok().map(|s| s.chars().count())
    }
    pub fn resolve(&self, p: Position) -> Option<usize> {
        self.offset(p).and_then(|o| self.char_index(o))
    }
    /// the position of the character with index `idx` (idx == number of chars: end of document)
    pub fn position_of_char(&self, idx: usize) -> Position {
        let mut off = 0;
        let mut seen = 0;
        while seen < idx {
            off += if (0xd800..0xdc00).contains(&self.units[off]) { 2 } else { 1 };
            seen += 1;
        }
        // the last line starting at or before `off`; an offset between '\r' and '\n' has no position:
        // report it on the line of the '\r', one past its content (what a '\n'-only reader would say)
        let mut line = 0;
        for (k, (s, _)) in self.lines.iter().enumerate() {
            if *s <= off {
                line = k;
            }
        }
        Position { line: line as u32, character: (off - self.lines[line].0) as u32 }
    }
    /// TextEdit application
    pub fn apply(&self, range: Range, new_text: &str) -> Option<String> {
        let a = self.offset(range.start)?;
        let b = self.offset(range.end)?;
        // a position between the two halves of a surrogate pair is not a position
        self.char_index(a)?;
        self.char_index(b)?;
        if a > b {
            return None;
        }
        let mut out: Vec<u16> = self.units[..a].to_vec();
        out.extend(new_text.encode_utf16());
        out.extend(&self.units[b..]);
        String::from_utf16(&out).ok()
    }
}

/// Report::fail keeps the first 2000 failures of a run; one defect can produce more than that in the
/// thorough tier.  So that no class can crowd out another, at most PER_CLASS failures of one class are
/// listed; the rest are only counted (`fail_not_listed:<class>` in the distribution).
const PER_CLASS: usize = 140;
thread_local! { static LISTED: std::cell::RefCell<std::collections::HashMap<String, usize>> = Default::default(); }
fn fail(rep: &mut Report, class: &str, what: String, input: Value) {
    let n = LISTED.with(|m| {
        let mut m = m.borrow_mut();
        let e = m.entry(class.to_string()).or_insert(0);
        *e += 1;
        *e
    });
    if n <= PER_CLASS {
        rep.fail(class, what, input);
    } else {
        rep.count(&format!("fail_not_listed:{class}"));
    }
}

fn has_cr(t: &[char]) -> bool {
    t.contains(&'\r')
}
fn has_lone_cr(t: &[char]) -> bool {
    (0..t.len()).any(|i| t[i] == '\r' && t.get(i + 1) != Some(&'\n'))
}
fn inside_crlf(t: &[char], i: usize) -> bool {
    i > 0 && i < t.len() && t[i - 1] == '\r' && t[i] == '\n'
}
/// the class of the FIXED finding F9 (Model/PosConv.v: KnownClass): a position on the final line, line >= 1.
/// Only used to describe the input distribution: since 229693d no failure is excused there.
fn known_class(t: &[char], line: u32) -> bool {
    line >= 1 && t.iter().filter(|c| **c == '\n').count() == line as usize
}
fn pos(l: usize, c: usize) -> Position {
    Position { line: l as u32, character: c as u32 }
}
fn fmt_range(r: &Range) -> String {
    format!("{} {} {} {}", r.start.line, r.start.character, r.end.line, r.end.character)
}
fn sug_of(kind: usize, cs: &[char]) -> Suggestion {
    match kind {
        0 => Suggestion::ReplaceWith(cs.to_vec()),
        1 => Suggestion::InsertAfter(cs.to_vec()),
        _ => Suggestion::Remove,
    }
}
fn sug_parts(s: &Suggestion) -> (usize, Vec<char>) {
    match s {
        Suggestion::ReplaceWith(c) => (0, c.clone()),
        Suggestion::InsertAfter(c) => (1, c.clone()),
        Suggestion::Remove => (2, vec![]),
    }
}
fn edits_of(actions: &[CodeActionOrCommand]) -> Vec<(String, TextEdit)> {
    let mut out = vec![];
    for a in actions {
        if let CodeActionOrCommand::CodeAction(ca) = a {
            if let Some(ch) = ca.edit.as_ref().and_then(|e| e.changes.as_ref()) {
                for (_, es) in ch {
                    for e in es {
                        out.push((ca.title.clone(), e.clone()));
                    }
                }
            }
        }
    }
    out
}

struct Ctx {
    dict: Arc<FstDictionary>,
    url: Url,
    cfg: CodeActionConfig,
    st: DocumentState,
}

fn text_input(t: &[char], origin: &str) -> Value {
    json!({"kind": "text", "text": t.iter().collect::<String>(), "origin": origin})
}

/// span -> range on one (text, span); correspondence + oracle (range read by the reference client
/// covers exactly the span)
fn check_span(rep: &mut Report, cx: &Ctx, t: &[char], text: &str, rc: &RefClient, a: usize, b: usize, in_domain: bool, origin: &str) {
    rep.eval();
    let line = format!("S {a} {b} | {}", cps(t));
    let r = guarded(|| span_to_range(t, Span { start: a, end: b }));
    match &r {
        Ok(rg) => rep.case(&line, &fmt_range(rg)),
        Err(_) => rep.case(&line, "P"),
    }
    let _ = (cx, text);
    if !(a <= b && b <= t.len()) {
        rep.count("span:outside_text(panic agreement only)");
        return;
    }
    rep.nontrivial(&(0u8, t.to_vec(), a, b));
    if !in_domain {
        rep.count("span:text_with_lone_CR(correspondence only)");
        return;
    }
    if inside_crlf(t, a) || inside_crlf(t, b) {
        rep.count("span:endpoint_inside_CRLF(excluded by hypothesis)");
        return;
    }
    match r {
        Err(m) => fail(rep, "span_to_range_panics", format!("span_to_range panicked on a span inside the text: {m}"), text_input(t, origin)),
        Ok(rg) => {
            let (x, y) = (rc.resolve(rg.start), rc.resolve(rg.end));
            if x != Some(a) || y != Some(b) {
                fail(rep, 
                    "range_wrong",
                    format!("span [{a},{b}) became range {} which an LSP client reads as characters {:?}..{:?}", fmt_range(&rg), x, y),
                    text_input(t, origin),
                );
            }
            rep.count(if rg.start.line == rg.end.line { "span:single_line" } else { "span:multi_line" });
        }
    }
}

/// the TextEdit diagnostics.rs builds for (span, suggestion); correspondence + oracle
fn check_edit(rep: &mut Report, cx: &Ctx, doc: &Document, t: &[char], rc: &RefClient, kind: usize, cs: &[char], a: usize, b: usize, in_domain: bool, origin: &str) {
    rep.eval();
    let line = format!("E {kind} {a} {b} | {} | {}", cps(t), cps(cs));
    let s = sug_of(kind, cs);
    let lint = Lint { span: Span { start: a, end: b }, suggestions: vec![s.clone()], message: "m".into(), ..Default::default() };
    let r = guarded(|| lint_to_code_actions(&lint, &cx.url, doc, &cx.cfg));
    let edit = match r {
        Ok(acts) => edits_of(&acts).into_iter().next(),
        Err(_) => None,
    };
    match &edit {
        Some((_, e)) => rep.case(&line, format!("{} | {}", fmt_range(&e.range), cps(&chars(&e.new_text))).trim()),
        None => rep.case(&line, "P"),
    }
    if !(a <= b && b <= t.len()) {
        rep.count("edit:span_outside_text(panic agreement only)");
        return;
    }
    rep.nontrivial(&(1u8, t.to_vec(), a, b, kind, cs.to_vec()));
    if !in_domain || inside_crlf(t, a) || inside_crlf(t, b) {
        return;
    }
    let inp = json!({"kind": "edit", "text": t.iter().collect::<String>(), "a": a, "b": b, "sug": kind, "cs": cs.iter().collect::<String>(), "origin": origin});
    let Some((title, e)) = edit else {
        fail(rep, "edit_panics", "lint_to_code_actions panicked or returned no edit for a span inside the text".into(), inp);
        return;
    };
    let want = guarded(|| {
        let mut v = t.to_vec();
        s.apply(Span { start: a, end: b }, &mut v);
        v.iter().collect::<String>()
    });
    let got = rc.apply(e.range, &e.new_text);
    rep.count(&format!("edit:{}", ["replace", "insert_after", "remove"][kind.min(2)]));
    if title != s.to_string() {
        fail(rep, "edit_title", format!("code action title {title:?} is not the suggestion {s}"), inp.clone());
    }
    match (want, got) {
        (Ok(w), Some(g)) if w == g => {}
        (w, g) => fail(rep, "edit_mismatch", format!("client applying the TextEdit gets {g:?}, Suggestion::apply gets {w:?}"), inp),
    }
}

/// position -> index: correspondence on (p1,p2) and the lookup oracle for valid positions
fn check_lookup(rep: &mut Report, t: &[char], rc: &RefClient, p1: Position, p2: Position, in_domain: bool, origin: &str) {
    rep.eval();
    let rg = Range { start: p1, end: p2 };
    let line = format!("R {} | {}", fmt_range(&rg), cps(t));
    let r = guarded(|| range_to_span(t, rg));
    match &r {
        Ok(s) => rep.case(&line, &format!("{} {}", s.start, s.end)),
        Err(_) => rep.case(&line, "P"),
    }
    rep.nontrivial(&(2u8, t.to_vec(), p1.line, p1.character, p2.line, p2.character));
    if !in_domain {
        return;
    }
    // a request an editor can send: valid positions in document order.  What generate_code_actions needs
    // of range_to_span: no panic (Span::new), and the START is the character the position denotes
    // (the lookup span is [start, start+1)).  A start at the very end of the text denotes no character
    // and cannot lie inside a diagnostic range: only "no panic" is demanded there.
    if let (Some(i1), Some(i2)) = (rc.resolve(p1), rc.resolve(p2)) {
        if i1 > i2 {
            return;
        }
        rep.count("lookup:valid_position_pair");
        if known_class(t, p1.line) || known_class(t, p2.line) {
            rep.count("lookup:on_final_line(line>=1)");
        }
        if i1 == t.len() {
            rep.count("lookup:start_at_end_of_text(no character there: no-panic only)");
        }
        let start_ok = i1 == t.len() || matches!(&r, Ok(s) if s.start == i1);
        if !(r.is_ok() && start_ok) {
            let got = match &r {
                Ok(s) => format!("characters {}..{}", s.start, s.end),
                Err(m) => format!("a panic ({m})"),
            };
            let inp = json!({"kind": "lookup", "text": t.iter().collect::<String>(), "p1": [p1.line, p1.character], "p2": [p2.line, p2.character], "origin": origin});
            fail(rep, "lookup_wrong", format!("range {} denotes characters {i1}..{i2} but range_to_span answers {got}", fmt_range(&rg)), inp);
        }
    } else {
        rep.count("lookup:invalid_position(correspondence only)");
    }
}

/// the specification side of the model vs the reference client (texts without CR: the model's
/// `resolve` splits lines at '\n' only)
fn check_spec(rep: &mut Report, t: &[char], rc: &RefClient, p1: Position, p2: Position, nt: &[char]) {
    let v = rc.resolve(p1).map(|i| i.to_string()).unwrap_or("N".into());
    let nts: String = nt.iter().collect();
    let got = rc.apply(Range { start: p1, end: p2 }, &nts).map(|s| format!("O {}", cps(&chars(&s))).trim().to_string()).unwrap_or("N".into());
    // resolve_lsp / client_apply_lsp know "\n", "\r\n" and "\r" like the reference client: every text
    rep.case(&format!("W {} {} | {}", p1.line, p1.character, cps(t)), &v);
    rep.case(&format!("D {} | {} | {}", fmt_range(&Range { start: p1, end: p2 }), cps(t), cps(nt)), &got);
    rep.count("spec:resolve_lsp/client_apply_lsp vs reference client");
    // resolve / client_apply only know "\n" (harper's view): texts without CR
    if !has_cr(t) {
        rep.case(&format!("V {} {} | {}", p1.line, p1.character, cps(t)), &v);
        rep.case(&format!("C {} | {} | {}", fmt_range(&Range { start: p1, end: p2 }), cps(t), cps(nt)), &got);
    }
}

fn check_text(rep: &mut Report, cx: &Ctx, r: &mut Rng, t: &[char], origin: &str, exhaustive: bool) {
    let text: String = t.iter().collect();
    let rc = RefClient::new(&text);
    let in_domain = !has_lone_cr(t);
    let n = t.len();
    rep.count(&format!(
        "text:{}{}{}{}",
        if has_lone_cr(t) { "loneCR" } else if has_cr(t) { "CRLF" } else { "LF-only" },
        if t.last() == Some(&'\n') { ",trailing-newline" } else { ",no-trailing-newline" },
        if t.iter().any(|c| (*c as u32) >= 0x10000) { ",astral" } else { "" },
        if t.contains(&'\t') { ",tab" } else { "" }
    ));
    let doc = Document::new_from_vec(Lrc::new(t.to_vec()), &PlainEnglish, &cx.dict);
    // spans
    let mut spans: Vec<(usize, usize)> = vec![];
    if exhaustive || n <= 10 {
        for a in 0..=n {
            for b in a..=n {
                spans.push((a, b));
            }
        }
    } else {
        for _ in 0..24 {
            let (x, y) = (r.below(n + 1), r.below(n + 1));
            spans.push((x.min(y), x.max(y)));
        }
        spans.push((0, n));
        spans.push((n, n));
        spans.push((n.saturating_sub(1), n));
    }
    spans.push((n, n + 1));
    spans.push((n + 2, n + 2));
    if n > 0 {
        spans.push((n, n - 1));
    }
    let alphabet: Vec<char> = "x\n😀é ".chars().collect();
    for (a, b) in spans {
        check_span(rep, cx, t, &text, &rc, a, b, in_domain, origin);
        let k = if exhaustive { 3 } else { 1 };
        for j in 0..k {
            let kind = if exhaustive { j } else { r.below(3) };
            let cs: Vec<char> = if kind == 2 { vec![] } else { (0..r.below(4)).map(|_| *r.pick(&alphabet)).collect() };
            check_edit(rep, cx, &doc, t, &rc, kind, &cs, a, b, in_domain, origin);
        }
    }
    // positions: the whole grid (incl. lines that do not exist and columns past the line end)
    let nlines = t.iter().filter(|c| **c == '\n').count() + 1;
    let maxcol = text.split('\n').map(|l| l.encode_utf16().count()).max().unwrap_or(0);
    let mut grid: Vec<Position> = vec![];
    for l in 0..nlines + 2 {
        for c in 0..maxcol + 3 {
            grid.push(pos(l, c));
        }
    }
    for p in &grid {
        check_lookup(rep, t, &rc, *p, *p, in_domain, origin);
    }
    let pairs = if exhaustive { grid.len() * 3 } else { 16 };
    for _ in 0..pairs {
        let p1 = *r.pick(&grid);
        let p2 = *r.pick(&grid);
        check_lookup(rep, t, &rc, p1, p2, in_domain, origin);
        let nt: Vec<char> = (0..r.below(3)).map(|_| *r.pick(&alphabet)).collect();
        check_spec(rep, t, &rc, p1, p2, &nt);
    }
    // every ordered pair of valid positions on a small text (a selection an editor can send)
    if n <= 10 || exhaustive {
        for i in 0..=n {
            for j in i..=n {
                if inside_crlf(t, i) || inside_crlf(t, j) {
                    continue;
                }
                check_lookup(rep, t, &rc, rc.position_of_char(i), rc.position_of_char(j), in_domain, origin);
            }
        }
    }
}

/// the lints a DocumentState reports for its current document, computed the way generate_diagnostics does
fn lints_like_state(st: &mut DocumentState) -> Vec<Lint> {
    let temp = st.linter.config.clone();
    st.linter.config.fill_with_curated();
    let mut lints = st.linter.lint(&st.document);
    st.linter.config = temp;
    st.ignored_lints.remove_ignored(&mut lints, &st.document);
    lints
}

/// a DocumentState as backend.rs:update_document constructs it (constructor + ..Default::default(): the
/// harness must keep building when a field is added)
fn new_state(dict: &Arc<FstDictionary>) -> DocumentState {
    let mut merged = MergedDictionary::new();
    merged.add_dictionary(dict.clone());
    let merged = Arc::new(merged);
    DocumentState {
        linter: LintGroup::new_curated(merged.clone(), Dialect::American),
        dict: merged.clone(),
        base_dict: merged,
        language_id: Some("plaintext".to_string()),
        ..Default::default()
    }
}

/// The code-action oracle for ONE lint `l` of the text `t` the client holds: code actions requested at the
/// positions inside [l.span) (all of them, or a sample for long spans; cursor and selection shapes) must
/// contain that lint's fixes with the range `want_range`; every returned edit, applied by the reference
/// client to `t`, must be what Suggestion::apply yields on the lint embedded next to it; and (`legit`)
/// every lint the answer speaks about must be a lint of `t`.  `situation` is appended to the messages.
#[allow(clippy::too_many_arguments)]
fn check_actions_for_lint(
    rep: &mut Report,
    st: &mut DocumentState,
    cfg: &CodeActionConfig,
    r: &mut Rng,
    t: &[char],
    rc: &RefClient,
    l: &Lint,
    want_range: Range,
    max_positions: usize,
    base: &Value,
    situation: &str,
    legit: &[Value],
) {
    let (a, b) = (l.span.start, l.span.end);
    let mut idxs: Vec<usize> = (a..b).collect();
    if idxs.len() > max_positions {
        let mut pick = vec![a, a + 1, b - 1, b - 2];
        pick.truncate(max_positions.max(2));
        while pick.len() < max_positions {
            pick.push(a + r.below(b - a));
        }
        pick.sort();
        pick.dedup();
        idxs = pick;
    }
    let want_lint = serde_json::to_value(l).unwrap();
    for i in idxs {
        if inside_crlf(t, i) {
            continue;
        }
        let p = rc.position_of_char(i);
        // an editor sends the cursor (empty range) or the selection; take both shapes
        let rg = if i % 3 == 2 { Range { start: p, end: want_range.end } } else { Range { start: p, end: p } };
        rep.eval();
        rep.count("code_action_requests");
        if known_class(t, rg.start.line) {
            rep.count("code_action_requests:on_final_line(line>=1)");
        }
        let acts = guarded(|| st.generate_code_actions(rg, cfg));
        let mut req = base.clone();
        req["at"] = json!([rg.start.line, rg.start.character, rg.end.line, rg.end.character]);
        let miss = |rep: &mut Report, why: String| {
            fail(rep, "code_action_missing", format!("code actions requested at {} inside the diagnostic \"{}\" ({}){situation}: {why}", fmt_range(&rg), l.message, fmt_range(&want_range)), req.clone());
        };
        let acts = match acts {
            Ok(a) => a,
            Err(m) => {
                miss(rep, format!("panic: {m} at {}", last_panic_location()));
                continue;
            }
        };
        // split the answer into one group per lint: its CodeActions, then the HarperIgnoreLint command
        let mut pending: Vec<(String, TextEdit)> = vec![];
        let mut found = false;
        for act in &acts {
            match act {
                CodeActionOrCommand::CodeAction(_) => pending.extend(edits_of(std::slice::from_ref(act))),
                CodeActionOrCommand::Command(c) if c.command == "HarperIgnoreLint" => {
                    let lj = c.arguments.as_ref().and_then(|a| a.get(1)).cloned().unwrap_or(Value::Null);
                    let group = std::mem::take(&mut pending);
                    let Ok(gl) = serde_json::from_value::<Lint>(lj.clone()) else {
                        fail(rep, "embedded_lint_unreadable", "the lint embedded in HarperIgnoreLint does not deserialise".into(), req.clone());
                        continue;
                    };
                    if !legit.contains(&lj) {
                        fail(rep, "code_action_not_a_lint", format!("code actions requested at {}{situation}: the answer offers fixes for the lint \"{}\" at {:?}, which is not a lint of the text the client holds", fmt_range(&rg), gl.message, gl.span), req.clone());
                    }
                    // every returned edit, applied by the client, is the suggestion applied to the span
                    if group.len() != gl.suggestions.len() {
                        fail(rep, "edit_count", format!("{} edits for {} suggestions", group.len(), gl.suggestions.len()), req.clone());
                    }
                    for ((title, e), s) in group.iter().zip(&gl.suggestions) {
                        let want = guarded(|| {
                            let mut v = t.to_vec();
                            s.apply(gl.span, &mut v);
                            v.iter().collect::<String>()
                        });
                        let got = rc.apply(e.range, &e.new_text);
                        rep.count(&format!("document_edit:{}", ["replace", "insert_after", "remove"][sug_parts(s).0]));
                        if *title != s.to_string() || !matches!((&want, &got), (Ok(w), Some(g)) if w == g) {
                            fail(rep, "edit_mismatch", format!("edit \"{title}\" at {}{situation}: client gets {got:?}, Suggestion::apply of {s} on {:?} gets {want:?}", fmt_range(&e.range), gl.span), req.clone());
                        }
                    }
                    if lj == want_lint {
                        found = true;
                        if group.iter().any(|(_, e)| e.range != want_range) {
                            fail(rep, "edit_range_not_diagnostic_range", format!("an edit of the lint does not carry the diagnostic's range{situation}"), req.clone());
                        }
                    }
                }
                _ => {}
            }
        }
        if !found {
            miss(rep, format!("the answer ({} entries) does not contain this lint's fixes", acts.len()));
        }
    }
}

/// diagnostics vs the lints they were made from: same number, same messages, every range read by the
/// reference client covers exactly the lint's characters.  Returns the (lint, range) pairs the code-action
/// oracle is to be run on (lints inside the text whose endpoints are not between CR and LF).
fn check_diagnostics(rep: &mut Report, t: &[char], rc: &RefClient, diags: &[lsx::tower_lsp::lsp_types::Diagnostic], lints: &[Lint], inp: &Value, situation: &str) -> Option<Vec<usize>> {
    if diags.len() != lints.len() || diags.iter().zip(lints).any(|(d, l)| d.message != l.message) {
        fail(rep, "diagnostics_not_lints", format!("{} diagnostics for {} lints, or messages differ{situation}", diags.len(), lints.len()), inp.clone());
        return None;
    }
    let nl_count = t.iter().filter(|c| **c == '\n').count();
    let mut usable = vec![];
    for (k, (d, l)) in diags.iter().zip(lints).enumerate() {
        let (a, b) = (l.span.start, l.span.end);
        if !(a <= b && b <= t.len()) {
            rep.count("lint:out_of_bounds(C03's business)");
            continue;
        }
        // hypothesis: no lint span endpoint between '\r' and '\n'
        if inside_crlf(t, a) || inside_crlf(t, b) {
            rep.monitor("violations:lint span endpoint between CR and LF", 1);
            fail(rep, "hyp_crlf_endpoint", format!("lint {:?} \"{}\" has an endpoint between CR and LF", l.span, l.message), inp.clone());
            continue;
        }
        rep.monitor("checked:lint span endpoints not between CR and LF", 1);
        let (x, y) = (rc.resolve(d.range.start), rc.resolve(d.range.end));
        if x != Some(a) || y != Some(b) {
            fail(rep, "range_wrong", format!("diagnostic \"{}\" for lint span [{a},{b}) has range {} which an LSP client reads as {:?}..{:?}{situation}", d.message, fmt_range(&d.range), x, y), inp.clone());
            continue;
        }
        let line_of_end = rc.position_of_char(b.saturating_sub(1).max(a)).line as usize;
        rep.count(if a == b {
            "lint:empty_span(no position inside)"
        } else if d.range.start.line == 0 {
            "lint:on_first_line"
        } else if line_of_end == nl_count {
            "lint:on_last_line"
        } else {
            "lint:on_middle_line"
        });
        if t[a..b].iter().any(|c| (*c as u32) >= 0x10000) || t[..a].iter().rev().take_while(|c| **c != '\n').any(|c| (*c as u32) >= 0x10000) {
            rep.count("lint:astral_before_or_inside_on_its_line");
        }
        usable.push(k);
    }
    Some(usable)
}

/// a real document through DocumentState: diagnostics, then code actions at every position inside
/// every diagnostic range
fn check_document(rep: &mut Report, cx: &mut Ctx, r: &mut Rng, fe: &str, text: &str, max_positions: usize) {
    rep.eval();
    let t: Vec<char> = text.chars().collect();
    let inp = json!({"kind": "document", "frontend": fe, "text": text});
    if has_lone_cr(&t) {
        rep.count("document:lone_CR(outside the property's domain, skipped)");
        return;
    }
    let dict = cx.dict.clone();
    let Ok(doc) = guarded(|| frontends::make_document(fe, text, &dict)) else {
        rep.count("document:front-end panicked(C01's business)");
        return;
    };
    cx.st.document = doc;
    let st = &mut cx.st;
    // the diagnostics and the lints they were made from, computed the way generate_diagnostics does
    let res = guarded(|| (st.generate_diagnostics(DiagnosticSeverity::Hint), lints_like_state(st)));
    let Ok((diags, lints)) = res else {
        rep.count("document:lint panicked(C01's business)");
        return;
    };
    rep.count(&format!("document:{}", fe.split(':').next().unwrap()));
    let rc = RefClient::new(text);
    let Some(usable) = check_diagnostics(rep, &t, &rc, &diags, &lints, &inp, "") else { return };
    if lints.is_empty() {
        return;
    }
    rep.nontrivial(&(3u8, fe.to_string(), text.to_string()));
    rep.count_n("lints", lints.len() as u64);
    let legit: Vec<Value> = lints.iter().map(|l| serde_json::to_value(l).unwrap()).collect();
    for k in usable {
        let cfg = cx.cfg.clone();
        check_actions_for_lint(rep, &mut cx.st, &cfg, r, &t, &rc, &lints[k], diags[k].range, max_positions, &inp, "", &legit);
    }
}

/// One step of a history: the text the document is replaced by, and when diagnostics are generated for it
/// relative to the code-action requests ("before": didChange completed before the request was served;
/// "after": the request was served between update_document and publish_diagnostics; "none": no
/// diagnostics at all for this text, the next update arrives first).
fn step_json(text: &str, diag: &str) -> Value {
    json!({"text": text, "diag": diag})
}

/// A history on ONE DocumentState, in the order the doc_state mutex of backend.rs can serialise handlers:
/// for every step the document is replaced (update_document), then code actions are requested at every
/// lint of the NEW text - the text the client holds - with generate_diagnostics before them, after them
/// or not at all.  The lints of the new text come from a fresh reference linter that shares nothing with
/// the DocumentState under test.  Whatever happened before, the answers must be the new text's fixes.
fn check_history(rep: &mut Report, cx: &mut Ctx, r: &mut Rng, fe: &str, steps: &[Value], max_positions: usize) {
    rep.eval();
    let inp = json!({"kind": "history", "frontend": fe, "steps": steps});
    if steps.iter().any(|s| has_lone_cr(&chars(s["text"].as_str().unwrap_or("")))) {
        rep.count("history:lone_CR(outside the property's domain, skipped)");
        return;
    }
    let dict = cx.dict.clone();
    let mut st = new_state(&dict);
    rep.count("history");
    let mut prev_text: Option<String> = None;
    let mut diag_text: Option<String> = None; // the text generate_diagnostics last ran on
    for (n, step) in steps.iter().enumerate() {
        let text = step["text"].as_str().unwrap_or("");
        let when = step["diag"].as_str().unwrap_or("before");
        let t: Vec<char> = chars(text);
        let rc = RefClient::new(text);
        // the reference: the lints of this text by a fresh linter on a fresh document
        let reference = guarded(|| {
            let doc = frontends::make_document(fe, text, &dict);
            let mut fresh = new_state(&dict);
            fresh.document = doc;
            lints_like_state(&mut fresh)
        });
        let Ok(ref_lints) = reference else {
            rep.count("history:front-end or lint panicked(C01's business)");
            return;
        };
        // update_document: the document is replaced, nothing else happens under the lock
        let Ok(doc) = guarded(|| frontends::make_document(fe, text, &dict)) else { return };
        st.document = doc;
        let stale = diag_text.is_some() && diag_text.as_deref() != Some(text);
        let situation = match (when, stale) {
            ("before", _) => format!(" [history step {n}: after generate_diagnostics on this text]"),
            (_, true) => format!(" [history step {n}: the document was replaced and generate_diagnostics has not run on the new text yet]"),
            (_, false) => format!(" [history step {n}: no generate_diagnostics since the document was set]"),
        };
        rep.count(&format!(
            "history_step:diag_{when}{}",
            if prev_text.as_deref() == Some(text) { ",same_text" } else if n == 0 { ",first" } else { ",text_changed" }
        ));
        let legit: Vec<Value> = ref_lints.iter().map(|l| serde_json::to_value(l).unwrap()).collect();
        let run_diag = |rep: &mut Report, st: &mut DocumentState, tag: &str| -> bool {
            let Ok(diags) = guarded(|| st.generate_diagnostics(DiagnosticSeverity::Hint)) else {
                rep.count("history:lint panicked(C01's business)");
                return false;
            };
            check_diagnostics(rep, &t, &rc, &diags, &ref_lints, &inp, &format!(" [history step {n}, diagnostics {tag} the code-action requests]")).is_some()
        };
        if when == "before" {
            if !run_diag(rep, &mut st, "before") {
                return;
            }
            diag_text = Some(text.to_string());
        }
        if !ref_lints.is_empty() {
            rep.nontrivial(&(4u8, fe.to_string(), text.to_string(), prev_text.clone(), when.to_string()));
        }
        for l in &ref_lints {
            let (a, b) = (l.span.start, l.span.end);
            if !(a < b && b <= t.len()) || inside_crlf(&t, a) || inside_crlf(&t, b) {
                continue;
            }
            rep.count(if when == "before" { "history_lint:diagnostics_current" } else if stale { "history_lint:diagnostics_stale" } else { "history_lint:no_diagnostics_yet" });
            let want_range = Range { start: rc.position_of_char(a), end: rc.position_of_char(b) };
            let cfg = cx.cfg.clone();
            check_actions_for_lint(rep, &mut st, &cfg, r, &t, &rc, l, want_range, max_positions, &inp, &situation, &legit);
        }
        if when == "after" {
            if !run_diag(rep, &mut st, "after") {
                return;
            }
            diag_text = Some(text.to_string());
        }
        prev_text = Some(text.to_string());
    }
}

/// the next text of a history: an edit of `cur` that moves, removes, adds or keeps lints
fn next_text(r: &mut Rng, fe: &str, cur: &str) -> String {
    let plainish = matches!(fe, "plain" | "markdown" | "markdown-ilt" | "gitcommit");
    match r.below(9) {
        0 if plainish => format!("Intro line here.\n{cur}"), // every lint moves down a line
        1 if plainish => format!("😀 teh {cur}"),             // columns of the first line move by 2+4 units, one more lint
        2 => match cur.find("teh") {
            Some(i) => format!("{}the{}", &cur[..i], &cur[i + 3..]), // a lint disappears, nothing moves
            None => format!("{cur}\nteh end"),
        },
        3 if plainish => format!("{cur}\nAnd an apple an problem"), // a new lint on a last line without newline
        4 => match cur.find('\n') {
            Some(i) if i + 1 < cur.len() => cur[i + 1..].to_string(), // the first line goes: every lint moves up
            _ => format!("{cur} recieve"),
        },
        5 => frontends::embed(fe, r), // an unrelated text
        6 => cur.to_string(),         // didChange with the same text
        7 => match cur.find("recieve") {
            Some(i) => format!("{}receive and 𝒜 recieve{}", &cur[..i], &cur[i + 7..]), // the lint moves right on its line
            None => cur.replacen(' ', "  ", 1),
        },
        _ => cur.replacen(". ", ".\n", 1), // a line break appears: lints behind it change line and column
    }
}


// ------------------------------------------------------------------------------------------------
// PHASE 3: histories as a CORRESPONDENCE (Model/C08DocState.v: drv_run, extracted) - the same history is
// run on a real DocumentState (directly) and through the JSON-RPC handlers of backend.rs, and every
// generate_diagnostics / generate_code_actions answer is printed in the format the OCaml driver prints.
// ------------------------------------------------------------------------------------------------
/// one document of a history with what the REFERENCE says about it: the lints of a fresh linter on a fresh
/// document, the context hash of each (fresh IgnoredLints), the spans of its Url tokens
struct DocRef {
    text: String,
    doc: Document,
    lints: Vec<Lint>,
    keys: Vec<u64>,
    /// the token vector as the parser left it: (start, end, kind == Url) - what Model/C08TokenAt.v searches
    toks: Vec<(usize, usize, bool)>,
}

#[derive(Clone, Debug)]
enum HOp {
    /// replace the document by text k
    Doc(usize),
    /// generate_diagnostics with severity variant 0..3 (Error, Warning, Information, Hint)
    Diag(usize),
    /// generate_code_actions(range, force_stable)
    Act(Range, bool),
    /// ignore_lint(lint j of document k) - against whatever document is current
    Ign(usize, usize),
}

thread_local! { static URL_MISSED: std::cell::Cell<u64> = Default::default(); }
const SEVERITIES: [DiagnosticSeverity; 4] = [DiagnosticSeverity::Error, DiagnosticSeverity::Warning, DiagnosticSeverity::Information, DiagnosticSeverity::Hint];
const SEVERITY_NAMES: [&str; 4] = ["error", "warning", "information", "hint"];

/// IgnoredLints::hash_lint_context, read off a fresh IgnoredLints (the hash function itself is private);
/// reduced to 62 bits for the OCaml driver
fn ctx_key(l: &Lint, doc: &Document) -> u64 {
    let mut ig = IgnoredLints::new();
    ig.ignore_lint(l, doc);
    let v = serde_json::to_value(&ig).unwrap_or(Value::Null);
    v["context_hashes"][0].as_u64().unwrap_or(0) >> 2
}

fn tok_vec(doc: &Document) -> Vec<(usize, usize, bool)> {
    doc.get_tokens().iter().map(|t| (t.span.start, t.span.end, matches!(t.kind, TokenKind::Url))).collect()
}

fn fmt_toks(toks: &[(usize, usize, bool)]) -> String {
    toks.iter().map(|(a, b, u)| format!("{a} {b} {}", *u as u8)).collect::<Vec<_>>().join(" ")
}

/// Model/C08TokenAt.v: toks_sorted (every token non-empty, each ends where or before the next starts)
fn toks_sorted(toks: &[(usize, usize, bool)]) -> bool {
    toks.iter().all(|(a, b, _)| a < b) && toks.windows(2).all(|w| w[0].1 <= w[1].0)
}

/// PHASE 4 - Document::get_token_at_char_index inside the model.  Correspondence `K i | tokens`: the real
/// function at every index of the document (long documents: every token boundary and a stride) against the
/// extracted binary search over the same token vector.  Monitors: the premise of
/// C08_history_code_action_at_published_tokens (every token inside the text: oracle failure
/// `hyp_token_in_text`) and, as a cross-check of C08_token_at_sorted_is_scan on the implementation, that on
/// sorted vectors the lookup is the linear scan (`token_lookup_sorted`).  Unsorted vectors (Markdown) are
/// counted by front-end; a Url token the lookup misses there is the observation behind
/// C08_token_at_unsorted_refuted (not C08's property: no oracle failure).
fn check_token_lookup(rep: &mut Report, fe: &str, text: &str, doc: &Document) {
    let n = text.chars().count();
    let toks = tok_vec(doc);
    let line = fmt_toks(&toks);
    let inp = json!({"kind": "tokens", "frontend": fe, "text": text});
    let mut idx: Vec<usize> = if n <= 400 { (0..=n + 1).collect() } else { (0..=n + 1).step_by(7).collect() };
    if n > 400 {
        for (a, b, _) in &toks {
            idx.extend([*a, b.saturating_sub(1), *b]);
        }
        idx.sort();
        idx.dedup();
    }
    let sorted = toks_sorted(&toks);
    rep.count(if sorted { "tokens:vector sorted, tokens non-empty".to_string() } else { format!("tokens:vector NOT sorted ({})", fe.split('+').next().unwrap_or(fe)) }.as_str());
    let outside = toks.iter().filter(|(a, b, _)| !(a <= b && *b <= n)).count();
    if outside > 0 {
        fail(rep, "hyp_token_in_text", format!("{outside} token(s) of the document do not lie inside its text of {n} characters: {:?}", toks.iter().find(|(a, b, _)| !(a <= b && *b <= n))), inp.clone());
    }
    rep.monitor("checked:every token of the document lies inside its text", toks.len() as u64);
    let mut scan_checked = 0u64;
    for i in idx {
        let got = guarded(|| doc.get_token_at_char_index(i).map(|t| (t.span.start, t.span.end, matches!(t.kind, TokenKind::Url))));
        let impl_line = match &got {
            Err(_) => "P".to_string(),
            Ok(None) => "N".to_string(),
            Ok(Some((a, b, u))) => format!("{a} {b} {}", *u as u8),
        };
        rep.case(&format!("K {i} | {line}"), &impl_line);
        if sorted {
            let scan = toks.iter().find(|(a, b, _)| *a < i + 1 && i < *b).copied();
            scan_checked += 1;
            if got.as_ref().ok() != Some(&scan) {
                fail(rep, "token_lookup_sorted", format!("sorted token vector, index {i}: get_token_at_char_index answers {got:?}, the linear scan {scan:?}"), inp.clone());
            }
        }
    }
    rep.monitor("checked:get_token_at_char_index = linear scan on sorted token vectors", scan_checked);
}

/// `B i | tokens`: core::slice::binary_search_by itself (the algorithm Model/C08TokenAt.v transcribes) under the
/// lookup's comparator on ARBITRARY vectors - unsorted, overlapping, empty and reversed spans -, answer with
/// its index: "O k" / "E k"
fn check_binary_search(rep: &mut Report, r: &mut Rng, count: usize) {
    for _ in 0..count {
        let len = r.below(14);
        let sorted_start = r.chance(1, 3);
        let mut cur = 0usize;
        let toks: Vec<(usize, usize, bool)> = (0..len)
            .map(|_| {
                if sorted_start {
                    let a = cur + r.below(2);
                    let b = a + r.below(4);
                    cur = b;
                    (a, b, r.chance(1, 4))
                } else {
                    let a = r.below(16);
                    let b = if r.chance(1, 8) { a.saturating_sub(r.below(3)) } else { a + r.below(5) };
                    (a, b, r.chance(1, 4))
                }
            })
            .collect();
        let line = fmt_toks(&toks);
        for i in 0..=18usize {
            let res = toks.binary_search_by(|t| {
                if t.0 < i + 1 && i < t.1 {
                    std::cmp::Ordering::Equal
                } else {
                    t.0.cmp(&i)
                }
            });
            let impl_line = match res {
                Ok(k) => format!("O {k}"),
                Err(k) => format!("E {k}"),
            };
            rep.case(&format!("B {i} | {line}"), &impl_line);
        }
        rep.count(if toks_sorted(&toks) { "bsearch:vector sorted" } else { "bsearch:vector unsorted" });
    }
}

fn doc_ref(fe: &str, text: &str, dict: &Arc<FstDictionary>) -> Option<DocRef> {
    guarded(|| {
        let doc = frontends::make_document(fe, text, dict);
        let mut fresh = new_state(dict);
        fresh.document = frontends::make_document(fe, text, dict);
        let lints = lints_like_state(&mut fresh);
        let keys = lints.iter().map(|l| ctx_key(l, &doc)).collect();
        let n = text.chars().count();
        let _ = n;
        let toks = tok_vec(&doc);
        // how often the binary search of get_token_at_char_index misses a Url token that is there
        for t in doc.get_tokens().iter().filter(|t| matches!(t.kind, TokenKind::Url)) {
            if t.span.start < t.span.end && !doc.get_token_at_char_index(t.span.start).is_some_and(|f| f.span == t.span && matches!(f.kind, TokenKind::Url)) {
                URL_MISSED.with(|c| c.set(c.get() + 1));
            }
        }
        DocRef { text: text.to_string(), doc, lints, keys, toks }
    })
    .ok()
}

/// tag of a lint = 1 + index of its message among the messages of the history's reference lints (0: unknown)
fn tag_of(tags: &[String], msg: &str) -> usize {
    tags.iter().position(|m| m == msg).map(|i| i + 1).unwrap_or(0)
}

fn fmt_sug(s: &Suggestion) -> String {
    let (k, cs) = sug_parts(s);
    format!("{k} {}", cps(&cs)).trim().to_string()
}

/// the case line `H | docs | foreign | ops` (format: ocaml/c08_main.ml)
fn history_case_line(refs: &[DocRef], ops: &[HOp], tags: &[String]) -> String {
    let docs: Vec<String> = refs
        .iter()
        .enumerate()
        .map(|(k, d)| {
            let lints: Vec<String> = d
                .lints
                .iter()
                .zip(&d.keys)
                .map(|(l, key)| {
                    let mut x = format!("{} {} {} {} {} {}", l.span.start, l.span.end, l.priority, l.lint_kind.is_spelling() as u8, tag_of(tags, &l.message), key);
                    for sg in &l.suggestions {
                        x.push_str(" : ");
                        x.push_str(&fmt_sug(sg));
                    }
                    x
                })
                .collect();
            format!("{} , {} , {} , {}", k + 1, cps(&chars(&d.text)), lints.join(" / "), fmt_toks(&d.toks))
        })
        .collect();
    let mut foreign: Vec<String> = vec![];
    let mut cur: Option<usize> = None;
    let mut os: Vec<String> = vec![];
    for o in ops {
        match o {
            HOp::Doc(k) => {
                cur = Some(*k);
                os.push(format!("D {}", k + 1));
            }
            HOp::Diag(sev) => os.push(format!("G {sev}")),
            HOp::Act(r, fs) => os.push(format!("A {} {}", fmt_range(r), *fs as u8)),
            HOp::Ign(k, j) => {
                if let Some(c) = cur {
                    if c != *k {
                        let l = &refs[*k].lints[*j];
                        foreign.push(format!("{} {} {} {} {} {}", c + 1, l.span.start, l.span.end, l.priority, tag_of(tags, &l.message), ctx_key(l, &refs[c].doc)));
                    }
                }
                os.push(format!("I {} {}", k + 1, j));
            }
        }
    }
    format!("H | {} | {} | {}", docs.join(" ; "), foreign.join(" ; "), os.join(" ; "))
}

/// one code-action answer (as JSON: the wire format) in the driver's notation
fn fmt_actions_json(acts: &Value, tags: &[String]) -> String {
    let mut items: Vec<String> = vec![];
    for a in acts.as_array().cloned().unwrap_or_default() {
        if a.get("edit").is_some() || a.get("kind").is_some() {
            // CodeAction: every TextEdit of its WorkspaceEdit
            let mut n = 0;
            if let Some(ch) = a["edit"]["changes"].as_object() {
                for (_, es) in ch {
                    for e in es.as_array().cloned().unwrap_or_default() {
                        let r = &e["range"];
                        items.push(format!(
                            "E {} {} {} {} [{}]",
                            r["start"]["line"], r["start"]["character"], r["end"]["line"], r["end"]["character"],
                            cps(&chars(e["newText"].as_str().unwrap_or("\u{1}")))
                        ));
                        n += 1;
                    }
                }
            }
            if n != 1 {
                items.push(format!("?code_action_with_{n}_edits"));
            }
            continue;
        }
        let args = a["arguments"].as_array().cloned().unwrap_or_default();
        let word = |i: usize| cps(&chars(args.get(i).and_then(|x| x.as_str()).unwrap_or("\u{1}")));
        match a["command"].as_str().unwrap_or("") {
            "HarperIgnoreLint" => match serde_json::from_value::<Lint>(args.get(1).cloned().unwrap_or(Value::Null)) {
                Ok(l) => items.push(format!("I {} {} {} {} {}", l.span.start, l.span.end, l.priority, tag_of(tags, &l.message), l.suggestions.len())),
                Err(_) => items.push("?unreadable_lint".into()),
            },
            "HarperAddToUserDict" => items.push(format!("U [{}]", word(0))),
            "HarperAddToFileDict" => items.push(format!("F [{}]", word(0))),
            "HarperOpen" => items.push(format!("O [{}]", word(0))),
            other => items.push(format!("?{other}")),
        }
    }
    format!("A: {}", items.join(", ")).trim().to_string()
}

fn fmt_diags_json(diags: &Value, tags: &[String]) -> String {
    let items: Vec<String> = diags
        .as_array()
        .cloned()
        .unwrap_or_default()
        .iter()
        .map(|d| {
            let r = &d["range"];
            format!(
                "{} {} {} {} {} {}",
                r["start"]["line"], r["start"]["character"], r["end"]["line"], r["end"]["character"],
                d["severity"].as_u64().unwrap_or(0),
                tag_of(tags, d["message"].as_str().unwrap_or(""))
            )
        })
        .collect();
    format!("G: {}", items.join(", ")).trim().to_string()
}

/// the history on a real DocumentState, driven directly (what backend.rs does under its doc_state lock)
fn run_history_direct(dict: &Arc<FstDictionary>, fe: &str, refs: &[DocRef], ops: &[HOp], tags: &[String]) -> Vec<String> {
    let mut st = new_state(dict);
    let mut out: Vec<String> = vec![];
    for o in ops {
        match o {
            HOp::Doc(k) => {
                if let Ok(d) = guarded(|| frontends::make_document(fe, &refs[*k].text, dict)) {
                    st.document = d;
                }
            }
            HOp::Diag(sev) => out.push(match guarded(|| st.generate_diagnostics(SEVERITIES[*sev])) {
                Ok(d) => fmt_diags_json(&serde_json::to_value(&d).unwrap_or(Value::Null), tags),
                Err(_) => "G: P".into(),
            }),
            HOp::Act(r, fs) => out.push(match guarded(|| st.generate_code_actions(*r, &CodeActionConfig { force_stable: *fs })) {
                Ok(a) => fmt_actions_json(&serde_json::to_value(&a).unwrap_or(Value::Null), tags),
                Err(_) => "A: P".into(),
            }),
            HOp::Ign(k, j) => {
                let l = refs[*k].lints[*j].clone();
                let _ = guarded(|| st.ignore_lint(&l));
            }
        }
    }
    out
}

fn request_value(s: &mut Session, method: &str, params: Value) -> Option<Value> {
    let fut = s.start(method, params, true);
    let slot: Arc<Mutex<Option<Value>>> = Arc::new(Mutex::new(None));
    let slot2 = slot.clone();
    let wrapped: HandlerFut = Box::pin(async move {
        let r = fut.await;
        if let Some(resp) = &r {
            *slot2.lock().unwrap() = serde_json::to_value(resp).ok();
        }
        r
    });
    s.drive(wrapped);
    let v = slot.lock().unwrap().take();
    v.map(|v| v["result"].clone())
}

/// The same kind of history through the JSON-RPC handlers of backend.rs (didOpen / didChange publish
/// diagnostics themselves, so every Doc is followed by a Diag of the configured severity, and so is every
/// Ign: the HarperIgnoreLint command re-publishes).  The ignore command is sent with the arguments the server
/// itself embedded in its last code-action answer for that lint when there is one (the JSON round trip of the
/// embedded lint), otherwise with the reference lint serialised by the harness.
/// Returns the impl line; oracle failures about the glue are reported here.
#[allow(clippy::too_many_arguments)]
fn run_history_rpc(rep: &mut Report, base: &str, lang: &str, sev: usize, force_stable: bool, refs: &[DocRef], ops: &[HOp], tags: &[String], inp: &Value) -> Vec<String> {
    let _ = std::fs::remove_dir_all(base);
    std::fs::create_dir_all(format!("{base}/fd")).unwrap();
    let settings = lsclient::settings(
        &format!("{base}/user.txt"),
        &format!("{base}/fd"),
        &format!("{base}/stats.txt"),
        json!({"diagnosticSeverity": SEVERITY_NAMES[sev], "codeActions": {"ForceStable": force_stable}}),
    );
    let mut s = Session::new(settings);
    let uri = "file:///c08/history.txt";
    let mut out: Vec<String> = vec![];
    let mut opened = false;
    // the HarperIgnoreLint commands the server offered, by (document, lint JSON)
    let mut offered: Vec<(usize, Value, Vec<Value>)> = vec![];
    let mut cur = 0usize;
    // an unknown url: the handler answers an empty list, and publishes nothing for it
    match request_value(&mut s, "textDocument/codeAction", json!({"textDocument": {"uri": "file:///c08/never-opened.txt"}, "range": {"start": {"line": 0, "character": 0}, "end": {"line": 0, "character": 0}}, "context": {"diagnostics": []}})) {
        Some(Value::Array(a)) if a.is_empty() => rep.monitor("checked:code_action for an unknown url answers []", 1),
        other => fail(rep, "handler_unknown_url", format!("codeAction for a url that was never opened answered {other:?}"), inp.clone()),
    }
    let mut i = 0;
    while i < ops.len() {
        match &ops[i] {
            HOp::Doc(k) => {
                cur = *k;
                let before = s.published.len();
                let ok = if opened { s.did_change(uri, &refs[*k].text) } else { s.did_open(uri, lang, &refs[*k].text) };
                opened = true;
                if !ok || s.published.len() != before + 1 {
                    fail(rep, "handler_publish_count", format!("didOpen/didChange published {} notifications (handler finished: {ok})", s.published.len() - before), inp.clone());
                }
                // the Diag that follows in `ops` is this publication
                if let Some(d) = s.last_published(uri).cloned() {
                    check_diag_glue(rep, &d, sev, inp);
                    out.push(fmt_diags_json(&d, tags));
                } else {
                    out.push("G: ?nothing published".into());
                }
                i += 1; // skip the Diag
            }
            HOp::Diag(_) => { /* only as the companion of Doc / Ign */ }
            HOp::Act(r, _) => {
                let res = request_value(&mut s, "textDocument/codeAction", json!({"textDocument": {"uri": uri}, "range": r, "context": {"diagnostics": []}}));
                match res {
                    Some(v @ Value::Array(_)) => {
                        for a in v.as_array().unwrap() {
                            if a["command"].as_str() == Some("HarperIgnoreLint") {
                                let args = a["arguments"].as_array().cloned().unwrap_or_default();
                                if args.first().and_then(|u| u.as_str()) != Some(uri) {
                                    fail(rep, "handler_ignore_url", format!("HarperIgnoreLint carries the url {:?}", args.first()), inp.clone());
                                }
                                if let Some(lj) = args.get(1) {
                                    // hypothesis lint_json_roundtrip: the embedded JSON reads back as a Lint that
                                    // serialises to the same JSON, and it is a reference lint of the current text
                                    let back = serde_json::from_value::<Lint>(lj.clone()).ok().and_then(|l| serde_json::to_value(&l).ok());
                                    if back.as_ref() == Some(lj) {
                                        rep.monitor("checked:embedded lint JSON round trip (HarperIgnoreLint)", 1);
                                    } else {
                                        rep.monitor("violations:embedded lint JSON round trip", 1);
                                        fail(rep, "hyp_lint_json_roundtrip", "the lint embedded in HarperIgnoreLint does not survive from_value / to_value".into(), inp.clone());
                                    }
                                    offered.push((cur, lj.clone(), args.clone()));
                                }
                            }
                        }
                        out.push(fmt_actions_json(&v, tags));
                    }
                    other => out.push(format!("A: ?{other:?}")),
                }
            }
            HOp::Ign(k, j) => {
                let want = serde_json::to_value(&refs[*k].lints[*j]).unwrap();
                let args = match offered.iter().rev().find(|(d, lj, _)| d == k && *lj == want) {
                    Some((_, _, args)) => {
                        rep.count("rpc:ignore_with_the_server's_own_arguments");
                        args.clone()
                    }
                    None => {
                        rep.count("rpc:ignore_with_harness_serialised_lint");
                        vec![json!(uri), want]
                    }
                };
                let before = s.published.len();
                let ok = s.command("HarperIgnoreLint", args);
                if !ok || s.published.len() != before + 1 {
                    fail(rep, "handler_publish_count", format!("HarperIgnoreLint published {} notifications (handler finished: {ok})", s.published.len() - before), inp.clone());
                }
                if let Some(d) = s.last_published(uri).cloned() {
                    check_diag_glue(rep, &d, sev, inp);
                    out.push(fmt_diags_json(&d, tags));
                } else {
                    out.push("G: ?nothing published".into());
                }
                i += 1; // skip the Diag
            }
        }
        i += 1;
    }
    let _ = std::fs::remove_dir_all(base);
    out
}

/// publish_diagnostics / lint_to_diagnostic glue that the line format does not show
fn check_diag_glue(rep: &mut Report, diags: &Value, sev: usize, inp: &Value) {
    for d in diags.as_array().cloned().unwrap_or_default() {
        rep.monitor("checked:diagnostic severity/source as configured", 1);
        if d["severity"].as_u64() != Some(sev as u64 + 1) || d["source"].as_str() != Some("Harper") {
            fail(rep, "handler_diag_glue", format!("diagnostic with severity {} / source {} under diagnosticSeverity={}", d["severity"], d["source"], SEVERITY_NAMES[sev]), inp.clone());
        }
    }
}


fn ops_json(ops: &[HOp]) -> Value {
    Value::Array(
        ops.iter()
            .map(|o| match o {
                HOp::Doc(k) => json!(["D", k]),
                HOp::Diag(s) => json!(["G", s]),
                HOp::Act(r, fs) => json!(["A", r.start.line, r.start.character, r.end.line, r.end.character, fs]),
                HOp::Ign(k, j) => json!(["I", k, j]),
            })
            .collect(),
    )
}
fn ops_of_json(v: &Value) -> Option<Vec<HOp>> {
    let n = |x: &Value| x.as_u64().unwrap_or(0) as usize;
    let mut out = vec![];
    for o in v.as_array()? {
        out.push(match o[0].as_str()? {
            "D" => HOp::Doc(n(&o[1])),
            "G" => HOp::Diag(n(&o[1]).min(3)),
            "A" => HOp::Act(Range { start: pos(n(&o[1]), n(&o[2])), end: pos(n(&o[3]), n(&o[4])) }, o[5].as_bool().unwrap_or(false)),
            "I" => HOp::Ign(n(&o[1]), n(&o[2])),
            _ => return None,
        });
    }
    Some(out)
}

/// The property oracle over a history, on the implementation's answers alone (independent of the Coq model):
/// a request whose start denotes a character of the CURRENT text must offer exactly the lints of the current
/// text (reference linter) that contain that character and are not ignored; the diagnostics are one per
/// visible lint of the current text.
fn oracle_history(rep: &mut Report, refs: &[DocRef], ops: &[HOp], answers: &[String], tags: &[String], inp: &Value, how: &str) {
    let mut cur: Option<usize> = None;
    let mut ignored: Vec<u64> = vec![];
    let mut ai = 0;
    for (n, o) in ops.iter().enumerate() {
        match o {
            HOp::Doc(k) => cur = Some(*k),
            HOp::Ign(k, j) => {
                if let Some(c) = cur {
                    let l = &refs[*k].lints[*j];
                    ignored.push(if c == *k { refs[c].keys[*j] } else { ctx_key(l, &refs[c].doc) });
                }
            }
            HOp::Diag(_) | HOp::Act(_, _) => {
                let ans = answers.get(ai).cloned().unwrap_or_default();
                ai += 1;
                let Some(c) = cur else { continue };
                let d = &refs[c];
                let t = chars(&d.text);
                if has_lone_cr(&t) {
                    continue;
                }
                let visible: Vec<&Lint> = d.lints.iter().zip(&d.keys).filter(|(_, k)| !ignored.contains(k)).map(|(l, _)| l).collect();
                let ign_item = |l: &Lint| format!("I {} {} {} {} {}", l.span.start, l.span.end, l.priority, tag_of(tags, &l.message), l.suggestions.len());
                match o {
                    HOp::Diag(_) => {
                        let got = if ans == "G:" { 0 } else { ans.matches(", ").count() + 1 };
                        if ans.starts_with("G: P") || ans.contains('?') || got != visible.len() {
                            fail(rep, "diagnostics_not_lints", format!("operation {n} of the history ({how}): {got} diagnostics for {} visible lints of the current text: {ans}", visible.len()), inp.clone());
                        }
                    }
                    HOp::Act(rg, _) => {
                        let rc = RefClient::new(&d.text);
                        let (Some(i), Some(j)) = (rc.resolve(rg.start), rc.resolve(rg.end)) else { continue };
                        if i > j || inside_crlf(&t, i) {
                            continue;
                        }
                        rep.count("hcorr_oracle:request_at_valid_position");
                        let items: Vec<&str> = ans.trim_start_matches("A:").split(", ").map(|x| x.trim()).collect();
                        for l in &visible {
                            if l.span.start <= i && i < l.span.end && l.span.end <= t.len() {
                                rep.count("hcorr_oracle:request_inside_a_visible_lint");
                                if !items.contains(&ign_item(l).as_str()) {
                                    fail(rep, "code_action_missing", format!("operation {n} of the history ({how}): code actions requested at {} inside the lint \"{}\" {:?} of the CURRENT text do not offer it: {ans}", fmt_range(rg), l.message, l.span), inp.clone());
                                }
                            }
                        }
                        for it in items.iter().filter(|x| x.starts_with("I ")) {
                            let legit = visible.iter().any(|l| ign_item(l) == *it && l.span.start <= i && i < l.span.end);
                            if !legit {
                                fail(rep, "code_action_not_a_lint", format!("operation {n} of the history ({how}): code actions requested at {} offer \"{it}\" (start end priority tag suggestions), which is not a visible lint of the current text at that character", fmt_range(rg)), inp.clone());
                            }
                        }
                    }
                    _ => {}
                }
            }
        }
    }
}

/// Build the operations of a history over the given texts and run the correspondence (direct, and through
/// JSON-RPC when `rpc_lang` is given).
#[allow(clippy::too_many_arguments)]
fn corr_history(rep: &mut Report, cx: &Ctx, r: &mut Rng, fe: &str, rpc_lang: Option<&str>, texts: &[String], whens: &[String], scratch: &str, forced_ops: Option<(Vec<HOp>, usize, bool)>) {
    let dict = cx.dict.clone();
    let mut refs: Vec<DocRef> = vec![];
    for t in texts {
        let Some(d) = doc_ref(fe, t, &dict) else {
            rep.count("hcorr:front-end or lint panicked(C01's business)");
            return;
        };
        check_token_lookup(rep, fe, t, &d.doc);
        refs.push(d);
    }
    let mut tags: Vec<String> = vec![];
    for d in &refs {
        for l in &d.lints {
            if !tags.contains(&l.message) {
                tags.push(l.message.clone());
            }
        }
    }
    let mut rpc_sev = r.below(4);
    let mut rpc_fs = r.chance(1, 2);
    let rpc = rpc_lang.is_some();
    let ops: Vec<HOp> = match forced_ops {
        Some((o, sev, fs)) => {
            rpc_sev = sev.min(3);
            rpc_fs = fs;
            // a replayed operation list must fit the texts it is replayed on
            let fits = o.iter().all(|x| match x {
                HOp::Doc(k) => *k < refs.len(),
                HOp::Ign(k, j) => *k < refs.len() && *j < refs[*k].lints.len(),
                _ => true,
            });
            if !fits {
                rep.count("hcorr:replayed operations do not fit the texts (skipped)");
                return;
            }
            o
        }
        None => {
            let mut ops = vec![];
            for (k, d) in refs.iter().enumerate() {
                let when = if rpc { "before" } else { whens.get(k).map(|s| s.as_str()).unwrap_or("before") };
                ops.push(HOp::Doc(k));
                if when == "before" {
                    ops.push(HOp::Diag(if rpc { rpc_sev } else { r.below(4) }));
                }
                let rc = RefClient::new(&d.text);
                let t = chars(&d.text);
                let fs = |r: &mut Rng| if rpc { rpc_fs } else { r.chance(1, 3) };
                // requests at characters of the new text's lints (cursor / selection), of the PREVIOUS text's lints
                // (where stale lints would answer), and anywhere (also where no line is)
                let mut reqs: Vec<Range> = vec![];
                for l in d.lints.iter().take(6) {
                    if l.span.start < l.span.end && l.span.end <= t.len() {
                        let i = l.span.start + r.below(l.span.end - l.span.start);
                        let p = rc.position_of_char(i);
                        reqs.push(if r.chance(1, 3) { Range { start: p, end: rc.position_of_char(l.span.end) } } else { Range { start: p, end: p } });
                    }
                }
                if k > 0 {
                    let prev = &refs[k - 1];
                    let prc = RefClient::new(&prev.text);
                    for l in prev.lints.iter().take(3) {
                        if l.span.start < l.span.end && l.span.end <= prev.text.chars().count() {
                            let p = prc.position_of_char(l.span.start);
                            reqs.push(Range { start: p, end: p });
                        }
                    }
                }
                let nl = t.iter().filter(|c| **c == '\n').count();
                for _ in 0..2 {
                    let p = pos(r.below(nl + 2), r.below(12));
                    reqs.push(Range { start: p, end: p });
                }
                // at, just before, at the last character of and just behind the first Url tokens
                let mut url_starts: Vec<usize> = d.doc.get_tokens().iter().filter(|t| matches!(t.kind, TokenKind::Url)).take(2).flat_map(|t| [t.span.start, t.span.start.saturating_sub(1), t.span.end.saturating_sub(1), t.span.end]).collect();
                url_starts.dedup();
                for u in url_starts {
                    if u <= t.len() && !inside_crlf(&t, u) {
                        let p = rc.position_of_char(u);
                        reqs.push(Range { start: p, end: p });
                    }
                }
                for rg in &reqs {
                    ops.push(HOp::Act(*rg, fs(r)));
                }
                // now and then the user ignores a lint: one of this text, or (direct only) a stale one of the
                // previous text while this text is current; then looks again
                if !d.lints.is_empty() && r.chance(1, 2) {
                    let j = r.below(d.lints.len());
                    ops.push(HOp::Ign(k, j));
                    ops.push(HOp::Diag(if rpc { rpc_sev } else { r.below(4) }));
                    if let Some(rg) = reqs.first() {
                        ops.push(HOp::Act(*rg, fs(r)));
                    }
                } else if k > 0 && !refs[k - 1].lints.is_empty() && r.chance(1, 3) {
                    let j = r.below(refs[k - 1].lints.len());
                    ops.push(HOp::Ign(k - 1, j));
                    ops.push(HOp::Diag(if rpc { rpc_sev } else { r.below(4) }));
                    if let Some(rg) = reqs.first() {
                        ops.push(HOp::Act(*rg, fs(r)));
                    }
                }
                if when == "after" {
                    ops.push(HOp::Diag(r.below(4)));
                }
            }
            ops
        }
    };
    rep.eval();
    let line = history_case_line(&refs, &ops, &tags);
    let nl: usize = refs.iter().map(|d| d.lints.len()).sum();
    if nl > 0 {
        rep.nontrivial(&(5u8, rpc, fe.to_string(), texts.to_vec(), format!("{ops:?}")));
    }
    let inp = json!({"kind": "hcorr", "frontend": fe, "rpc_lang": rpc_lang, "texts": texts, "whens": whens, "ops": ops_json(&ops), "rpc_sev": rpc_sev, "rpc_fs": rpc_fs});
    if let Some(lang) = rpc_lang {
        rep.count("hcorr:history_through_JSON-RPC");
        rep.count_n("hcorr:rpc_operations", ops.len() as u64);
        let answers = run_history_rpc(rep, scratch, lang, rpc_sev, rpc_fs, &refs, &ops, &tags, &inp);
        rep.case(&line, &answers.join(" ; "));
        oracle_history(rep, &refs, &ops, &answers, &tags, &inp, "through the JSON-RPC handlers");
    } else {
        rep.count("hcorr:history_on_DocumentState");
        rep.count_n("hcorr:direct_operations", ops.len() as u64);
        let answers = run_history_direct(&dict, fe, &refs, &ops, &tags);
        rep.case(&line, &answers.join(" ; "));
        oracle_history(rep, &refs, &ops, &answers, &tags, &inp, "on a DocumentState");
    }
    for o in &ops {
        rep.count(match o {
            HOp::Doc(_) => "hcorr_op:set_document",
            HOp::Diag(_) => "hcorr_op:generate_diagnostics",
            HOp::Act(_, false) => "hcorr_op:generate_code_actions",
            HOp::Act(_, true) => "hcorr_op:generate_code_actions(force_stable)",
            HOp::Ign(_, _) => "hcorr_op:ignore_lint",
        });
    }
}

/// `x as u32` for usize x: the cast of index_to_position, against Model as_u32 (driver case T)
fn check_casts(rep: &mut Report, r: &mut Rng, n: usize) {
    let mut xs: Vec<u64> = vec![0, 1, u32::MAX as u64 - 1, u32::MAX as u64, u32::MAX as u64 + 1, u32::MAX as u64 + 2, (1u64 << 33) + 5, (1u64 << 62) - 1, 3 * (1u64 << 32)];
    for _ in 0..n {
        xs.push(r.next() >> (2 + r.below(40)));
    }
    for x in xs {
        rep.eval();
        rep.count(if x > u32::MAX as u64 { "cast:usize_above_u32(truncation branch)" } else { "cast:usize_within_u32" });
        rep.case(&format!("T {x}"), &format!("{}", (x as usize) as u32));
    }
    // a line wider than 2^16 UTF-16 units and a text with more than 2^16 lines: far inside the u32 bound, the
    // casts must be the identity there (a narrower cast is caught with these inputs)
    let wide: Vec<char> = std::iter::repeat('a').take(66_000).chain("b😀 teh".chars()).collect();
    let tall: Vec<char> = std::iter::repeat('\n').take(66_000).chain("ab teh".chars()).collect();
    for (t, name) in [(&wide, "wide"), (&tall, "tall")] {
        let text: String = t.iter().collect();
        let rc = RefClient::new(&text);
        let n = t.len();
        for (a, b) in [(n - 3, n), (0, n), (65_535, 65_537), (n - 6, n - 4)] {
            rep.eval();
            rep.count(&format!("cast:span_beyond_2^16_{name}"));
            let r = guarded(|| span_to_range(t, Span { start: a, end: b }));
            match &r {
                Ok(rg) => {
                    rep.case(&format!("S {a} {b} | {}", cps(t)), &fmt_range(rg));
                    if rc.resolve(rg.start) != Some(a) || rc.resolve(rg.end) != Some(b) {
                        fail(rep, "range_wrong", format!("span [{a},{b}) of a text with a {name} shape (66 000 {}) became range {}, which an LSP client reads as {:?}..{:?}", if name == "wide" { "characters on one line" } else { "lines" }, fmt_range(rg), rc.resolve(rg.start), rc.resolve(rg.end)), json!({"kind": "casts"}));
                    }
                }
                Err(_) => rep.case(&format!("S {a} {b} | {}", cps(t)), "P"),
            }
        }
    }
}

fn replay_input(rep: &mut Report, cx: &mut Ctx, r: &mut Rng, v: &Value) {
    let t: Vec<char> = v["text"].as_str().unwrap_or("").chars().collect();
    match v["kind"].as_str() {
        Some("document") => check_document(rep, cx, r, v["frontend"].as_str().unwrap_or("plain"), v["text"].as_str().unwrap_or(""), usize::MAX),
        Some("history") => {
            let steps: Vec<Value> = v["steps"].as_array().cloned().unwrap_or_default();
            check_history(rep, cx, r, v["frontend"].as_str().unwrap_or("plain"), &steps, usize::MAX);
            // the same history as a model/implementation correspondence
            let texts: Vec<String> = steps.iter().map(|s| s["text"].as_str().unwrap_or("").to_string()).collect();
            let whens: Vec<String> = steps.iter().map(|s| s["diag"].as_str().unwrap_or("before").to_string()).collect();
            let scratch = format!("/tmp/w-c08-{}", std::process::id());
            corr_history(rep, cx, r, v["frontend"].as_str().unwrap_or("plain"), None, &texts, &whens, &scratch, None);
        }
        Some("casts") => check_casts(rep, r, 4),
        Some("tokens") => {
            let fe = v["frontend"].as_str().unwrap_or("plain");
            let text = v["text"].as_str().unwrap_or("");
            match guarded(|| frontends::make_document(fe, text, &cx.dict)) {
                Ok(doc) => check_token_lookup(rep, fe, text, &doc),
                Err(_) => rep.count("tokens:front-end panicked(C01's business)"),
            }
            check_binary_search(rep, r, 4);
        }
        Some("hcorr") => {
            let strs = |x: &Value| -> Vec<String> { x.as_array().cloned().unwrap_or_default().iter().map(|s| s.as_str().unwrap_or("").to_string()).collect() };
            let scratch = format!("/tmp/w-c08-{}", std::process::id());
            // a replayed correspondence history runs both ways when it has an LSP language id
            let fe = v["frontend"].as_str().unwrap_or("plain");
            let forced = ops_of_json(&v["ops"]).map(|o| (o, v["rpc_sev"].as_u64().unwrap_or(3) as usize, v["rpc_fs"].as_bool().unwrap_or(false)));
            match v["rpc_lang"].as_str() {
                // the exact operations when the input carries them, else freshly generated ones
                Some(lang) => corr_history(rep, cx, r, fe, Some(lang), &strs(&v["texts"]), &strs(&v["whens"]), &scratch, forced),
                None => corr_history(rep, cx, r, fe, None, &strs(&v["texts"]), &strs(&v["whens"]), &scratch, forced),
            }
        }
        kind => {
            // the exact case first (a long text is not swept exhaustively), then the whole text
            let rc = RefClient::new(v["text"].as_str().unwrap_or(""));
            let in_domain = !has_lone_cr(&t);
            let num = |x: &Value| x.as_u64().unwrap_or(0) as usize;
            if kind == Some("lookup") {
                let (p1, p2) = (pos(num(&v["p1"][0]), num(&v["p1"][1])), pos(num(&v["p2"][0]), num(&v["p2"][1])));
                check_lookup(rep, &t, &rc, p1, p2, in_domain, "replay");
            }
            if kind == Some("edit") {
                let doc = Document::new_from_vec(Lrc::new(t.clone()), &PlainEnglish, &cx.dict);
                let cs: Vec<char> = v["cs"].as_str().unwrap_or("").chars().collect();
                check_edit(rep, cx, &doc, &t, &rc, num(&v["sug"]), &cs, num(&v["a"]), num(&v["b"]), in_domain, "replay");
            }
            check_text(rep, cx, r, &t, "replay", t.len() <= 12)
        }
    }
}

const PIECES: &[&str] = &[
    "a", "b", "teh", " ", " ", "\t", "\n", "\n", "\n\n", "\r\n", "\r\n", "\r", "😀", "𝒜", "e\u{301}", "é", "漢", "\u{2028}", ".", "x y",
    "\u{10FFFF}", "\u{FFFF}", "\u{10000}", "\u{feff}",
];

fn random_text(r: &mut Rng, max_pieces: usize) -> Vec<char> {
    let n = r.below(max_pieces + 1);
    let mut s = String::new();
    for _ in 0..n {
        s.push_str(r.s(PIECES));
    }
    match r.below(6) {
        0 => s.push('\n'),
        1 => s.push_str("\r\n"),
        _ => {}
    }
    s.chars().collect()
}

pub fn run(a: &Args, corpus: &[Value]) {
    let rt = lsclient::runtime();
    let _g = rt.enter();
    let mut rep = Report::new(&a.out);
    rep.rule = "texts: random concatenations of ASCII/tab/LF/CRLF/lone-CR/astral/combining/BMP-edge pieces (<= 12 pieces; all spans incl. out-of-text ones, the full position grid incl. non-existent lines and columns past the line end, all ordered pairs of valid positions on small texts, 1-3 suggestions per span through diagnostics::lint_to_code_actions); documents from every front-end through DocumentState with the curated LintGroup: every diagnostic range read by the reference client, code actions requested at every position inside every diagnostic range (sampled for spans longer than the bound), every returned TextEdit applied by the reference client. the UTF-16 width of single scalar values (every 251st + boundaries; thorough: all 1 112 063 except LF); the specification side (resolve_lsp / client_apply_lsp, lines ending at LF, CRLF or CR) against the reference client on every text incl. lone CR. thorough adds all texts of length <= 4 over {a, LF, astral, CR}. histories on one DocumentState: 2-5 texts derived from each other by edits that move / remove / add lints, the document replaced and code actions requested at every lint of the new text (lints by a fresh reference linter) with generate_diagnostics before, after or not at all. non-trivial = distinct (text, span) / (text, span, suggestion) / (text, range) / linted document / linted history step".into();
    let dict = FstDictionary::curated();
    let st = new_state(&dict);
    let mut cx = Ctx { dict, url: Url::parse("file:///doc.txt").unwrap(), cfg: CodeActionConfig::default(), st };
    let mut r = Rng::new(a.seed);
    for c in corpus {
        replay_input(&mut rep, &mut cx, &mut r, c);
    }
    if a.replay.is_some() {
        rep.finish();
        return;
    }
    // char::len_utf16 as used by span_to_range vs the model's len_utf16: the column behind a one-character
    // line, for scalar values across the whole range (thorough: every one of them)
    {
        let step = if a.thorough() { 1 } else { 251 };
        let mut cands: Vec<u32> = (0..=0x10FFFFu32).step_by(step).collect();
        cands.extend([0x7f, 0x80, 0x7ff, 0x800, 0xd7ff, 0xe000, 0xfffe, 0xffff, 0x10000, 0x10001, 0x1f600, 0x10ffff]);
        for c in cands {
            let Some(ch) = char::from_u32(c) else { continue };
            if ch == '\n' {
                continue;
            }
            let t = [ch];
            let rg = guarded(|| span_to_range(&t, Span { start: 0, end: 1 }));
            rep.eval();
            rep.count("utf16_width_sweep");
            match rg {
                Ok(rg) => {
                    rep.case(&format!("S 0 1 | {}", cps(&t)), &fmt_range(&rg));
                    let want = if c >= 0x10000 { 2 } else { 1 };
                    if rg.end != pos(0, want) || rg.start != pos(0, 0) {
                        fail(&mut rep, "utf16_width", format!("U+{c:04X} takes {want} UTF-16 code unit(s) but the range of the one-character text is {}", fmt_range(&rg)), text_input(&t, "utf16"));
                    }
                }
                Err(m) => fail(&mut rep, "span_to_range_panics", format!("span_to_range panicked on U+{c:04X}: {m}"), text_input(&t, "utf16")),
            }
        }
    }
    for _ in 0..a.scale(260, 4000) {
        let t = random_text(&mut r, 12);
        check_text(&mut rep, &cx, &mut r, &t, "random", false);
    }
    // prose with line structure (LF / CRLF, with and without trailing newline)
    for i in 0..a.scale(30, 300) {
        let mut d = gen::document(&mut r);
        if i % 3 == 1 {
            d = d.replace("\r\n", "\n").replace('\n', "\r\n");
        }
        let t: Vec<char> = d.chars().take(120).collect();
        check_text(&mut rep, &cx, &mut r, &t, "prose", false);
    }
    if a.thorough() {
        let sym = ['a', '\n', '😀', '\r'];
        let mut n = 0u64;
        for len in 0..=4usize {
            for code in 0..(4usize.pow(len as u32)) {
                let t: Vec<char> = (0..len).map(|i| sym[(code >> (2 * i)) & 3]).collect();
                check_text(&mut rep, &cx, &mut r, &t, "exhaustive", true);
                n += 1;
            }
        }
        rep.extra.insert("exhaustive_texts_len_le4_over_a_LF_astral_CR".into(), json!(n));
    }
    // documents
    let mut fes = frontends::base_frontends();
    fes.push("plain".into());
    fes.push("plain".into());
    fes.push("markdown".into());
    let per_fe = a.scale(5, 60);
    let max_positions = a.scale(6, 40);
    for fe in &fes {
        for i in 0..per_fe {
            let mut text = frontends::embed(fe, &mut r);
            // end the document in a flagged construct on the last line, with/without trailing newline
            match i % 5 {
                0 => text.push_str("\nteh 😀 recieve"),
                1 => text.push_str("\n𝒜𝒷 an apple an problem\n"),
                2 => text = text.replace("\r\n", "\n").replace('\n', "\r\n"),
                3 => text = format!("😀😀 teh\tteh {text}"),
                _ => {}
            }
            if text.chars().count() > 700 {
                continue;
            }
            if cx.st.linter.config != harper_core::linting::LintGroupConfig::default() {
                cx.st.linter.config = Default::default();
            }
            check_document(&mut rep, &mut cx, &mut r, fe, &text, max_positions);
        }
    }
    // histories on one DocumentState (update_document / generate_code_actions / generate_diagnostics in
    // every order the doc_state mutex admits)
    let hist_fes = ["plain", "plain", "markdown", "plain", "c:rust", "c:python", "lhaskell", "gitcommit", "html", "typst"];
    let scratch = format!("/tmp/w-c08-{}", std::process::id());
    for h in 0..a.scale(40, 500) {
        let fe = hist_fes[h % hist_fes.len()];
        let mut cur = match h % 4 {
            0 => "This is teh first line.\nAnd teh second.".to_string(),
            1 => format!("{} teh 😀 recieve", frontends::embed(fe, &mut r)),
            _ => frontends::embed(fe, &mut r),
        };
        let mut steps = vec![step_json(&cur, "before")];
        for _ in 0..r.range(1, 4) {
            cur = next_text(&mut r, fe, &cur);
            steps.push(step_json(&cur, *r.pick(&["before", "after", "after", "none", "none"])));
        }
        if steps.iter().any(|s| s["text"].as_str().unwrap().chars().count() > 500) {
            continue;
        }
        check_history(&mut rep, &mut cx, &mut r, fe, &steps, a.scale(3, 12));
        // the same history as a model/implementation correspondence on a DocumentState driven directly
        let texts: Vec<String> = steps.iter().map(|s| s["text"].as_str().unwrap().to_string()).collect();
        let whens: Vec<String> = steps.iter().map(|s| s["diag"].as_str().unwrap().to_string()).collect();
        corr_history(&mut rep, &cx, &mut r, fe, None, &texts, &whens, &scratch, None);
    }
    // histories through the JSON-RPC handlers (code_action, publish_diagnostics, HarperIgnoreLint)
    for h in 0..a.scale(14, 160) {
        let (fe, lang) = *r.pick(&[("plain", "plaintext"), ("plain", "plaintext"), ("markdown", "markdown"), ("plain", "mail")]);
        let mut cur = match h % 3 {
            0 => "This is teh first line.\nAnd teh second 😀 recieve at https://example.com/x now.".to_string(),
            _ => format!("{} teh 𝒜 recieve", frontends::embed(fe, &mut r)),
        };
        let mut texts = vec![cur.clone()];
        for _ in 0..r.range(1, 3) {
            cur = next_text(&mut r, fe, &cur);
            texts.push(cur.clone());
        }
        if texts.iter().any(|t| t.chars().count() > 400 || has_lone_cr(&chars(t))) {
            continue;
        }
        corr_history(&mut rep, &cx, &mut r, fe, Some(lang), &texts, &[], &scratch, None);
    }
    check_casts(&mut rep, &mut r, a.scale(200, 20000));
    // PHASE 4: get_token_at_char_index at every index of documents of every front-end (urls added: in a
    // paragraph of its own, behind a paragraph break, at the very start), and binary_search_by itself
    for fe in &fes {
        for i in 0..a.scale(2, 25) {
            let base = frontends::embed(fe, &mut r);
            let text = match i % 4 {
                0 => format!("{base}\n\nSee https://example.com/x?y=1 now.\n\nteh end"),
                1 => format!("https://c.ex/{i}\n\n{base}"),
                2 => format!("{base} at http://a.example/😀 and\r\n\r\nhttps://b.example."),
                _ => base,
            };
            if text.chars().count() > 600 {
                continue;
            }
            match guarded(|| frontends::make_document(fe, &text, &cx.dict)) {
                Ok(doc) => check_token_lookup(&mut rep, fe, &text, &doc),
                Err(_) => rep.count("tokens:front-end panicked(C01's business)"),
            }
        }
    }
    check_binary_search(&mut rep, &mut r, a.scale(300, 20000));
    rep.count_n("hcorr:Url token not found by get_token_at_char_index at its own start(not C08's property: C08_token_at_unsorted_refuted, C08_url_lookup_only_appends)", URL_MISSED.with(|c| c.get()));
    rep.finish();
}

fn main() {
    let (args, corpus) = hv::cli();
    run(&args, &corpus);
}
