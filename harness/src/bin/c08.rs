//! C08 — LSP position conversion and quick-fix edits.
//! Correspondence: pos_conv::{span_to_range, range_to_span} and the TextEdit built by
//! diagnostics::lint_to_code_actions vs Model/PosConv.v (extracted); the reference LSP client below vs
//! the specification side of the model (resolve / client_apply).
//! Oracle: the reference client (UTF-16 code units, written from the LSP specification, shares nothing
//! with pos_conv.rs) resolves every diagnostic range to exactly the lint's characters, applies every
//! TextEdit and gets what Suggestion::apply gets, and code actions requested at every position inside
//! a diagnostic range contain that lint's fixes.  Histories on ONE DocumentState (the order of operations
//! the doc_state mutex of backend.rs admits: the document is replaced, code actions are served, and only
//! then - or never - diagnostics are generated again): code actions always speak about the CURRENT text.
use harper_core::linting::{Lint, LintGroup, Linter, Suggestion};
use harper_core::parsers::PlainEnglish;
use harper_core::{Dialect, Document, FstDictionary, Lrc, MergedDictionary, Span};
use hv::common::*;
use hv::{frontends, gen};
use lsx::config::{CodeActionConfig, DiagnosticSeverity};
use lsx::diagnostics::lint_to_code_actions;
use lsx::document_state::DocumentState;
use lsx::pos_conv::{range_to_span, span_to_range};
use lsx::tower_lsp::lsp_types::{CodeActionOrCommand, Position, Range, TextEdit, Url};
use serde_json::{json, Value};
use std::sync::Arc;

// ------------------------------------------------------------------------------------------------
// The reference LSP client.  A document is a sequence of UTF-16 code units; lines end at "\r\n", "\n"
// or "\r" (LSP 3.17, "Text Documents"); `character` is an offset in code units into the line.
// ------------------------------------------------------------------------------------------------
pub struct RefClient {
    units: Vec<u16>,
    /// (offset of the first unit of the line, offset one past its last content unit)
    lines: Vec<(usize, usize)>,
}

impl RefClient {
    pub fn new(text: &str) -> Self {
        let units: Vec<u16> = text.encode_utf16().collect();
        let mut lines = vec![];
        let mut start = 0;
        let mut i = 0;
        while i < units.len() {
            if units[i] == 0x0d {
                lines.push((start, i));
                i += if i + 1 < units.len() && units[i + 1] == 0x0a { 2 } else { 1 };
                start = i;
            } else if units[i] == 0x0a {
                lines.push((start, i));
                i += 1;
                start = i;
            } else {
                i += 1;
            }
        }
        lines.push((start, units.len()));
        RefClient { units, lines }
    }
    /// code-unit offset of a position; None when the line does not exist or the column lies beyond it
    pub fn offset(&self, p: Position) -> Option<usize> {
        let (s, e) = *self.lines.get(p.line as usize)?;
        let o = s + p.character as usize;
        if o <= e { Some(o) } else { None }
    }
    /// number of characters before the code-unit offset; None when it splits a surrogate pair
    pub fn char_index(&self, off: usize) -> Option<usize> {
        String::from_utf16(&self.units[..off]).ok().map(|s| s.chars().count())
    }
    pub fn resolve(&self, p: Position) -> Option<usize> {
        self.offset(p).and_then(|o| self.char_index(o))
    }
    /// the position of the character with index `idx` (idx == number of chars: end of document)
    pub fn position_of_char(&self, idx: usize) -> Position {
        let mut off = 0;
        let mut seen = 0;
        while seen < idx {
            off += if (0xd800..0xdc00).contains(&self.units[off]) { 2 } else { 1 };
            seen += 1;
        }
        // the last line starting at or before `off`; an offset between '\r' and '\n' has no position:
        // report it on the line of the '\r', one past its content (what a '\n'-only reader would say)
        let mut line = 0;
        for (k, (s, _)) in self.lines.iter().enumerate() {
            if *s <= off {
                line = k;
            }
        }
        Position { line: line as u32, character: (off - self.lines[line].0) as u32 }
    }
    /// TextEdit application
    pub fn apply(&self, range: Range, new_text: &str) -> Option<String> {
        let a = self.offset(range.start)?;
        let b = self.offset(range.end)?;
        // a position between the two halves of a surrogate pair is not a position
        self.char_index(a)?;
        self.char_index(b)?;
        if a > b {
            return None;
        }
        let mut out: Vec<u16> = self.units[..a].to_vec();
        out.extend(new_text.encode_utf16());
        out.extend(&self.units[b..]);
        String::from_utf16(&out).ok()
    }
}

/// Report::fail keeps the first 2000 failures of a run; one defect can produce more than that in the
/// thorough tier.  So that no class can crowd out another, at most PER_CLASS failures of one class are
/// listed; the rest are only counted (`fail_not_listed:<class>` in the distribution).
const PER_CLASS: usize = 140;
thread_local! { static LISTED: std::cell::RefCell<std::collections::HashMap<String, usize>> = Default::default(); }
fn fail(rep: &mut Report, class: &str, what: String, input: Value) {
    let n = LISTED.with(|m| {
        let mut m = m.borrow_mut();
        let e = m.entry(class.to_string()).or_insert(0);
        *e += 1;
        *e
    });
    if n <= PER_CLASS {
        rep.fail(class, what, input);
    } else {
        rep.count(&format!("fail_not_listed:{class}"));
    }
}

fn has_cr(t: &[char]) -> bool {
    t.contains(&'\r')
}
fn has_lone_cr(t: &[char]) -> bool {
    (0..t.len()).any(|i| t[i] == '\r' && t.get(i + 1) != Some(&'\n'))
}
fn inside_crlf(t: &[char], i: usize) -> bool {
    i > 0 && i < t.len() && t[i - 1] == '\r' && t[i] == '\n'
}
/// the class of the FIXED finding F9 (Model/PosConv.v: KnownClass): a position on the final line, line >= 1.
/// Only used to describe the input distribution: since 229693d no failure is excused there.
fn known_class(t: &[char], line: u32) -> bool {
    line >= 1 && t.iter().filter(|c| **c == '\n').count() == line as usize
}
fn pos(l: usize, c: usize) -> Position {
    Position { line: l as u32, character: c as u32 }
}
fn fmt_range(r: &Range) -> String {
    format!("{} {} {} {}", r.start.line, r.start.character, r.end.line, r.end.character)
}
fn sug_of(kind: usize, cs: &[char]) -> Suggestion {
    match kind {
        0 => Suggestion::ReplaceWith(cs.to_vec()),
        1 => Suggestion::InsertAfter(cs.to_vec()),
        _ => Suggestion::Remove,
    }
}
fn sug_parts(s: &Suggestion) -> (usize, Vec<char>) {
    match s {
        Suggestion::ReplaceWith(c) => (0, c.clone()),
        Suggestion::InsertAfter(c) => (1, c.clone()),
        Suggestion::Remove => (2, vec![]),
    }
}
fn edits_of(actions: &[CodeActionOrCommand]) -> Vec<(String, TextEdit)> {
    let mut out = vec![];
    for a in actions {
        if let CodeActionOrCommand::CodeAction(ca) = a {
            if let Some(ch) = ca.edit.as_ref().and_then(|e| e.changes.as_ref()) {
                for (_, es) in ch {
                    for e in es {
                        out.push((ca.title.clone(), e.clone()));
                    }
                }
            }
        }
    }
    out
}

struct Ctx {
    dict: Arc<FstDictionary>,
    url: Url,
    cfg: CodeActionConfig,
    st: DocumentState,
}

fn text_input(t: &[char], origin: &str) -> Value {
    json!({"kind": "text", "text": t.iter().collect::<String>(), "origin": origin})
}

/// span -> range on one (text, span); correspondence + oracle (range read by the reference client
/// covers exactly the span)
fn check_span(rep: &mut Report, cx: &Ctx, t: &[char], text: &str, rc: &RefClient, a: usize, b: usize, in_domain: bool, origin: &str) {
    rep.eval();
    let line = format!("S {a} {b} | {}", cps(t));
    let r = guarded(|| span_to_range(t, Span { start: a, end: b }));
    match &r {
        Ok(rg) => rep.case(&line, &fmt_range(rg)),
        Err(_) => rep.case(&line, "P"),
    }
    let _ = (cx, text);
    if !(a <= b && b <= t.len()) {
        rep.count("span:outside_text(panic agreement only)");
        return;
    }
    rep.nontrivial(&(0u8, t.to_vec(), a, b));
    if !in_domain {
        rep.count("span:text_with_lone_CR(correspondence only)");
        return;
    }
    if inside_crlf(t, a) || inside_crlf(t, b) {
        rep.count("span:endpoint_inside_CRLF(excluded by hypothesis)");
        return;
    }
    match r {
        Err(m) => fail(rep, "span_to_range_panics", format!("span_to_range panicked on a span inside the text: {m}"), text_input(t, origin)),
        Ok(rg) => {
            let (x, y) = (rc.resolve(rg.start), rc.resolve(rg.end));
            if x != Some(a) || y != Some(b) {
                fail(rep, 
                    "range_wrong",
                    format!("span [{a},{b}) became range {} which an LSP client reads as characters {:?}..{:?}", fmt_range(&rg), x, y),
                    text_input(t, origin),
                );
            }
            rep.count(if rg.start.line == rg.end.line { "span:single_line" } else { "span:multi_line" });
        }
    }
}

/// the TextEdit diagnostics.rs builds for (span, suggestion); correspondence + oracle
fn check_edit(rep: &mut Report, cx: &Ctx, doc: &Document, t: &[char], rc: &RefClient, kind: usize, cs: &[char], a: usize, b: usize, in_domain: bool, origin: &str) {
    rep.eval();
    let line = format!("E {kind} {a} {b} | {} | {}", cps(t), cps(cs));
    let s = sug_of(kind, cs);
    let lint = Lint { span: Span { start: a, end: b }, suggestions: vec![s.clone()], message: "m".into(), ..Default::default() };
    let r = guarded(|| lint_to_code_actions(&lint, &cx.url, doc, &cx.cfg));
    let edit = match r {
        Ok(acts) => edits_of(&acts).into_iter().next(),
        Err(_) => None,
    };
    match &edit {
        Some((_, e)) => rep.case(&line, format!("{} | {}", fmt_range(&e.range), cps(&chars(&e.new_text))).trim()),
        None => rep.case(&line, "P"),
    }
    if !(a <= b && b <= t.len()) {
        rep.count("edit:span_outside_text(panic agreement only)");
        return;
    }
    rep.nontrivial(&(1u8, t.to_vec(), a, b, kind, cs.to_vec()));
    if !in_domain || inside_crlf(t, a) || inside_crlf(t, b) {
        return;
    }
    let inp = json!({"kind": "edit", "text": t.iter().collect::<String>(), "a": a, "b": b, "sug": kind, "cs": cs.iter().collect::<String>(), "origin": origin});
    let Some((title, e)) = edit else {
        fail(rep, "edit_panics", "lint_to_code_actions panicked or returned no edit for a span inside the text".into(), inp);
        return;
    };
    let want = guarded(|| {
        let mut v = t.to_vec();
        s.apply(Span { start: a, end: b }, &mut v);
        v.iter().collect::<String>()
    });
    let got = rc.apply(e.range, &e.new_text);
    rep.count(&format!("edit:{}", ["replace", "insert_after", "remove"][kind.min(2)]));
    if title != s.to_string() {
        fail(rep, "edit_title", format!("code action title {title:?} is not the suggestion {s}"), inp.clone());
    }
    match (want, got) {
        (Ok(w), Some(g)) if w == g => {}
        (w, g) => fail(rep, "edit_mismatch", format!("client applying the TextEdit gets {g:?}, Suggestion::apply gets {w:?}"), inp),
    }
}

/// position -> index: correspondence on (p1,p2) and the lookup oracle for valid positions
fn check_lookup(rep: &mut Report, t: &[char], rc: &RefClient, p1: Position, p2: Position, in_domain: bool, origin: &str) {
    rep.eval();
    let rg = Range { start: p1, end: p2 };
    let line = format!("R {} | {}", fmt_range(&rg), cps(t));
    let r = guarded(|| range_to_span(t, rg));
    match &r {
        Ok(s) => rep.case(&line, &format!("{} {}", s.start, s.end)),
        Err(_) => rep.case(&line, "P"),
    }
    rep.nontrivial(&(2u8, t.to_vec(), p1.line, p1.character, p2.line, p2.character));
    if !in_domain {
        return;
    }
    // a request an editor can send: valid positions in document order.  What generate_code_actions needs
    // of range_to_span: no panic (Span::new), and the START is the character the position denotes
    // (the lookup span is [start, start+1)).  A start at the very end of the text denotes no character
    // and cannot lie inside a diagnostic range: only "no panic" is demanded there.
    if let (Some(i1), Some(i2)) = (rc.resolve(p1), rc.resolve(p2)) {
        if i1 > i2 {
            return;
        }
        rep.count("lookup:valid_position_pair");
        if known_class(t, p1.line) || known_class(t, p2.line) {
            rep.count("lookup:on_final_line(line>=1)");
        }
        if i1 == t.len() {
            rep.count("lookup:start_at_end_of_text(no character there: no-panic only)");
        }
        let start_ok = i1 == t.len() || matches!(&r, Ok(s) if s.start == i1);
        if !(r.is_ok() && start_ok) {
            let got = match &r {
                Ok(s) => format!("characters {}..{}", s.start, s.end),
                Err(m) => format!("a panic ({m})"),
            };
            let inp = json!({"kind": "lookup", "text": t.iter().collect::<String>(), "p1": [p1.line, p1.character], "p2": [p2.line, p2.character], "origin": origin});
            fail(rep, "lookup_wrong", format!("range {} denotes characters {i1}..{i2} but range_to_span answers {got}", fmt_range(&rg)), inp);
        }
    } else {
        rep.count("lookup:invalid_position(correspondence only)");
    }
}

/// the specification side of the model vs the reference client (texts without CR: the model's
/// `resolve` splits lines at '\n' only)
fn check_spec(rep: &mut Report, t: &[char], rc: &RefClient, p1: Position, p2: Position, nt: &[char]) {
    let v = rc.resolve(p1).map(|i| i.to_string()).unwrap_or("N".into());
    let nts: String = nt.iter().collect();
    let got = rc.apply(Range { start: p1, end: p2 }, &nts).map(|s| format!("O {}", cps(&chars(&s))).trim().to_string()).unwrap_or("N".into());
    // resolve_lsp / client_apply_lsp know "\n", "\r\n" and "\r" like the reference client: every text
    rep.case(&format!("W {} {} | {}", p1.line, p1.character, cps(t)), &v);
    rep.case(&format!("D {} | {} | {}", fmt_range(&Range { start: p1, end: p2 }), cps(t), cps(nt)), &got);
    rep.count("spec:resolve_lsp/client_apply_lsp vs reference client");
    // resolve / client_apply only know "\n" (harper's view): texts without CR
    if !has_cr(t) {
        rep.case(&format!("V {} {} | {}", p1.line, p1.character, cps(t)), &v);
        rep.case(&format!("C {} | {} | {}", fmt_range(&Range { start: p1, end: p2 }), cps(t), cps(nt)), &got);
    }
}

fn check_text(rep: &mut Report, cx: &Ctx, r: &mut Rng, t: &[char], origin: &str, exhaustive: bool) {
    let text: String = t.iter().collect();
    let rc = RefClient::new(&text);
    let in_domain = !has_lone_cr(t);
    let n = t.len();
    rep.count(&format!(
        "text:{}{}{}{}",
        if has_lone_cr(t) { "loneCR" } else if has_cr(t) { "CRLF" } else { "LF-only" },
        if t.last() == Some(&'\n') { ",trailing-newline" } else { ",no-trailing-newline" },
        if t.iter().any(|c| (*c as u32) >= 0x10000) { ",astral" } else { "" },
        if t.contains(&'\t') { ",tab" } else { "" }
    ));
    let doc = Document::new_from_vec(Lrc::new(t.to_vec()), &PlainEnglish, &cx.dict);
    // spans
    let mut spans: Vec<(usize, usize)> = vec![];
    if exhaustive || n <= 10 {
        for a in 0..=n {
            for b in a..=n {
                spans.push((a, b));
            }
        }
    } else {
        for _ in 0..24 {
            let (x, y) = (r.below(n + 1), r.below(n + 1));
            spans.push((x.min(y), x.max(y)));
        }
        spans.push((0, n));
        spans.push((n, n));
        spans.push((n.saturating_sub(1), n));
    }
    spans.push((n, n + 1));
    spans.push((n + 2, n + 2));
    if n > 0 {
        spans.push((n, n - 1));
    }
    let alphabet: Vec<char> = "x\n😀é ".chars().collect();
    for (a, b) in spans {
        check_span(rep, cx, t, &text, &rc, a, b, in_domain, origin);
        let k = if exhaustive { 3 } else { 1 };
        for j in 0..k {
            let kind = if exhaustive { j } else { r.below(3) };
            let cs: Vec<char> = if kind == 2 { vec![] } else { (0..r.below(4)).map(|_| *r.pick(&alphabet)).collect() };
            check_edit(rep, cx, &doc, t, &rc, kind, &cs, a, b, in_domain, origin);
        }
    }
    // positions: the whole grid (incl. lines that do not exist and columns past the line end)
    let nlines = t.iter().filter(|c| **c == '\n').count() + 1;
    let maxcol = text.split('\n').map(|l| l.encode_utf16().count()).max().unwrap_or(0);
    let mut grid: Vec<Position> = vec![];
    for l in 0..nlines + 2 {
        for c in 0..maxcol + 3 {
            grid.push(pos(l, c));
        }
    }
    for p in &grid {
        check_lookup(rep, t, &rc, *p, *p, in_domain, origin);
    }
    let pairs = if exhaustive { grid.len() * 3 } else { 16 };
    for _ in 0..pairs {
        let p1 = *r.pick(&grid);
        let p2 = *r.pick(&grid);
        check_lookup(rep, t, &rc, p1, p2, in_domain, origin);
        let nt: Vec<char> = (0..r.below(3)).map(|_| *r.pick(&alphabet)).collect();
        check_spec(rep, t, &rc, p1, p2, &nt);
    }
    // every ordered pair of valid positions on a small text (a selection an editor can send)
    if n <= 10 || exhaustive {
        for i in 0..=n {
            for j in i..=n {
                if inside_crlf(t, i) || inside_crlf(t, j) {
                    continue;
                }
                check_lookup(rep, t, &rc, rc.position_of_char(i), rc.position_of_char(j), in_domain, origin);
            }
        }
    }
}

/// the lints a DocumentState reports for its current document, computed the way generate_diagnostics does
fn lints_like_state(st: &mut DocumentState) -> Vec<Lint> {
    let temp = st.linter.config.clone();
    st.linter.config.fill_with_curated();
    let mut lints = st.linter.lint(&st.document);
    st.linter.config = temp;
    st.ignored_lints.remove_ignored(&mut lints, &st.document);
    lints
}

/// a DocumentState as backend.rs:update_document constructs it (constructor + ..Default::default(): the
/// harness must keep building when a field is added)
fn new_state(dict: &Arc<FstDictionary>) -> DocumentState {
    let mut merged = MergedDictionary::new();
    merged.add_dictionary(dict.clone());
    let merged = Arc::new(merged);
    DocumentState {
        linter: LintGroup::new_curated(merged.clone(), Dialect::American),
        dict: merged.clone(),
        base_dict: merged,
        language_id: Some("plaintext".to_string()),
        ..Default::default()
    }
}

/// The code-action oracle for ONE lint `l` of the text `t` the client holds: code actions requested at the
/// positions inside [l.span) (all of them, or a sample for long spans; cursor and selection shapes) must
/// contain that lint's fixes with the range `want_range`; every returned edit, applied by the reference
/// client to `t`, must be what Suggestion::apply yields on the lint embedded next to it; and (`legit`)
/// every lint the answer speaks about must be a lint of `t`.  `situation` is appended to the messages.
#[allow(clippy::too_many_arguments)]
fn check_actions_for_lint(
    rep: &mut Report,
    st: &mut DocumentState,
    cfg: &CodeActionConfig,
    r: &mut Rng,
    t: &[char],
    rc: &RefClient,
    l: &Lint,
    want_range: Range,
    max_positions: usize,
    base: &Value,
    situation: &str,
    legit: &[Value],
) {
    let (a, b) = (l.span.start, l.span.end);
    let mut idxs: Vec<usize> = (a..b).collect();
    if idxs.len() > max_positions {
        let mut pick = vec![a, a + 1, b - 1, b - 2];
        pick.truncate(max_positions.max(2));
        while pick.len() < max_positions {
            pick.push(a + r.below(b - a));
        }
        pick.sort();
        pick.dedup();
        idxs = pick;
    }
    let want_lint = serde_json::to_value(l).unwrap();
    for i in idxs {
        if inside_crlf(t, i) {
            continue;
        }
        let p = rc.position_of_char(i);
        // an editor sends the cursor (empty range) or the selection; take both shapes
        let rg = if i % 3 == 2 { Range { start: p, end: want_range.end } } else { Range { start: p, end: p } };
        rep.eval();
        rep.count("code_action_requests");
        if known_class(t, rg.start.line) {
            rep.count("code_action_requests:on_final_line(line>=1)");
        }
        let acts = guarded(|| st.generate_code_actions(rg, cfg));
        let mut req = base.clone();
        req["at"] = json!([rg.start.line, rg.start.character, rg.end.line, rg.end.character]);
        let miss = |rep: &mut Report, why: String| {
            fail(rep, "code_action_missing", format!("code actions requested at {} inside the diagnostic \"{}\" ({}){situation}: {why}", fmt_range(&rg), l.message, fmt_range(&want_range)), req.clone());
        };
        let acts = match acts {
            Ok(a) => a,
            Err(m) => {
                miss(rep, format!("panic: {m} at {}", last_panic_location()));
                continue;
            }
        };
        // split the answer into one group per lint: its CodeActions, then the HarperIgnoreLint command
        let mut pending: Vec<(String, TextEdit)> = vec![];
        let mut found = false;
        for act in &acts {
            match act {
                CodeActionOrCommand::CodeAction(_) => pending.extend(edits_of(std::slice::from_ref(act))),
                CodeActionOrCommand::Command(c) if c.command == "HarperIgnoreLint" => {
                    let lj = c.arguments.as_ref().and_then(|a| a.get(1)).cloned().unwrap_or(Value::Null);
                    let group = std::mem::take(&mut pending);
                    let Ok(gl) = serde_json::from_value::<Lint>(lj.clone()) else {
                        fail(rep, "embedded_lint_unreadable", "the lint embedded in HarperIgnoreLint does not deserialise".into(), req.clone());
                        continue;
                    };
                    if !legit.contains(&lj) {
                        fail(rep, "code_action_not_a_lint", format!("code actions requested at {}{situation}: the answer offers fixes for the lint \"{}\" at {:?}, which is not a lint of the text the client holds", fmt_range(&rg), gl.message, gl.span), req.clone());
                    }
                    // every returned edit, applied by the client, is the suggestion applied to the span
                    if group.len() != gl.suggestions.len() {
                        fail(rep, "edit_count", format!("{} edits for {} suggestions", group.len(), gl.suggestions.len()), req.clone());
                    }
                    for ((title, e), s) in group.iter().zip(&gl.suggestions) {
                        let want = guarded(|| {
                            let mut v = t.to_vec();
                            s.apply(gl.span, &mut v);
                            v.iter().collect::<String>()
                        });
                        let got = rc.apply(e.range, &e.new_text);
                        rep.count(&format!("document_edit:{}", ["replace", "insert_after", "remove"][sug_parts(s).0]));
                        if *title != s.to_string() || !matches!((&want, &got), (Ok(w), Some(g)) if w == g) {
                            fail(rep, "edit_mismatch", format!("edit \"{title}\" at {}{situation}: client gets {got:?}, Suggestion::apply of {s} on {:?} gets {want:?}", fmt_range(&e.range), gl.span), req.clone());
                        }
                    }
                    if lj == want_lint {
                        found = true;
                        if group.iter().any(|(_, e)| e.range != want_range) {
                            fail(rep, "edit_range_not_diagnostic_range", format!("an edit of the lint does not carry the diagnostic's range{situation}"), req.clone());
                        }
                    }
                }
                _ => {}
            }
        }
        if !found {
            miss(rep, format!("the answer ({} entries) does not contain this lint's fixes", acts.len()));
        }
    }
}

/// diagnostics vs the lints they were made from: same number, same messages, every range read by the
/// reference client covers exactly the lint's characters.  Returns the (lint, range) pairs the code-action
/// oracle is to be run on (lints inside the text whose endpoints are not between CR and LF).
fn check_diagnostics(rep: &mut Report, t: &[char], rc: &RefClient, diags: &[lsx::tower_lsp::lsp_types::Diagnostic], lints: &[Lint], inp: &Value, situation: &str) -> Option<Vec<usize>> {
    if diags.len() != lints.len() || diags.iter().zip(lints).any(|(d, l)| d.message != l.message) {
        fail(rep, "diagnostics_not_lints", format!("{} diagnostics for {} lints, or messages differ{situation}", diags.len(), lints.len()), inp.clone());
        return None;
    }
    let nl_count = t.iter().filter(|c| **c == '\n').count();
    let mut usable = vec![];
    for (k, (d, l)) in diags.iter().zip(lints).enumerate() {
        let (a, b) = (l.span.start, l.span.end);
        if !(a <= b && b <= t.len()) {
            rep.count("lint:out_of_bounds(C03's business)");
            continue;
        }
        // hypothesis: no lint span endpoint between '\r' and '\n'
        if inside_crlf(t, a) || inside_crlf(t, b) {
            rep.monitor("violations:lint span endpoint between CR and LF", 1);
            fail(rep, "hyp_crlf_endpoint", format!("lint {:?} \"{}\" has an endpoint between CR and LF", l.span, l.message), inp.clone());
            continue;
        }
        rep.monitor("checked:lint span endpoints not between CR and LF", 1);
        let (x, y) = (rc.resolve(d.range.start), rc.resolve(d.range.end));
        if x != Some(a) || y != Some(b) {
            fail(rep, "range_wrong", format!("diagnostic \"{}\" for lint span [{a},{b}) has range {} which an LSP client reads as {:?}..{:?}{situation}", d.message, fmt_range(&d.range), x, y), inp.clone());
            continue;
        }
        let line_of_end = rc.position_of_char(b.saturating_sub(1).max(a)).line as usize;
        rep.count(if a == b {
            "lint:empty_span(no position inside)"
        } else if d.range.start.line == 0 {
            "lint:on_first_line"
        } else if line_of_end == nl_count {
            "lint:on_last_line"
        } else {
            "lint:on_middle_line"
        });
        if t[a..b].iter().any(|c| (*c as u32) >= 0x10000) || t[..a].iter().rev().take_while(|c| **c != '\n').any(|c| (*c as u32) >= 0x10000) {
            rep.count("lint:astral_before_or_inside_on_its_line");
        }
        usable.push(k);
    }
    Some(usable)
}

/// a real document through DocumentState: diagnostics, then code actions at every position inside
/// every diagnostic range
fn check_document(rep: &mut Report, cx: &mut Ctx, r: &mut Rng, fe: &str, text: &str, max_positions: usize) {
    rep.eval();
    let t: Vec<char> = text.chars().collect();
    let inp = json!({"kind": "document", "frontend": fe, "text": text});
    if has_lone_cr(&t) {
        rep.count("document:lone_CR(outside the property's domain, skipped)");
        return;
    }
    let dict = cx.dict.clone();
    let Ok(doc) = guarded(|| frontends::make_document(fe, text, &dict)) else {
        rep.count("document:front-end panicked(C01's business)");
        return;
    };
    cx.st.document = doc;
    let st = &mut cx.st;
    // the diagnostics and the lints they were made from, computed the way generate_diagnostics does
    let res = guarded(|| (st.generate_diagnostics(DiagnosticSeverity::Hint), lints_like_state(st)));
    let Ok((diags, lints)) = res else {
        rep.count("document:lint panicked(C01's business)");
        return;
    };
    rep.count(&format!("document:{}", fe.split(':').next().unwrap()));
    let rc = RefClient::new(text);
    let Some(usable) = check_diagnostics(rep, &t, &rc, &diags, &lints, &inp, "") else { return };
    if lints.is_empty() {
        return;
    }
    rep.nontrivial(&(3u8, fe.to_string(), text.to_string()));
    rep.count_n("lints", lints.len() as u64);
    let legit: Vec<Value> = lints.iter().map(|l| serde_json::to_value(l).unwrap()).collect();
    for k in usable {
        let cfg = cx.cfg.clone();
        check_actions_for_lint(rep, &mut cx.st, &cfg, r, &t, &rc, &lints[k], diags[k].range, max_positions, &inp, "", &legit);
    }
}

/// One step of a history: the text the document is replaced by, and when diagnostics are generated for it
/// relative to the code-action requests ("before": didChange completed before the request was served;
/// "after": the request was served between update_document and publish_diagnostics; "none": no
/// diagnostics at all for this text, the next update arrives first).
fn step_json(text: &str, diag: &str) -> Value {
    json!({"text": text, "diag": diag})
}

/// A history on ONE DocumentState, in the order the doc_state mutex of backend.rs can serialise handlers:
/// for every step the document is replaced (update_document), then code actions are requested at every
/// lint of the NEW text - the text the client holds - with generate_diagnostics before them, after them
/// or not at all.  The lints of the new text come from a fresh reference linter that shares nothing with
/// the DocumentState under test.  Whatever happened before, the answers must be the new text's fixes.
fn check_history(rep: &mut Report, cx: &mut Ctx, r: &mut Rng, fe: &str, steps: &[Value], max_positions: usize) {
    rep.eval();
    let inp = json!({"kind": "history", "frontend": fe, "steps": steps});
    if steps.iter().any(|s| has_lone_cr(&chars(s["text"].as_str().unwrap_or("")))) {
        rep.count("history:lone_CR(outside the property's domain, skipped)");
        return;
    }
    let dict = cx.dict.clone();
    let mut st = new_state(&dict);
    rep.count("history");
    let mut prev_text: Option<String> = None;
    let mut diag_text: Option<String> = None; // the text generate_diagnostics last ran on
    for (n, step) in steps.iter().enumerate() {
        let text = step["text"].as_str().unwrap_or("");
        let when = step["diag"].as_str().unwrap_or("before");
        let t: Vec<char> = chars(text);
        let rc = RefClient::new(text);
        // the reference: the lints of this text by a fresh linter on a fresh document
        let reference = guarded(|| {
            let doc = frontends::make_document(fe, text, &dict);
            let mut fresh = new_state(&dict);
            fresh.document = doc;
            lints_like_state(&mut fresh)
        });
        let Ok(ref_lints) = reference else {
            rep.count("history:front-end or lint panicked(C01's business)");
            return;
        };
        // update_document: the document is replaced, nothing else happens under the lock
        let Ok(doc) = guarded(|| frontends::make_document(fe, text, &dict)) else { return };
        st.document = doc;
        let stale = diag_text.is_some() && diag_text.as_deref() != Some(text);
        let situation = match (when, stale) {
            ("before", _) => format!(" [history step {n}: after generate_diagnostics on this text]"),
            (_, true) => format!(" [history step {n}: the document was replaced and generate_diagnostics has not run on the new text yet]"),
            (_, false) => format!(" [history step {n}: no generate_diagnostics since the document was set]"),
        };
        rep.count(&format!(
            "history_step:diag_{when}{}",
            if prev_text.as_deref() == Some(text) { ",same_text" } else if n == 0 { ",first" } else { ",text_changed" }
        ));
        let legit: Vec<Value> = ref_lints.iter().map(|l| serde_json::to_value(l).unwrap()).collect();
        let run_diag = |rep: &mut Report, st: &mut DocumentState, tag: &str| -> bool {
            let Ok(diags) = guarded(|| st.generate_diagnostics(DiagnosticSeverity::Hint)) else {
                rep.count("history:lint panicked(C01's business)");
                return false;
            };
            check_diagnostics(rep, &t, &rc, &diags, &ref_lints, &inp, &format!(" [history step {n}, diagnostics {tag} the code-action requests]")).is_some()
        };
        if when == "before" {
            if !run_diag(rep, &mut st, "before") {
                return;
            }
            diag_text = Some(text.to_string());
        }
        if !ref_lints.is_empty() {
            rep.nontrivial(&(4u8, fe.to_string(), text.to_string(), prev_text.clone(), when.to_string()));
        }
        for l in &ref_lints {
            let (a, b) = (l.span.start, l.span.end);
            if !(a < b && b <= t.len()) || inside_crlf(&t, a) || inside_crlf(&t, b) {
                continue;
            }
            rep.count(if when == "before" { "history_lint:diagnostics_current" } else if stale { "history_lint:diagnostics_stale" } else { "history_lint:no_diagnostics_yet" });
            let want_range = Range { start: rc.position_of_char(a), end: rc.position_of_char(b) };
            let cfg = cx.cfg.clone();
            check_actions_for_lint(rep, &mut st, &cfg, r, &t, &rc, l, want_range, max_positions, &inp, &situation, &legit);
        }
        if when == "after" {
            if !run_diag(rep, &mut st, "after") {
                return;
            }
            diag_text = Some(text.to_string());
        }
        prev_text = Some(text.to_string());
    }
}

/// the next text of a history: an edit of `cur` that moves, removes, adds or keeps lints
fn next_text(r: &mut Rng, fe: &str, cur: &str) -> String {
    let plainish = matches!(fe, "plain" | "markdown" | "markdown-ilt" | "gitcommit");
    match r.below(9) {
        0 if plainish => format!("Intro line here.\n{cur}"), // every lint moves down a line
        1 if plainish => format!("😀 teh {cur}"),             // columns of the first line move by 2+4 units, one more lint
        2 => match cur.find("teh") {
            Some(i) => format!("{}the{}", &cur[..i], &cur[i + 3..]), // a lint disappears, nothing moves
            None => format!("{cur}\nteh end"),
        },
        3 if plainish => format!("{cur}\nAnd an apple an problem"), // a new lint on a last line without newline
        4 => match cur.find('\n') {
            Some(i) if i + 1 < cur.len() => cur[i + 1..].to_string(), // the first line goes: every lint moves up
            _ => format!("{cur} recieve"),
        },
        5 => frontends::embed(fe, r), // an unrelated text
        6 => cur.to_string(),         // didChange with the same text
        7 => match cur.find("recieve") {
            Some(i) => format!("{}receive and 𝒜 recieve{}", &cur[..i], &cur[i + 7..]), // the lint moves right on its line
            None => cur.replacen(' ', "  ", 1),
        },
        _ => cur.replacen(". ", ".\n", 1), // a line break appears: lints behind it change line and column
    }
}

fn replay_input(rep: &mut Report, cx: &mut Ctx, r: &mut Rng, v: &Value) {
    let t: Vec<char> = v["text"].as_str().unwrap_or("").chars().collect();
    match v["kind"].as_str() {
        Some("document") => check_document(rep, cx, r, v["frontend"].as_str().unwrap_or("plain"), v["text"].as_str().unwrap_or(""), usize::MAX),
        Some("history") => {
            let steps: Vec<Value> = v["steps"].as_array().cloned().unwrap_or_default();
            check_history(rep, cx, r, v["frontend"].as_str().unwrap_or("plain"), &steps, usize::MAX)
        }
        kind => {
            // the exact case first (a long text is not swept exhaustively), then the whole text
            let rc = RefClient::new(v["text"].as_str().unwrap_or(""));
            let in_domain = !has_lone_cr(&t);
            let num = |x: &Value| x.as_u64().unwrap_or(0) as usize;
            if kind == Some("lookup") {
                let (p1, p2) = (pos(num(&v["p1"][0]), num(&v["p1"][1])), pos(num(&v["p2"][0]), num(&v["p2"][1])));
                check_lookup(rep, &t, &rc, p1, p2, in_domain, "replay");
            }
            if kind == Some("edit") {
                let doc = Document::new_from_vec(Lrc::new(t.clone()), &PlainEnglish, &cx.dict);
                let cs: Vec<char> = v["cs"].as_str().unwrap_or("").chars().collect();
                check_edit(rep, cx, &doc, &t, &rc, num(&v["sug"]), &cs, num(&v["a"]), num(&v["b"]), in_domain, "replay");
            }
            check_text(rep, cx, r, &t, "replay", t.len() <= 12)
        }
    }
}

const PIECES: &[&str] = &[
    "a", "b", "teh", " ", " ", "\t", "\n", "\n", "\n\n", "\r\n", "\r\n", "\r", "😀", "𝒜", "e\u{301}", "é", "漢", "\u{2028}", ".", "x y",
    "\u{10FFFF}", "\u{FFFF}", "\u{10000}", "\u{feff}",
];

fn random_text(r: &mut Rng, max_pieces: usize) -> Vec<char> {
    let n = r.below(max_pieces + 1);
    let mut s = String::new();
    for _ in 0..n {
        s.push_str(r.s(PIECES));
    }
    match r.below(6) {
        0 => s.push('\n'),
        1 => s.push_str("\r\n"),
        _ => {}
    }
    s.chars().collect()
}

pub fn run(a: &Args, corpus: &[Value]) {
    let mut rep = Report::new(&a.out);
    rep.rule = "texts: random concatenations of ASCII/tab/LF/CRLF/lone-CR/astral/combining/BMP-edge pieces (<= 12 pieces; all spans incl. out-of-text ones, the full position grid incl. non-existent lines and columns past the line end, all ordered pairs of valid positions on small texts, 1-3 suggestions per span through diagnostics::lint_to_code_actions); documents from every front-end through DocumentState with the curated LintGroup: every diagnostic range read by the reference client, code actions requested at every position inside every diagnostic range (sampled for spans longer than the bound), every returned TextEdit applied by the reference client. the UTF-16 width of single scalar values (every 251st + boundaries; thorough: all 1 112 063 except LF); the specification side (resolve_lsp / client_apply_lsp, lines ending at LF, CRLF or CR) against the reference client on every text incl. lone CR. thorough adds all texts of length <= 4 over {a, LF, astral, CR}. histories on one DocumentState: 2-5 texts derived from each other by edits that move / remove / add lints, the document replaced and code actions requested at every lint of the new text (lints by a fresh reference linter) with generate_diagnostics before, after or not at all. non-trivial = distinct (text, span) / (text, span, suggestion) / (text, range) / linted document / linted history step".into();
    let dict = FstDictionary::curated();
    let st = new_state(&dict);
    let mut cx = Ctx { dict, url: Url::parse("file:///doc.txt").unwrap(), cfg: CodeActionConfig::default(), st };
    let mut r = Rng::new(a.seed);
    for c in corpus {
        replay_input(&mut rep, &mut cx, &mut r, c);
    }
    if a.replay.is_some() {
        rep.finish();
        return;
    }
    // char::len_utf16 as used by span_to_range vs the model's len_utf16: the column behind a one-character
    // line, for scalar values across the whole range (thorough: every one of them)
    {
        let step = if a.thorough() { 1 } else { 251 };
        let mut cands: Vec<u32> = (0..=0x10FFFFu32).step_by(step).collect();
        cands.extend([0x7f, 0x80, 0x7ff, 0x800, 0xd7ff, 0xe000, 0xfffe, 0xffff, 0x10000, 0x10001, 0x1f600, 0x10ffff]);
        for c in cands {
            let Some(ch) = char::from_u32(c) else { continue };
            if ch == '\n' {
                continue;
            }
            let t = [ch];
            let rg = guarded(|| span_to_range(&t, Span { start: 0, end: 1 }));
            rep.eval();
            rep.count("utf16_width_sweep");
            match rg {
                Ok(rg) => {
                    rep.case(&format!("S 0 1 | {}", cps(&t)), &fmt_range(&rg));
                    let want = if c >= 0x10000 { 2 } else { 1 };
                    if rg.end != pos(0, want) || rg.start != pos(0, 0) {
                        fail(&mut rep, "utf16_width", format!("U+{c:04X} takes {want} UTF-16 code unit(s) but the range of the one-character text is {}", fmt_range(&rg)), text_input(&t, "utf16"));
                    }
                }
                Err(m) => fail(&mut rep, "span_to_range_panics", format!("span_to_range panicked on U+{c:04X}: {m}"), text_input(&t, "utf16")),
            }
        }
    }
    for _ in 0..a.scale(260, 4000) {
        let t = random_text(&mut r, 12);
        check_text(&mut rep, &cx, &mut r, &t, "random", false);
    }
    // prose with line structure (LF / CRLF, with and without trailing newline)
    for i in 0..a.scale(30, 300) {
        let mut d = gen::document(&mut r);
        if i % 3 == 1 {
            d = d.replace("\r\n", "\n").replace('\n', "\r\n");
        }
        let t: Vec<char> = d.chars().take(120).collect();
        check_text(&mut rep, &cx, &mut r, &t, "prose", false);
    }
    if a.thorough() {
        let sym = ['a', '\n', '😀', '\r'];
        let mut n = 0u64;
        for len in 0..=4usize {
            for code in 0..(4usize.pow(len as u32)) {
                let t: Vec<char> = (0..len).map(|i| sym[(code >> (2 * i)) & 3]).collect();
                check_text(&mut rep, &cx, &mut r, &t, "exhaustive", true);
                n += 1;
            }
        }
        rep.extra.insert("exhaustive_texts_len_le4_over_a_LF_astral_CR".into(), json!(n));
    }
    // documents
    let mut fes = frontends::base_frontends();
    fes.push("plain".into());
    fes.push("plain".into());
    fes.push("markdown".into());
    let per_fe = a.scale(5, 60);
    let max_positions = a.scale(6, 40);
    for fe in &fes {
        for i in 0..per_fe {
            let mut text = frontends::embed(fe, &mut r);
            // end the document in a flagged construct on the last line, with/without trailing newline
            match i % 5 {
                0 => text.push_str("\nteh 😀 recieve"),
                1 => text.push_str("\n𝒜𝒷 an apple an problem\n"),
                2 => text = text.replace("\r\n", "\n").replace('\n', "\r\n"),
                3 => text = format!("😀😀 teh\tteh {text}"),
                _ => {}
            }
            if text.chars().count() > 700 {
                continue;
            }
            if cx.st.linter.config != harper_core::linting::LintGroupConfig::default() {
                cx.st.linter.config = Default::default();
            }
            check_document(&mut rep, &mut cx, &mut r, fe, &text, max_positions);
        }
    }
    // histories on one DocumentState (update_document / generate_code_actions / generate_diagnostics in
    // every order the doc_state mutex admits)
    let hist_fes = ["plain", "plain", "markdown", "plain", "c:rust", "c:python", "lhaskell", "gitcommit", "html", "typst"];
    for h in 0..a.scale(40, 500) {
        let fe = hist_fes[h % hist_fes.len()];
        let mut cur = match h % 4 {
            0 => "This is teh first line.\nAnd teh second.".to_string(),
            1 => format!("{} teh 😀 recieve", frontends::embed(fe, &mut r)),
            _ => frontends::embed(fe, &mut r),
        };
        let mut steps = vec![step_json(&cur, "before")];
        for _ in 0..r.range(1, 4) {
            cur = next_text(&mut r, fe, &cur);
            steps.push(step_json(&cur, *r.pick(&["before", "after", "after", "none", "none"])));
        }
        if steps.iter().any(|s| s["text"].as_str().unwrap().chars().count() > 500) {
            continue;
        }
        check_history(&mut rep, &mut cx, &mut r, fe, &steps, a.scale(3, 12));
    }
    rep.finish();
}

fn main() {
    let (args, corpus) = hv::cli();
    run(&args, &corpus);
}
