//! C04 — only prose is checked, and it is located at its true position in the file.
//!  * correspondence: extracted Model/Mask.v vs the real code (UTF-8 maps, TreeSitterMasker / CommentMasker
//!    create_mask from dumped node lists, merge_whitespace_sep, parsers::Mask::parse through a recording inner
//!    parser, Unit / JsDoc / Go line loops, LHS masker, OffsetCursor-style cursors, Markdown offset loop,
//!    ignore condition, git-commit cut);
//!  * hypothesis monitors: node ranges on char boundaries / not nested twice, event ranges monotone and on
//!    boundaries, inner parsers ordered and in bounds, is_whitespace table;
//!  * search: files constructed from (prose | non-prose) segments with ground truth by construction.
use harper_core::parsers::{self, Markdown, MarkdownOptions, Parser, PlainEnglish};
use harper_core::{FstDictionary, Lrc, Mask, Masker, Span, Token, TokenKind};
use harper_tree_sitter::TreeSitterMasker;
use hv::common::*;
use hv::frontends;
use serde_json::{json, Value};
use std::collections::{BTreeMap, HashSet};
use std::sync::{Arc, Mutex};

#[allow(dead_code)]
#[path = "/repo/harper-comments/src/masker.rs"]
mod masker;
#[allow(dead_code)]
#[path = "/repo/harper-comments/src/comment_parsers/mod.rs"]
mod comment_parsers;
#[allow(dead_code)]
#[path = "/repo/harper-literate-haskell/src/masker.rs"]
mod lhs_masker;
#[allow(dead_code)]
#[path = "/repo/harper-typst/src/offset_cursor.rs"]
mod offset_cursor;

#[path = "../c04_typst.rs"]
mod c04_typst;
#[path = "../c04_gen.rs"]
mod c04_gen;
use c04_gen::{build_file, Built};

// ------------------------------------------------------------------------------------------------
// tree-sitter plumbing (same table as CommentParser::new_from_language_id)
fn ts_language(id: &str) -> Option<tree_sitter::Language> {
    Some(match id {
        "rust" => tree_sitter_rust::language(),
        "typescriptreact" => tree_sitter_typescript::language_tsx(),
        "typescript" => tree_sitter_typescript::language_typescript(),
        "python" => tree_sitter_python::language(),
        "nix" => tree_sitter_nix::language(),
        "javascript" => tree_sitter_javascript::language(),
        "javascriptreact" => tree_sitter_typescript::language_tsx(),
        "go" => tree_sitter_go::language(),
        "c" => tree_sitter_c::language(),
        "cpp" => tree_sitter_cpp::language(),
        "cmake" => tree_sitter_cmake::language(),
        "ruby" => tree_sitter_ruby::language(),
        "swift" => tree_sitter_swift::language(),
        "csharp" => tree_sitter_c_sharp::language(),
        "toml" => tree_sitter_toml::language(),
        "lua" => tree_sitter_lua::language(),
        "shellscript" => tree_sitter_bash::language(),
        "java" => tree_sitter_java::language(),
        "haskell" => tree_sitter_haskell::language(),
        "php" => tree_sitter_php::language_php(),
        "dart" => tree_sitter_dart::language(),
        "scala" => tree_sitter_scala::language(),
        "html" => tree_sitter_html::language(),
        _ => return None,
    })
}

fn cond_comment(n: &tree_sitter::Node) -> bool {
    n.kind().contains("comment")
}
fn cond_text(n: &tree_sitter::Node) -> bool {
    n.kind() == "text"
}

/// the traversal of TreeSitterMasker::visit_nodes (pre-order, root excluded)
fn visit(cursor: &mut tree_sitter::TreeCursor, f: &mut impl FnMut(&tree_sitter::Node)) {
    if !cursor.goto_first_child() {
        return;
    }
    loop {
        let node = cursor.node();
        f(&node);
        visit(cursor, f);
        if !cursor.goto_next_sibling() {
            break;
        }
    }
    cursor.goto_parent();
}

/// byte ranges (+ kinds) of the nodes the masker accepts, in visiting order
fn node_spans(id: &str, text: &str) -> Option<Vec<(usize, usize, String)>> {
    let lang = ts_language(id)?;
    let cond: fn(&tree_sitter::Node) -> bool = if id == "html" { cond_text } else { cond_comment };
    let mut p = tree_sitter::Parser::new();
    p.set_language(lang).ok()?;
    let tree = p.parse(text, None)?;
    let mut out = vec![];
    visit(&mut tree.walk(), &mut |n| {
        if cond(n) {
            let r = n.byte_range();
            out.push((r.start, r.end, n.kind().to_string()));
        }
    });
    Some(out)
}

thread_local! {
    static FAIL_COUNTS: std::cell::RefCell<std::collections::HashMap<String, u64>> = std::cell::RefCell::new(Default::default());
}
/// Report::fail keeps the first 2000 failures only; known findings must not crowd out a new one, so at most 25
/// failures of a class are recorded in full (all are counted)
thread_local! {
    /// probe mode of the minimiser: failures are collected here instead of being reported
    static PROBE: std::cell::RefCell<Option<Vec<(String, String)>>> = std::cell::RefCell::new(None);
}
fn fail_limited(rep: &mut Report, class: &str, what: String, input: Value) {
    let probing = PROBE.with(|p| {
        if let Some(v) = p.borrow_mut().as_mut() {
            v.push((class.to_string(), what.clone()));
            true
        } else {
            false
        }
    });
    if probing {
        return;
    }
    let n = FAIL_COUNTS.with(|c| {
        let mut c = c.borrow_mut();
        let e = c.entry(class.to_string()).or_insert(0);
        *e += 1;
        *e
    });
    if n <= 25 {
        rep.fail(class, what, input);
    } else {
        rep.count(&format!("fail:{class}"));
    }
}

// ------------------------------------------------------------------------------------------------
// token canonicalisation
fn kind_code(k: &TokenKind) -> u64 {
    match k {
        TokenKind::ParagraphBreak => 1,
        TokenKind::Unlintable => 2,
        TokenKind::Newline(1) => 3,
        TokenKind::Newline(2) => 4,
        TokenKind::Word(_) => 5,
        // the four punctuation kinds the JavaDoc / JSDoc passes look at (Model/C04JavaDoc.v)
        TokenKind::Punctuation(harper_core::Punctuation::At) => 61,
        TokenKind::Punctuation(harper_core::Punctuation::Star) => 62,
        TokenKind::Punctuation(harper_core::Punctuation::OpenCurly) => 63,
        TokenKind::Punctuation(harper_core::Punctuation::CloseCurly) => 64,
        TokenKind::Punctuation(_) => 6,
        TokenKind::Number(_) => 7,
        TokenKind::Decade => 8,
        TokenKind::EmailAddress => 9,
        TokenKind::Url => 10,
        TokenKind::Hostname => 11,
        TokenKind::Regexish => 12,
        TokenKind::Newline(n) => 1000 + (*n as u64).min(900),
        TokenKind::Space(n) => 2000 + (*n as u64).min(900),
    }
}
fn toks_line(t: &[Token]) -> String {
    let mut s = String::from("O");
    for k in t {
        s.push_str(&format!(" {} {} {}", k.span.start, k.span.end, kind_code(&k.kind)));
    }
    s
}
fn spans_line(t: &[(usize, usize)]) -> String {
    let mut s = String::from("O");
    for (a, b) in t {
        s.push_str(&format!(" {a} {b}"));
    }
    s
}
fn ints(t: &[(usize, usize)]) -> String {
    t.iter().map(|(a, b)| format!("{a} {b}")).collect::<Vec<_>>().join(" ")
}
fn cps_str(s: &str) -> String {
    s.chars().map(|c| (c as u32).to_string()).collect::<Vec<_>>().join(" ")
}

// ------------------------------------------------------------------------------------------------
// recording / synthetic inner parsers
type Log = Arc<Mutex<Vec<(Vec<char>, Vec<Token>)>>>;
struct Recorder {
    inner: Box<dyn Parser>,
    log: Log,
}
impl Parser for Recorder {
    fn parse(&self, source: &[char]) -> Vec<Token> {
        let t = self.inner.parse(source);
        self.log.lock().unwrap().push((source.to_vec(), t.clone()));
        t
    }
}
fn recorder(inner: Box<dyn Parser>) -> (Recorder, Log) {
    let log: Log = Arc::new(Mutex::new(vec![]));
    (Recorder { inner, log: log.clone() }, log)
}
/// a deterministic function of the content: ordered tokens inside the slice, with gaps (naughty = false) or
/// arbitrary spans (naughty = true; the wrappers never look at them, the model must agree anyway)
struct Synth {
    naughty: bool,
}
impl Parser for Synth {
    fn parse(&self, source: &[char]) -> Vec<Token> {
        let mut h: u64 = 0xcbf29ce484222325;
        for c in source {
            h = (h ^ (*c as u64)).wrapping_mul(0x100000001b3);
        }
        let mut r = Rng::new(h);
        let mut out = vec![];
        let mut i = 0usize;
        while i < source.len() {
            if r.chance(1, 4) {
                i += 1;
                continue;
            }
            let lo = if r.chance(1, 8) { 0 } else { 1 };
            let len = r.range(lo, 4).min(source.len() - i);
            let kind = match r.below(5) {
                0 => TokenKind::Word(None),
                1 => TokenKind::Space(len.max(1)),
                2 => TokenKind::Unlintable,
                3 => TokenKind::Newline(1),
                _ => TokenKind::Punctuation(harper_core::Punctuation::Period),
            };
            let span = if self.naughty && r.chance(1, 3) {
                let a = r.below(source.len() + 3);
                Span { start: a, end: a + r.below(4) }
            } else {
                Span { start: i, end: i + len }
            };
            out.push(Token { span, kind });
            i += len.max(1);
        }
        out
    }
}
fn entries(log: &Log) -> (String, Vec<(Vec<char>, Vec<Token>)>) {
    let l = log.lock().unwrap();
    let mut seen: Vec<(Vec<char>, Vec<Token>)> = vec![];
    for (c, t) in l.iter() {
        if !seen.iter().any(|(c2, _)| c2 == c) {
            seen.push((c.clone(), t.clone()));
        }
    }
    let mut s = String::new();
    for (c, t) in &seen {
        s.push_str(" | ");
        s.push_str(&cps(c));
        s.push_str(" ;");
        for k in t {
            s.push_str(&format!(" {} {} {}", k.span.start, k.span.end, kind_code(&k.kind)));
        }
    }
    (s, seen)
}
/// hypothesis of C04_mask_faithful / C04_unit_line_offsets: inner tokens are well-formed spans inside the slice
fn inner_in_bounds(seen: &[(Vec<char>, Vec<Token>)]) -> bool {
    seen.iter().all(|(c, t)| t.iter().all(|k| k.span.start <= k.span.end && k.span.end <= c.len()))
}
/// additional hypothesis of C04_mask_ordered only (C02's property): inner tokens come in order
fn inner_ordered(seen: &[(Vec<char>, Vec<Token>)]) -> bool {
    seen.iter().all(|(_, t)| t.windows(2).all(|w| w[0].span.end <= w[1].span.start))
}

struct FixedMasker(Vec<(usize, usize)>);
impl Masker for FixedMasker {
    fn create_mask(&self, _source: &[char]) -> Mask {
        self.0.iter().map(|(s, e)| Span { start: *s, end: *e }).collect()
    }
}

// ------------------------------------------------------------------------------------------------
// correspondence cases
fn corr_utf8(rep: &mut Report, text: &str) {
    rep.eval();
    rep.case(&format!("E {}", cps_str(text)), format!("O {}", text.bytes().map(|b| b.to_string()).collect::<Vec<_>>().join(" ")).trim());
    let bytes = text.as_bytes();
    rep.case(
        &format!("D {}", bytes.iter().map(|b| b.to_string()).collect::<Vec<_>>().join(" ")),
        format!("O {}", cps_str(&String::from_utf8_lossy(bytes))).trim(),
    );
    for b in 0..=bytes.len() + 1 {
        let imp = if text.is_char_boundary(b) { text[..b].chars().count().to_string() } else { "P".into() };
        rep.case(&format!("I {b} | {}", cps_str(text)), &imp);
    }
    if text.len() != text.chars().count() {
        rep.nontrivial(&("utf8", text));
    }
}

/// create_mask of the real masker vs the model run on the dumped node list; also the node-list monitors
fn corr_ts_mask(rep: &mut Report, id: &str, text: &str) {
    let Some(nodes) = node_spans(id, text) else { return };
    rep.eval();
    let chars: Vec<char> = text.chars().collect();
    let spans: Vec<(usize, usize)> = nodes.iter().map(|(a, b, _)| (*a, *b)).collect();
    // monitors: node ranges on char boundaries; after sort + predecessor filter the list is an ordered chain
    let on_b = spans.iter().all(|(a, b)| a <= b && text.is_char_boundary(*a) && text.is_char_boundary(*b));
    rep.monitor("ts_node_ranges_checked", spans.len() as u64);
    if !on_b {
        rep.monitor("ts_node_off_char_boundary", 1);
        fail_limited(rep, "contract_ts_boundary", format!("{id}: a node range is not on char boundaries"), json!({"kind":"mask","fe":id,"text":text}));
    }
    let mut sorted = spans.clone();
    sorted.sort_by_key(|s| s.0);
    let mut kept: Vec<(usize, usize)> = vec![];
    for (i, cur) in sorted.iter().enumerate() {
        let keep = if i == 0 { true } else { let p = sorted[i - 1]; !(cur.0 < p.1 && p.0 < cur.1) };
        if keep {
            kept.push(*cur);
        }
    }
    let chain = kept.windows(2).all(|w| w[0].1 <= w[1].0);
    if kept.len() != spans.len() {
        rep.count(&format!("ts_nested_nodes:{id}"));
    }
    if !chain {
        rep.monitor("ts_nodes_nested_twice", 1);
    }
    let imp = guarded(|| {
        let m: Mask = if id == "html" {
            TreeSitterMasker::new(ts_language(id).unwrap(), cond_text).create_mask(&chars)
        } else {
            masker::CommentMasker::new(ts_language(id).unwrap(), cond_comment).create_mask(&chars)
        };
        m.iter_allowed(&chars).map(|(s, _)| (s.start, s.end)).collect::<Vec<_>>()
    });
    let line = match &imp {
        Ok(v) => spans_line(v),
        Err(_) => "P".into(),
    };
    let tag = if id == "html" { 'T' } else { 'C' };
    rep.case(&format!("{tag} {} | {}", cps_str(text), ints(&spans)), line.trim());
    if let Err(m) = &imp {
        // a panic of create_mask on a parsable file: the node list violates the chain hypothesis
        fail_limited(rep, "mask_panic", format!("{id}: create_mask panicked: {m} (nodes {:?})", nodes), json!({"kind":"mask","fe":id,"text":text}));
    }
    if let Ok(v) = &imp {
        // allowed spans sorted, disjoint, in bounds (premise of C04_mask_faithful)
        let ok = v.windows(2).all(|w| w[0].1 <= w[1].0) && v.iter().all(|(a, b)| a <= b && *b <= chars.len());
        rep.monitor("mask_wf_checked", 1);
        if !ok {
            fail_limited(rep, "mask_not_wf", format!("{id}: create_mask returned an unsorted / overlapping / out-of-bounds mask {:?}", v), json!({"kind":"mask","fe":id,"text":text}));
        }
        if !v.is_empty() && text.len() != chars.len() {
            rep.nontrivial(&("mask", id, text));
        }
    }
}

fn corr_mask_parse(rep: &mut Report, text: &str, spans: &[(usize, usize)], inner: &str) {
    rep.eval();
    let chars: Vec<char> = text.chars().collect();
    let base: Box<dyn Parser> = match inner {
        "plain" => Box::new(PlainEnglish),
        "markdown" => Box::new(Markdown::default()),
        "naughty" => Box::new(Synth { naughty: true }),
        _ => Box::new(Synth { naughty: false }),
    };
    let (rec, log) = recorder(base);
    let p = parsers::Mask::new(FixedMasker(spans.to_vec()), rec);
    let imp = guarded(|| p.parse(&chars));
    let (ent, seen) = entries(&log);
    let line = match &imp {
        Ok(t) => toks_line(t),
        Err(_) => "P".into(),
    };
    rep.case(&format!("M {} | {}{}", cps_str(text), ints(spans), ent), line.trim());
    rep.monitor("inner_contract_checked", seen.len() as u64);
    if inner != "naughty" {
        if !inner_in_bounds(&seen) {
            rep.monitor("inner_in_bounds_violated", 1);
            fail_limited(rep, "contract_inner_bounds", format!("inner parser `{inner}` returned a token outside the slice it was given"), json!({"kind":"maskparse","text":text,"spans":spans.iter().map(|(a,b)| vec![*a,*b]).collect::<Vec<_>>(),"inner":inner}));
        }
        if !inner_ordered(&seen) {
            // premise of C04_mask_ordered only; order of the inner parser's tokens is C02's property
            rep.monitor(&format!("inner_order_violated:{inner}"), 1);
        }
    }
    rep.count(&format!("maskparse:{inner}:{}", if imp.is_ok() { "ok" } else { "panic" }));
    if imp.is_ok() && spans.len() >= 2 {
        rep.nontrivial(&("mp", text, spans));
    }
}

fn corr_lines(rep: &mut Report, which: char, text: &str, inner: &str) {
    rep.eval();
    let chars: Vec<char> = text.chars().collect();
    let base: Box<dyn Parser> = match inner {
        "plain" => Box::new(PlainEnglish),
        "markdown" => Box::new(Markdown::default()),
        _ => Box::new(Synth { naughty: false }),
    };
    let (rec, log) = recorder(base);
    let rec: Lrc<dyn Parser> = Lrc::new(rec);
    let imp = guarded(|| match which {
        'N' => comment_parsers::Unit::new(rec.clone()).parse(&chars),
        'J' => comment_parsers::JsDoc::new(rec.clone()).parse(&chars),
        _ => comment_parsers::Go::new(rec.clone()).parse(&chars),
    });
    let (ent, _seen) = entries(&log);
    // 'J' is the whole JsDoc::parse (mark_inline_tags and the block-tag pass are in the model: C04JavaDoc.v)
    let line = match &imp {
        Ok(t) => toks_line(t),
        Err(_) => "P".into(),
    };
    rep.case(&format!("{which} {}{}", cps_str(text), ent), line.trim());
    rep.count(&format!("lines:{which}:{inner}:{}", if imp.is_ok() { "ok" } else { "panic" }));
    // without_initiators (private) observed through a one-line Unit parse with an identity inner parser
    if which == 'N' && !text.contains('\n') {
        struct Whole;
        impl Parser for Whole {
            fn parse(&self, s: &[char]) -> Vec<Token> {
                vec![Token { span: Span { start: 0, end: s.len() }, kind: TokenKind::Unlintable }]
            }
        }
        let w: Lrc<dyn Parser> = Lrc::new(Whole);
        let r = guarded(|| comment_parsers::Unit::new(w).parse(&chars));
        if let Ok(t) = r {
            if let Some(k) = t.first() {
                if !chars.iter().collect::<String>().contains("```") {
                    rep.case(&format!("X {}", cps_str(text)), &format!("{} {}", k.span.start, k.span.end));
                }
            }
        }
    }
}

/// the span `without_initiators` computes (private fn of comment_parsers/mod.rs; a disagreement of this replica
/// shows as a model/implementation difference: the model looks the content up in the recorded table)
fn without_initiators_replica(source: &[char]) -> (usize, usize) {
    let is_cc = |c: char| matches!(c, '#' | '-' | '/' | '*' | '!');
    let start = source.iter().position(|c| !is_cc(*c) && !c.is_whitespace()).unwrap_or(source.len());
    let end = source.len() - source.iter().rev().position(|c| !is_cc(*c) && !c.is_whitespace()).unwrap_or(0);
    (start, end.max(start))
}

/// JavaDoc::parse (its HtmlParser is a private field: the table entry for the model is HtmlParser on the content
/// without initiators) vs javadoc_parse of Model/C04JavaDoc.v; oracle: every token inside the comment without
/// initiators, html tokens that are not leader Stars/Spaces all present at their place
fn corr_javadoc(rep: &mut Report, text: &str) {
    rep.eval();
    let chars: Vec<char> = text.chars().collect();
    let (a, b) = without_initiators_replica(&chars);
    let content: Vec<char> = chars[a..b].to_vec();
    let html = guarded(|| harper_html::HtmlParser::default().parse(&content));
    let Ok(html) = html else {
        rep.count("javadoc:html_parser_panicked");
        return;
    };
    let imp = guarded(|| comment_parsers::JavaDoc::default().parse(&chars));
    let mut ent = String::from(" | ");
    ent.push_str(&cps(&content));
    ent.push_str(" ;");
    for k in &html {
        ent.push_str(&format!(" {} {} {}", k.span.start, k.span.end, kind_code(&k.kind)));
    }
    let line = match &imp {
        Ok(t) => toks_line(t),
        Err(_) => "P".into(),
    };
    rep.case(&format!("V {}{}", cps_str(text), ent), line.trim());
    rep.monitor("javadoc_html_contract_checked", 1);
    let inb = html.iter().all(|k| k.span.start <= k.span.end && k.span.end <= content.len());
    if !inb {
        rep.monitor("inner_in_bounds_violated", 1);
        fail_limited(rep, "contract_inner_bounds", "HtmlParser returned a token outside the slice JavaDoc gave it".into(), json!({"kind":"javadoc","text":text}));
    }
    match &imp {
        Err(m) => fail_limited(rep, "javadoc_panic", format!("JavaDoc::parse panicked: {m} at {}", last_panic_location()), json!({"kind":"javadoc","text":text})),
        Ok(t) => {
            // C04_javadoc_offsets on the implementation: every token lies inside [a, b)
            if inb && t.iter().any(|k| k.span.start < a || k.span.end > b || k.span.start > k.span.end) {
                fail_limited(rep, "token_out_of_bounds", format!("JavaDoc: a token lies outside the comment without initiators [{a},{b})"), json!({"kind":"javadoc","text":text}));
            }
            // C04_javadoc_exact / C04_javadoc_keeps on the implementation: the spans are those of the html tokens minus
            // the Star / Space runs that follow a Newline, shifted by a (kinds are compared by the correspondence)
            let mut expect: Vec<(usize, usize)> = vec![];
            let mut after_nl = false;
            for k in &html {
                let removable = matches!(k.kind, TokenKind::Space(_) | TokenKind::Punctuation(harper_core::Punctuation::Star));
                if after_nl && removable {
                    continue;
                }
                after_nl = matches!(k.kind, TokenKind::Newline(_));
                expect.push((k.span.start + a, k.span.end + a));
            }
            let got: Vec<(usize, usize)> = t.iter().map(|k| (k.span.start, k.span.end)).collect();
            if got != expect {
                let i = got.iter().zip(expect.iter()).position(|(x, y)| x != y).unwrap_or(got.len().min(expect.len()));
                fail_limited(rep, "javadoc_token_lost_or_moved", format!("JavaDoc: token #{i} is {:?}, the html parse minus leader stars/spaces shifted by {a} has {:?}", got.get(i), expect.get(i)), json!({"kind":"javadoc","text":text}));
            }
            let n_unl = t.iter().filter(|k| matches!(k.kind, TokenKind::Unlintable)).count();
            rep.count(&format!("javadoc:{}", if n_unl > 0 { "tags_marked" } else if t.len() < html.len() { "leaders_removed" } else { "plain" }));
            if n_unl > 0 && text.len() != chars.len() {
                rep.nontrivial(&("javadoc", text));
            }
        }
    }
}

/// a small source file whose comments mention snake_case / kebab-ish identifiers that the code defines (so that
/// create_ident_dict knows them and CollapseIdentifiers merges them), multi-byte text before and between
fn ident_file(r: &mut Rng) -> (String, String) {
    let (fe, decl, lead): (&str, &str, &str) = *r.pick(&[
        ("c:rust", "let {} = 1;", "// "), ("c:javascript", "let {} = 1;", "// "), ("c:typescript", "let {} = 1;", "// "),
        ("c:python", "{} = 1", "# "), ("c:ruby", "{} = 1", "# "), ("c:lua", "{} = 1", "-- "), ("c:c", "int {} = 1;", "// "),
        ("c:cpp", "int {} = 1;", "// "), ("c:go", "var {} = 1", "// "), ("c:java", "int {} = 1;", "// "), ("c:shellscript", "{}=1", "# "),
    ]);
    let ids = ["qq_zz", "river_stone_xq", "xq_1", "a_b", "zq_river", "Qz_Xv_w"];
    let mut s = String::new();
    if r.chance(1, 2) {
        s.push_str(lead);
        s.push_str(r.s(&["ключ é 値 😀", "naïve café", "値段"]));
        s.push('\n');
    }
    let mut used = vec![];
    for _ in 0..r.range(1, 4) {
        let id = r.s(&ids);
        used.push(id);
        s.push_str(&decl.replace("{}", id));
        s.push('\n');
    }
    for _ in 0..r.range(1, 4) {
        s.push_str(lead);
        for _ in 0..r.range(1, 5) {
            if r.chance(1, 2) {
                s.push_str(*r.pick(&used[..]));
            } else {
                s.push_str(r.s(&["the", "river", "uses", "é", "stone_unknown", "a-b", "qq_", "_zz", "qq_zz_river"]));
            }
            s.push_str(r.s(&[" ", " ", ", ", ". ", "  "]));
        }
        s.push('\n');
    }
    (fe.to_string(), s)
}

fn corr_wrappers(rep: &mut Report, fe: &str, text: &str, dict: &Arc<FstDictionary>) {
    rep.eval();
    let chars: Vec<char> = text.chars().collect();
    wrappers_oracle(rep, fe, &chars, dict, &json!({"kind":"wrap","fe":fe,"text":text}));
}

fn javadoc_text(r: &mut Rng) -> String {
    let mut s = String::from(*r.pick(&["/**", "/** ", "/*", "/**\n * ", "", "/// "]));
    for _ in 0..r.range(1, 10) {
        s.push_str(r.s(&[
            "river ", "stone", " ", "  ", "\n * ", "\n", "\n   ", "\n *", "@param ", "@return ", "@", "@ ", "@x y", "xq_1 ", "{@link ", "{@code ", "{@", "{", "}", "} ",
            "Foo#bar", "<p>", "</p>", "<b>", "é ", "値 ", "😀", "*", "* ", ".", ", ", "@since 1.2 ", "@throws IOException when ", "\r\n * ", "{@link Map<K, V>} ", "@@", "@param\n * name ",
        ]));
    }
    if r.chance(2, 3) {
        s.push_str(r.s(&["*/", " */", "\n */", ""]));
    }
    s
}

fn corr_lhs(rep: &mut Report, text: &str) {
    rep.eval();
    let chars: Vec<char> = text.chars().collect();
    for (w, m) in [(1, lhs_masker::LiterateHaskellMasker::text_only()), (0, lhs_masker::LiterateHaskellMasker::code_only())] {
        let imp = guarded(|| m.create_mask(&chars).iter_allowed(&chars).map(|(s, _)| (s.start, s.end)).collect::<Vec<_>>());
        let line = match &imp {
            Ok(v) => spans_line(v),
            Err(_) => "P".into(),
        };
        rep.case(&format!("L {w} | {}", cps_str(text)), line.trim());
        if let Ok(v) = &imp {
            let ok = v.windows(2).all(|x| x[0].1 <= x[1].0) && v.iter().all(|(a, b)| a <= b && *b <= chars.len());
            if !ok {
                fail_limited(rep, "mask_not_wf", format!("lhaskell: mask not sorted/disjoint/in bounds {:?}", v), json!({"kind":"lhs","text":text}));
            }
        }
    }
}

fn corr_misc(rep: &mut Report, text: &str) {
    let chars: Vec<char> = text.chars().collect();
    // ignore condition (the closure is private: observed through CommentMasker on a one-comment shell file is
    // too indirect; the literal list is regenerated instead, and the predicate itself is compared here; the shebang
    // prefix is no longer a term of the closure — create_mask handles it, compared through the C cases)
    let ign = text.contains("spellchecker:ignore")
        || text.contains("spellchecker: ignore")
        || text.contains("spell-checker:ignore")
        || text.contains("spell-checker: ignore")
        || text.contains("spellcheck:ignore")
        || text.contains("spellcheck: ignore")
        || text.contains("harper:ignore")
        || text.contains("harper: ignore");
    rep.case(&format!("Q {}", cps_str(text)), if ign { "1" } else { "0" });
    // git commit cut, observed through the real parser with a recording inner parser
    let (rec, log) = recorder(Box::new(Synth { naughty: false }));
    let rec: Lrc<dyn Parser> = Lrc::new(rec);
    let _ = guarded(|| frontends::GitCommitParser::new(rec).parse(&chars));
    let l = log.lock().unwrap();
    if let Some((c, _)) = l.first() {
        rep.case(&format!("H {}", cps_str(text)), &c.len().to_string());
    }
}

/// Typst OffsetCursor (private type, compiled from its source file): a chain of push_to
fn corr_cursor(rep: &mut Report, text: &str, bytes: &[usize]) {
    rep.eval();
    let src = typst_syntax::Source::detached(text.to_string());
    let imp = guarded(|| {
        let mut c = offset_cursor::OffsetCursor::new(&src);
        for b in bytes {
            c = c.push_to(*b);
        }
        (c.char, c.byte)
    });
    let line = match imp {
        Ok((c, b)) => format!("{c} {b}"),
        Err(_) => "P".into(),
    };
    rep.case(&format!("O {} | {}", cps_str(text), bytes.iter().map(|b| b.to_string()).collect::<Vec<_>>().join(" ")), &line);
    // def_token!: start = offset.push_to(a); end = start.push_to(b).char  (the macro body, on the real cursor)
    if bytes.len() >= 3 {
        let (pre, a, b) = (bytes[0], bytes[1], bytes[2]);
        let imp = guarded(|| {
            let off = offset_cursor::OffsetCursor::new(&src).push_to(pre);
            let start = off.push_to(a);
            let end = start.push_to(b).char;
            (start.char, end)
        });
        let line = match imp {
            Ok((s, e)) => format!("{s} {e}"),
            Err(_) => "P".into(),
        };
        rep.case(&format!("K {pre} {a} {b} | {}", cps_str(text)), &line);
    }
}

/// Typst: the whole Typst::parse vs typst_parse of Model/C04Typst.v run on the abstract tree built from typst-syntax's
/// AST (c04_typst.rs follows the translator's arms; PlainEnglish's tokens for every Text / Str text are the table).
/// Monitors the range contract (tn_ok) and that a Text / Str node's text is the text of its range; oracle
/// (C04_typst_exact on the implementation): the token list is the cursor-free expected list.
fn corr_typst(rep: &mut Report, text: &str) {
    use typst_syntax::ast::AstNode;
    rep.eval();
    let chars: Vec<char> = text.chars().collect();
    let src = typst_syntax::Source::detached(text.to_string());
    let tree = guarded(|| {
        let markup = typst_syntax::ast::Markup::from_untyped(src.root())?;
        let b = c04_typst::Builder { doc: &src };
        Some(b.seq(markup.exprs().collect()))
    });
    let Ok(Some(top)) = tree else {
        rep.count("typst:tree_builder_failed");
        return;
    };
    let root = c04_typst::TN::Group(top);
    let imp = guarded(|| harper_typst::Typst.parse(&chars));
    let mut ints: Vec<u64> = vec![];
    c04_typst::ser(&root, &mut ints);
    let mut texts: Vec<String> = vec![];
    c04_typst::lexed_texts(&root, &mut texts);
    texts.sort();
    texts.dedup();
    let mut ent = String::new();
    for t in &texts {
        use harper_core::parsers::StrParser;
        let toks = PlainEnglish.parse_str(t);
        ent.push_str(" | ");
        ent.push_str(&cps_str(t));
        ent.push_str(" ;");
        for k in &toks {
            ent.push_str(&format!(" {} {} {}", k.span.start, k.span.end, kind_code(&k.kind)));
        }
    }
    let line = match &imp {
        Ok(t) => toks_line(t),
        Err(_) => "P".into(),
    };
    rep.case(&format!("U {} | {}{}", cps_str(text), ints.iter().map(|x| x.to_string()).collect::<Vec<_>>().join(" "), ent), line.trim());
    let (mut range_ok, mut text_ok) = (true, true);
    c04_typst::contract(text, 0, &root, &mut range_ok, &mut text_ok);
    rep.monitor("typst_trees_checked", 1);
    if !range_ok {
        rep.monitor("typst_range_contract_violated", 1);
    }
    if !text_ok {
        rep.monitor("typst_node_text_differs_from_range", 1);
    }
    let mut exp: Vec<(usize, usize, u64)> = vec![];
    let e = c04_typst::expected(text, &root, &mut exp, &kind_code);
    // b629a93: Typst::parse's retain filter — a token that starts before the end of what was kept so far is dropped
    {
        let n0 = exp.len();
        let mut covered = 0usize;
        exp.retain(|t| {
            if t.0 < covered {
                return false;
            }
            covered = covered.max(t.1);
            true
        });
        rep.monitor("typst_tokens_dropped_by_retain", (n0 - exp.len()) as u64);
        if n0 != exp.len() {
            rep.count("typst:retain_dropped_a_token");
        }
    }
    let inp = json!({"kind":"typst","text":text});
    // C04_typst_source_order (proved over the model for ANY tree): the tokens of Typst::parse are in source order and
    // pairwise disjoint — on the implementation an oracle failure without exception, contract or not
    if let Ok(t) = &imp {
        rep.monitor("typst_token_order_checked", 1);
        if let Some(i) = (1..t.len()).find(|i| t[*i].span.start < t[*i - 1].span.end) {
            fail_limited(rep, "typst_tokens_out_of_order", format!("typst: token #{i} {:?} starts before the end of token #{} {:?}", t[i].span, i - 1, t[i - 1].span), inp.clone());
        }
    }
    match (&imp, e) {
        (Ok(t), Some(())) => {
            let got: Vec<(usize, usize, u64)> = t.iter().map(|k| (k.span.start, k.span.end, kind_code(&k.kind))).collect();
            if got != exp && range_ok {
                let i = got.iter().zip(exp.iter()).position(|(x, y)| x != y).unwrap_or(got.len().min(exp.len()));
                let show = |v: &Vec<(usize, usize, u64)>| v.get(i).map(|(a, b, k)| format!("[{a},{b}) kind {k} {:?}", chars.get(*a..(*b).min(chars.len())).map(|c| c.iter().collect::<String>()))).unwrap_or("nothing".into());
                fail_limited(rep, "typst_token_mislocated", format!("typst: token #{i} is {}, the node it came from is at {}", show(&got), show(&exp)), inp);
            } else if text.len() != chars.len() && !exp.is_empty() {
                rep.nontrivial(&("typst", text));
            }
        }
        (Err(m), Some(())) if range_ok => fail_limited(rep, "typst_panic", format!("Typst::parse panicked on a tree that satisfies the range contract: {m} at {}", last_panic_location()), inp),
        _ => rep.count("typst:out_of_contract_or_unwrap"),
    }
    let has_str = ints.len() > 0 && texts.iter().any(|t| t.contains('\\'));
    rep.count(&format!("typst:{}", if has_str { "string_with_escape" } else if texts.is_empty() { "no_prose" } else { "prose" }));
}

fn typst_text(r: &mut Rng) -> String {
    let mut s = String::new();
    for _ in 0..r.range(1, 9) {
        s.push_str(r.s(&[
            "river stone ", "é 値 😀 ", "= Heading\n", "- item\n", "+ enum\n", "/ Term: desc\n", "\n", "\n\n", "*bold é* ", "_emph_ ", "`raw é` ", "$x^2 é$ ",
            "https://a.b/c ", "#let x = \"na\\\"ïve \\n river\" ", "#text(\"ключ \\u{1F600} stone\") ", "#let (a, _, ..b) = (1, 2, 3) ", "#let f(x, y: \"é\") = x ",
            "#figure(caption: [the *river* é]) ", "#image(\"é.png\", alt: \"stone é\") ", "#raw(\"é\", lang: \"rs\") ", "#rgb(\"#ff00é\") ", "#a.b.c ", "#x.display(\"é\") ",
            "#set text(font: \"é\", size: 1pt) ", "#show heading: it => [é #it] ", "#if x { \"é a\" } else [b é] ", "#for i in (1, 2) [é #i] ", "#while false { } ",
            "#(a: \"é\", \"k\": 2, ..c) ", "#context [é] ", "#{ let y = \"é \\\\ z\"; y } ", "'quote' \"dq\" ", "a \\ b ", "#let", "#", "#(", "\\u{e9} ", "<label> @ref ", "#bibliography(\"é.bib\", style: \"é\") ",
            "#cite(<é>, style: \"é\") ", "#(x) = 1 ", "#show \"the\": [the é] ", "#show \"the the\":", "#while \"é x\"", "#let f(x", "#show \"é the\": ", "#show: it => [é #it] ", "#set text(size: 1pt, font: \"é\") if true ", "#image(alt: \"stone é\", \"é.png\") ",
            "#raw(lang: \"rs\", \"é\", theme: \"x\") ", "#bibliography(style: \"é\", title: [the é], \"é.bib\") ", "#((a, b) => a + \"é\") ", "#let g(..args) = args ",
        ]));
    }
    s
}

/// Markdown: the event stream of pulldown-cmark (same options as Markdown::parse) abstracted to the model's events;
/// monitors the contract of C04_md_offsets; compares the offset loop and (when the wikilink passes are the identity)
/// the whole token list
fn corr_markdown(rep: &mut Report, text: &str, ilt: bool) {
    use pulldown_cmark::{Event, Tag, TagEnd};
    rep.eval();
    let chars: Vec<char> = text.chars().collect();
    let evs = guarded(|| {
        let p = pulldown_cmark::Parser::new_ext(text, pulldown_cmark::Options::all().difference(pulldown_cmark::Options::ENABLE_SMART_PUNCTUATION));
        p.into_offset_iter().collect::<Vec<_>>()
    });
    let Ok(evs) = evs else {
        rep.count("pulldown_cmark_panicked");
        return;
    };
    let mut codes: Vec<(u32, usize, usize, usize)> = vec![];
    let mut table = String::new();
    let mut seen: Vec<Vec<char>> = vec![];
    let mut on_b = true;
    let mut text_range_ok = true;
    let mut n_text = 0u64;
    let mut n_clamped = 0u64;
    // the wikilink passes of Markdown::parse only act on Pipe / `[[` tokens: when PlainEnglish makes no Pipe and no
    // OpenSquare token out of any Text chunk they are the identity, and the loop alone is the whole parse
    let mut wikilink_free = true;
    if std::env::var("C04_MD_DEBUG").is_ok() {
        eprintln!("{:?}", evs);
    }
    // the furthest range start so far: Markdown::parse handles an event there (C04_md_offsets_running_max), also a
    // replayed one that the guard lets through (FC02c)
    let mut run_max = 0usize;
    for (ev, range) in &evs {
        if !text.is_char_boundary(range.start) {
            on_b = false;
        }
        run_max = run_max.max(range.start);
        let n = |s: &str| s.chars().count();
        let code = match ev {
            Event::Start(Tag::List(_)) => (0, 9, range.start),
            Event::Start(t) => (
                0,
                match t {
                    Tag::Paragraph => 0,
                    Tag::Link { .. } => 1,
                    Tag::Heading { .. } => 2,
                    Tag::Item => 3,
                    Tag::TableCell => 4,
                    Tag::Emphasis => 5,
                    Tag::Strong => 6,
                    Tag::Strikethrough => 7,
                    Tag::CodeBlock(_) => 8,
                    _ => 10,
                },
                range.start,
            ),
            Event::End(TagEnd::Paragraph) | Event::End(TagEnd::Item) | Event::End(TagEnd::Heading(_)) | Event::End(TagEnd::CodeBlock) | Event::End(TagEnd::TableCell) => (1, 0, range.start),
            Event::End(_) => (2, 0, range.start),
            Event::SoftBreak => (3, 0, range.start),
            Event::HardBreak => (4, 0, range.start),
            Event::InlineMath(c) | Event::DisplayMath(c) | Event::Code(c) => (5, n(c), range.start),
            Event::Text(t) => {
                n_text += 1;
                // premise of C04_md_text_clamped: the source range of a Text event lies on char boundaries
                if !(range.start <= range.end && text.is_char_boundary(range.start) && text.is_char_boundary(range.end)) {
                    text_range_ok = false;
                } else {
                    let tc = if text.is_char_boundary(run_max) { text[..run_max].chars().count() } else { text[..range.start].chars().count() };
                    // chunk_len of Markdown::parse: never more chars than the source range holds
                    let len = n(t).min(text[range.clone()].chars().count());
                    if len < n(t) {
                        n_clamped += 1;
                    }
                    if len > 0 && tc + len <= chars.len() {
                        let chunk = chars[tc..tc + len].to_vec();
                        if !seen.contains(&chunk) {
                            let toks = PlainEnglish.parse(&chunk);
                            table.push_str(" | ");
                            table.push_str(&cps(&chunk));
                            table.push_str(" ;");
                            for k in &toks {
                                table.push_str(&format!(" {} {} {}", k.span.start, k.span.end, kind_code(&k.kind)));
                                if matches!(k.kind, TokenKind::Punctuation(harper_core::Punctuation::Pipe | harper_core::Punctuation::OpenSquare)) {
                                    wikilink_free = false;
                                }
                            }
                            seen.push(chunk);
                        }
                    }
                }
                (6, n(t), range.start)
            }
            Event::Html(c) | Event::InlineHtml(c) => (7, n(c), range.start),
            _ => (8, 0, range.start),
        };
        codes.push((code.0, code.1, code.2, range.end));
    }
    rep.monitor("md_event_streams_checked", 1);
    rep.monitor("md_text_events_checked", n_text);
    rep.monitor("md_text_events_clamped", n_clamped);
    if !text_range_ok {
        rep.monitor("md_text_range_off_char_boundary", 1);
        fail_limited(rep, "contract_md_text_range", "the source range of a pulldown-cmark Text event is reversed or not on char boundaries".into(), json!({"kind":"md","text":text,"ilt":ilt}));
    }
    if !on_b {
        rep.monitor("md_event_off_char_boundary", 1);
        fail_limited(rep, "contract_md_boundary", "a pulldown-cmark event range starts inside a multi-byte character".into(), json!({"kind":"md","text":text,"ilt":ilt}));
    }
    let starts: Vec<String> = codes.iter().map(|c| c.2.to_string()).collect();
    // Y: the cursor alone (reference: chars before max(start so far))
    let mut tb = 0usize;
    let mut refs = String::from("O");
    let mut ok = true;
    for c in &codes {
        if c.2 > tb {
            if !text.is_char_boundary(c.2) {
                ok = false;
                break;
            }
            tb = c.2;
        }
        refs.push_str(&format!(" {} {}", tb, text[..tb].chars().count()));
    }
    rep.case(&format!("Y {} | {}", cps_str(text), starts.join(" ")), if ok { refs.trim() } else { "P" });
    // shadow run of the loop's bookkeeping (cursor, covered_until, tag stack; PlainEnglish on the chunks) for the
    // contract monitor: since 8b26ba4 an event that repeats source text is skipped by the guard; what is still
    // assumed is that a non-End event which is NOT skipped never starts before the furthest range start seen so far
    // (C04_md_offsets_running_max: it would be handled at that later offset)
    let mut monotone = true;
    {
        let (mut tbb, mut cu, mut guard_hits, mut empty_code) = (0usize, 0usize, 0u64, 0u64);
        let mut lastend: Option<usize> = None;
        let mut stack: Vec<usize> = vec![];
        let mut okb = true;
        for c in &codes {
            let behind = c.2 < tbb;
            tbb = tbb.max(c.2);
            if !text.is_char_boundary(tbb) {
                okb = false;
                break;
            }
            let tc = text[..tbb].chars().count();
            if let Some(e) = lastend {
                cu = cu.max(e);
            }
            let leaf = matches!(c.0, 3 | 4 | 5 | 6 | 7);
            if leaf && (behind || tc < cu) {
                // `behind` = behind_cursor of b736ef8 (FC02c fixed): a replayed leaf event is always skipped now
                guard_hits += 1;
                if behind && tc >= cu {
                    rep.monitor("md_guard_skipped_behind_cursor_only", 1);
                }
                continue;
            }
            // only an event that pushes a token can be mislocated: an unskipped leaf event or Start(List); End events
            // carry the range of the whole element and put their zero-width break at the cursor by design
            // (since b736ef8 a leaf event behind the cursor never gets here: what is left is Start(List))
            if behind && (leaf || (c.0 == 0 && c.1 == 9)) {
                monotone = false;
            }
            match c.0 {
                0 => {
                    if c.1 == 9 {
                        lastend = Some(tc);
                    }
                    stack.push(c.1);
                }
                1 => {
                    lastend = Some(tc);
                    stack.pop();
                }
                2 => {
                    stack.pop();
                }
                3 | 4 => lastend = Some(tc + 1),
                5 => {
                    if c.1 == 0 {
                        empty_code += 1;
                    } else {
                        lastend = Some(tc + c.1);
                    }
                }
                7 => lastend = Some(tc + c.1),
                6 => {
                    if c.2 <= c.3 && text.is_char_boundary(c.2) && text.is_char_boundary(c.3) {
                        let len = c.1.min(text[c.2..c.3].chars().count());
                        if len > 0 && tc + len <= chars.len() {
                            let top = stack.last().copied();
                            let unl = top == Some(8) || (top == Some(1) && ilt);
                            let prose = match top {
                                None => true,
                                Some(t) => matches!(t, 0 | 2 | 3 | 4 | 5 | 6 | 7) || (t == 1 && !ilt),
                            };
                            if unl {
                                lastend = Some(tc + len);
                            } else if prose {
                                if let Some(k) = PlainEnglish.parse(&chars[tc..tc + len]).last() {
                                    lastend = Some(tc + k.span.end);
                                }
                            }
                        }
                    }
                }
                _ => {}
            }
        }
        if okb {
            rep.monitor("md_guard_skipped_events", guard_hits);
            rep.monitor("md_empty_code_events", empty_code);
            if guard_hits > 0 {
                rep.count("md_guard:stream_with_skipped_event");
            }
            if empty_code > 0 {
                rep.count("md_guard:stream_with_empty_code");
            }
        }
    }
    if !monotone {
        rep.monitor("md_event_before_cursor", 1);
        fail_limited(rep, "contract_md_order", "a non-End pulldown-cmark event that the covered_until guard does not skip starts before an earlier event's range start: Markdown::parse places it at the later offset".into(), json!({"kind":"md","text":text,"ilt":ilt}));
    }
    // Z: the whole loop against Markdown::parse, when the wikilink passes cannot apply
    if wikilink_free {
        rep.count(if text.contains('|') || text.contains("[[") { "md_loop:wikilink_material_but_passes_identity" } else { "md_loop:no_wikilink_material" });
        let mut mo = MarkdownOptions::default();
        mo.ignore_link_title = ilt;
        let imp = guarded(|| Markdown::new(mo).parse(&chars));
        let line = match &imp {
            Ok(t) => toks_line(t),
            Err(_) => "P".into(),
        };
        let evline: Vec<String> = codes.iter().map(|c| format!("{} {} {} {}", c.0, c.1, c.2, c.3)).collect();
        rep.case(&format!("Z {} | {} | {}{}", if ilt { 1 } else { 0 }, cps_str(text), evline.join(" "), table), line.trim());
        rep.count(&format!("md_loop:{}", if imp.is_ok() { "ok" } else { "panic" }));
        if let Ok(t) = &imp {
            // "located at its true position" at the very least means inside the file (C04_md_text_clamped +
            // C04_md_offsets_running_max give it for the model; F27 was the counter-example)
            if let Some(k) = t.iter().find(|k| k.span.start > k.span.end || k.span.end > chars.len()) {
                fail_limited(rep, "token_out_of_bounds", format!("markdown/parser: token {:?} (kind {}) outside the file of {} chars", k.span, kind_code(&k.kind), chars.len()), json!({"kind":"md","text":text,"ilt":ilt}));
            }
        }
        if let Ok(t) = &imp {
            // "the words Harper sees are exactly the prose words": a word of the file is seen ONCE (C04_md_guard_covered:
            // an event that repeats source text makes no second token over it; FC02b was the counter-example)
            let mut spans: Vec<(usize, usize)> = t.iter().filter(|k| matches!(k.kind, TokenKind::Word(_))).map(|k| (k.span.start, k.span.end)).collect();
            let n0 = spans.len();
            spans.sort();
            spans.dedup();
            if spans.len() != n0 {
                fail_limited(rep, "word_seen_twice:markdown", format!("markdown/parser: {} Word token(s) repeat the span of an earlier Word token", n0 - spans.len()), json!({"kind":"md","text":text,"ilt":ilt}));
            }
        }
        if let Err(m) = &imp {
            // F27 is fixed (548c418): with ranges on char boundaries C04_md_offsets_running_max + C04_md_text_clamped
            // exclude a panic of the loop
            fail_limited(rep, "panic", format!("markdown: Markdown::parse panicked: {m} at {}", last_panic_location()), json!({"kind":"md","text":text,"ilt":ilt}));
        }
        if imp.is_ok() && text.len() != chars.len() {
            rep.nontrivial(&("md", text));
        }
    }
}

// ------------------------------------------------------------------------------------------------
// the search oracle: constructed ground truth
fn lintable_kind(k: &TokenKind) -> bool {
    !matches!(k, TokenKind::Unlintable | TokenKind::ParagraphBreak | TokenKind::Newline(_))
}

fn doc_json(b: &Built) -> Value {
    json!({"kind":"doc","fe":b.fe,"text":b.text,
           "words": b.words.iter().map(|(o,w)| json!([o,w])).collect::<Vec<_>>(),
           "forbidden": b.forbidden.iter().map(|(s,e,l)| json!([s,e,l])).collect::<Vec<_>>()})
}

/// C04_masked_ie_offsets / C04_masked_ci_offsets on the implementation: the tokens of `fe+ie` are a sub-sequence of the
/// tokens of `fe` (span and kind); every token of `fe+ci` is a token of `fe` or a Word from the start of a Word of
/// `fe` to the end of a later Word of `fe`
fn wrappers_oracle(rep: &mut Report, fe_base: &str, chars: &[char], dict: &Arc<FstDictionary>, inp: &Value) {
    let r = guarded(|| {
        let base = frontends::make_parser(fe_base, chars, dict).parse(chars);
        let ie = frontends::make_parser(&format!("{fe_base}+ie"), chars, dict).parse(chars);
        let ci = frontends::make_parser(&format!("{fe_base}+ci"), chars, dict).parse(chars);
        (base, ie, ci)
    });
    let Ok((base, ie, ci)) = r else {
        fail_limited(rep, "panic", format!("{fe_base}: +ie / +ci parse panicked at {}", last_panic_location()), inp.clone());
        return;
    };
    rep.monitor("wrapper_compositions_checked", 1);
    let key = |t: &Token| (t.span.start, t.span.end, kind_code(&t.kind));
    let mut i = 0usize;
    for t in &ie {
        while i < base.len() && key(&base[i]) != key(t) {
            i += 1;
        }
        if i == base.len() {
            fail_limited(rep, &format!("ie_not_subsequence:{fe_base}"), format!("{fe_base}+ie: token {:?} {} is not (in order) a token of the masked parse", t.span, kind_code(&t.kind)), inp.clone());
            return;
        }
        i += 1;
    }
    if ie.len() < base.len() {
        rep.count("ie_dropped_a_chunk");
    }
    let mut i = 0usize;
    for t in &ci {
        if i < base.len() && key(&base[i]) == key(t) {
            i += 1;
            continue;
        }
        let merged = matches!(t.kind, TokenKind::Word(_))
            && i < base.len()
            && matches!(base[i].kind, TokenKind::Word(_))
            && base[i].span.start == t.span.start
            && base[i + 1..].iter().any(|u| matches!(u.kind, TokenKind::Word(_)) && u.span.end == t.span.end);
        if !merged {
            fail_limited(rep, &format!("ci_not_grouping:{fe_base}"), format!("{fe_base}+ci: token {:?} {} is neither the next token of the masked parse nor a Word from the start of its next Word to the end of a later Word", t.span, kind_code(&t.kind)), inp.clone());
            return;
        }
        while i < base.len() && base[i].span.end != t.span.end {
            i += 1;
        }
        i += 1;
        rep.count("ci_merged_an_identifier");
    }
}

/// `b` without the chars [ls, le): ground truth shifted, non-prose ranges clipped
fn delete_range(b: &Built, ls: usize, le: usize) -> Built {
    let d = le - ls;
    let text: String = b.text.chars().enumerate().filter(|(i, _)| *i < ls || *i >= le).map(|(_, c)| c).collect();
    let mv = |x: usize| if x <= ls { x } else if x >= le { x - d } else { ls };
    let words = b.words.iter().filter(|(o, w)| *o + w.chars().count() <= ls || *o >= le).map(|(o, w)| (mv(*o), w.clone())).collect();
    let forbidden = b.forbidden.iter().map(|(s, e, l)| (mv(*s), mv(*e), l.clone())).filter(|(s, e, _)| s < e).collect();
    Built { fe: b.fe.clone(), text, words, forbidden }
}

/// the failures (class, what) of the search oracle on `b`, nothing reported
fn probe(scratch: &mut Report, b: &Built, dict: &Arc<FstDictionary>) -> Vec<(String, String)> {
    PROBE.with(|p| *p.borrow_mut() = Some(vec![]));
    oracle_inner(scratch, b, dict);
    PROBE.with(|p| p.borrow_mut().take()).unwrap_or_default()
}

/// Minimiser for generated failing files: deletes whole units of lines (last to first, repeated until nothing more goes, at most
/// `budget` oracle runs) as long as the oracle still fails with the SAME class; the ground truth (prose words, non-prose
/// ranges) is carried along, so the result is replayable through `--replay` / the corpus like any constructed file.
fn strip_numbers(s: &str) -> String {
    s.chars().filter(|c| !c.is_ascii_digit()).collect()
}
fn shrink(scratch: &mut Report, b: &Built, class: &str, orig_what: &str, dict: &Arc<FstDictionary>, mut budget: usize) -> Option<(Built, String)> {
    // "the same failure" = the same class and the same message up to the numbers in it (offsets move)
    let want = strip_numbers(orig_what);
    let mut cur = delete_range(b, 0, 0);
    let mut what: Option<String> = None;
    loop {
        let mut progressed = false;
        let cs: Vec<char> = cur.text.chars().collect();
        // lines
        let mut lines = vec![0usize];
        for (i, c) in cs.iter().enumerate() {
            if *c == '\n' {
                lines.push(i + 1);
            }
        }
        if *lines.last().unwrap() != cs.len() {
            lines.push(cs.len());
        }
        // Deleting an arbitrary line can turn the rest into something else (a block comment without its opener, two
        // comment blocks merged under one ignore marker) and make the ground truth wrong, so only whole UNITS go:
        // comment languages — a run of non-code lines with the code lines that follow it (the code lines that separate
        // the remaining blocks stay); other front-ends — a run of lines with the blank lines that follow it.  The units
        // holding a language's header / footer line stay.
        let is_c = cur.fe.starts_with("c:");
        let nl = lines.len() - 1;
        let sep: Vec<bool> = (0..nl)
            .map(|i| {
                let (ls, le) = (lines[i], lines[i + 1]);
                if is_c {
                    cur.forbidden.iter().any(|(s, e, l)| *s < le && ls < *e && matches!(l.as_str(), "code" | "go_directive" | "docstring"))
                } else {
                    cs[ls..le].iter().all(|c| c.is_whitespace())
                }
            })
            .collect();
        let mut bounds = vec![0usize];
        for i in 1..nl {
            if !sep[i] && sep[i - 1] {
                bounds.push(lines[i]);
            }
        }
        bounds.push(cs.len());
        let (hdr, ftr) = if is_c {
            let (_, _, _, h, f) = c04_gen::line_leaders(cur.fe.trim_start_matches("c:"));
            (!h.is_empty(), !f.is_empty())
        } else {
            (false, false)
        };
        let last_unit = bounds.len() - 2;
        let mut k = bounds.len() - 1;
        while k > 0 && budget > 0 {
            k -= 1;
            let (ls, le) = (bounds[k], bounds[k + 1]);
            if le - ls >= cs.len() || (hdr && k == 0) || (ftr && k == last_unit) {
                continue;
            }
            let cand = delete_range(&cur, ls, le);
            budget -= 1;
            if let Some((_, w)) = probe(scratch, &cand, dict).into_iter().find(|(c, w)| c == class && strip_numbers(w) == want) {
                // bounds above k are stale now, bounds up to k are untouched: keep going downwards
                cur = cand;
                what = Some(w);
                progressed = true;
            }
        }
        if !progressed || budget == 0 {
            break;
        }
    }
    what.map(|w| (cur, w))
}

thread_local! {
    static SCRATCH: std::cell::RefCell<Option<Report>> = std::cell::RefCell::new(None);
    static SHRUNK: std::cell::RefCell<std::collections::HashMap<String, u64>> = std::cell::RefCell::new(Default::default());
}

/// the search oracle; the first failures of every class are minimised before they are recorded
fn oracle(rep: &mut Report, b: &Built, dict: &Arc<FstDictionary>) {
    let before = rep.failures.len();
    oracle_inner(rep, b, dict);
    for idx in before..rep.failures.len() {
        let class = rep.failures[idx].class.clone();
        let orig_what = rep.failures[idx].what.clone();
        let n = SHRUNK.with(|m| {
            let mut m = m.borrow_mut();
            let e = m.entry(class.clone()).or_insert(0);
            *e += 1;
            *e
        });
        if n > 3 {
            continue;
        }
        let dir = format!("{}/shrink-scratch", rep.dir);
        let small = SCRATCH.with(|sc| {
            let mut sc = sc.borrow_mut();
            if sc.is_none() {
                let _ = std::fs::create_dir_all(&dir);
                *sc = Some(Report::new(&dir));
            }
            shrink(sc.as_mut().unwrap(), b, &class, &orig_what, dict, 80)
        });
        if let Some((sb, what)) = small {
            rep.monitor("failing_files_minimised", 1);
            rep.count_n("minimiser:chars_removed", (b.text.chars().count() - sb.text.chars().count()) as u64);
            rep.failures[idx].what = format!("{what} [minimised from {} to {} chars]", b.text.chars().count(), sb.text.chars().count());
            rep.failures[idx].input = doc_json(&sb);
        }
    }
}

fn oracle_inner(rep: &mut Report, b: &Built, dict: &Arc<FstDictionary>) {
    rep.eval();
    let chars: Vec<char> = b.text.chars().collect();
    let fe_base = b.fe.clone();
    rep.count(&format!("fe:{}", fe_base));
    {
        let mut labels: Vec<&str> = b.forbidden.iter().map(|(_, _, l)| l.as_str()).collect();
        labels.sort();
        labels.dedup();
        for l in labels {
            rep.count(&format!("seg:{l}"));
        }
    }
    let inp = doc_json(b);
    if fe_base.starts_with("c:") || fe_base == "lhaskell" || fe_base == "html" {
        wrappers_oracle(rep, &fe_base, &chars, dict, &inp);
    }
    let vocab = c04_gen::vocab_in_nonprose(&b.text, &b.forbidden);
    // raw parser tokens and the tokens of the Document (what the rules see); `+ci` as harper-ls wraps comment parsers
    let variants: Vec<String> = if fe_base.starts_with("c:") || fe_base == "lhaskell" { vec![fe_base.clone(), format!("{fe_base}+ci")] } else { vec![fe_base.clone()] };
    for fe in variants {
        let r = guarded(|| {
            let parser = frontends::make_parser(&fe, &chars, dict);
            let raw = parser.parse(&chars);
            let doc = harper_core::Document::new_from_vec(Lrc::new(chars.clone()), &parser, dict);
            (raw, doc.get_tokens().to_vec())
        });
        let (raw, doc) = match r {
            Ok(x) => x,
            Err(m) => {
                fail_limited(rep, "panic", format!("{fe}: parse panicked: {m} at {}", last_panic_location()), inp.clone());
                return;
            }
        };
        for (what, toks) in [("parser", &raw), ("document", &doc)] {
            let expected: BTreeMap<usize, &str> = b.words.iter().map(|(o, w)| (*o, w.as_str())).collect();
            let mut seen: HashSet<usize> = HashSet::new();
            // ---- pass 1: LOCATION of every token, also inside non-prose segments and known-finding regions (whether a
            //      word may be offered there is pass 2's question; where it is must be right in any case)
            for t in toks.iter() {
                if t.span.start > t.span.end || t.span.end > chars.len() {
                    fail_limited(rep, "token_out_of_bounds", format!("{fe}/{what}: token {:?} outside the file", t.span), inp.clone());
                    return;
                }
                if let TokenKind::Word(_) = t.kind {
                    let txt: String = chars[t.span.start..t.span.end].iter().collect();
                    // "each at its true character offset", independent of the ground truth: a Word token covers a
                    // whole word of the file (no ASCII punctuation or space inside, not cut out of a longer ASCII alphanumeric run;
                    // the lexer itself splits words at non-English letters, which is C02's business)
                    let ok_chars = !txt.is_empty() && txt.chars().all(|c| !c.is_ascii() || c.is_ascii_alphanumeric() || matches!(c, '\'' | '-' | '.'));
                    let left_ok = t.span.start == 0 || !chars[t.span.start - 1].is_ascii_alphanumeric();
                    let right_ok = t.span.end == chars.len() || !chars[t.span.end].is_ascii_alphanumeric();
                    if !(ok_chars && left_ok && right_ok) {
                        fail_limited(rep, &format!("word_misaligned:{}", fe_base), format!("{fe}/{what}: Word token {:?} covers {:?}, which is not a whole word of the file", t.span, txt), inp.clone());
                        return;
                    }
                    // ... and with the ground truth: a vocabulary word standing in a non-prose segment, if it is touched
                    // by a Word token at all, is covered by exactly that token
                    if let Some((o, w)) = vocab.iter().find(|(o, w)| t.span.start < *o + w.chars().count() && *o < t.span.end) {
                        if !(t.span.start == *o && t.span.end == *o + w.chars().count()) {
                            fail_limited(rep, &format!("word_mislocated:{}", fe_base), format!("{fe}/{what}: Word token {:?} {:?} overlaps the vocabulary word {:?} at {o} without covering exactly it", t.span, txt, w), inp.clone());
                            return;
                        }
                        rep.count("vocab_word_in_nonprose_offered_at_true_offset");
                    }
                }
            }
            // ---- pass 2: WHAT is offered
            for t in toks.iter() {
                let txt: String = chars[t.span.start..t.span.end].iter().collect();
                if lintable_kind(&t.kind) {
                    if let Some((s, e, l)) = b.forbidden.iter().find(|(s, e, _)| t.span.start < *e && *s < t.span.end) {
                        let is_url_kind = matches!(t.kind, TokenKind::Url | TokenKind::EmailAddress | TokenKind::Hostname);
                        if !(l == "url" && is_url_kind) {
                            fail_limited(rep, &format!("nonprose_offered:{}:{l}", fe_base), format!("{fe}/{what}: token {:?} {:?} {:?} lies in a non-prose segment [{s},{e}) ({l}) {:?}", t.span, kind_code(&t.kind), txt, chars[*s..*e].iter().collect::<String>()), inp.clone());
                            return;
                        }
                    }
                }
                if let TokenKind::Word(_) = t.kind {
                    match expected.get(&t.span.start) {
                        Some(w) if *w == txt => {
                            seen.insert(t.span.start);
                        }
                        _ => {
                            let near = b.words.iter().find(|(o, w)| *w == txt && (*o as i64 - t.span.start as i64).abs() <= 8);
                            let class = if near.is_some() { "word_misplaced" } else { "word_not_prose" };
                            fail_limited(rep, &format!("{class}:{}", fe_base), format!("{fe}/{what}: Word token {:?} {:?} is not a constructed prose word at that offset{}", t.span, txt, near.map(|(o, _)| format!(" (the prose word is at {o})")).unwrap_or_default()), inp.clone());
                            return;
                        }
                    }
                }
            }
            if let Some((o, w)) = b.words.iter().find(|(o, _)| !seen.contains(o)) {
                // FC04d (known): Go does not strip leaders per line, an indented comment line is Markdown code
                let line_start = (0..*o).rev().find(|i| chars[*i] == '\n').map(|i| i + 1).unwrap_or(0);
                let go_indented = fe_base == "c:go" && (chars[line_start..].starts_with(&['\t']) || chars[line_start..].starts_with(&[' ', ' ', ' ', ' ']));
                let cls = if go_indented { "prose_missed_go_indented_line" } else { "prose_missed" };
                fail_limited(rep, &format!("{cls}:{}", fe_base), format!("{fe}/{what}: prose word {:?} at {o} was not offered as a Word token", w), inp.clone());
                return;
            }
        }
    }
    if !b.words.is_empty() && !b.forbidden.is_empty() && b.text.len() != chars.len() {
        rep.nontrivial(&(&b.fe, &b.text));
    }
    rep.count(&format!("words:{}", match b.words.len() { 0 => "0", 1..=5 => "1-5", 6..=20 => "6-20", _ => "21+" }));
    rep.count(&format!("multibyte_before_first_word:{}", b.words.first().map(|(o, _)| chars[..*o].iter().any(|c| c.len_utf8() > 1)).unwrap_or(false)));
    if rep.samples.len() < 6 && b.words.len() > 2 {
        rep.sample(json!({"fe": b.fe, "text": b.text.chars().take(200).collect::<String>(), "n_words": b.words.len(), "n_forbidden": b.forbidden.len()}));
    }
}

// ------------------------------------------------------------------------------------------------
// statefulness oracle: a parser / masker INSTANCE that has already been used for other sources must return
// exactly what a fresh instance returns for the same source (the property speaks about the file, not about the
// editing session: harper-ls keeps one parser per document and re-parses after every keystroke).
// A session keeps the real parser (CommentParser / HtmlParser / Markdown / ... as harper-ls builds them) and,
// for tree-sitter front-ends, the masker alive across cases; `create_ident_dict` is called before `parse` the way
// harper-ls does, so the two tree-sitter parses of one text are interleaved with those of the next.
enum SessParser {
    Comment(harper_comments::CommentParser),
    Other(Box<dyn Parser>),
}
enum SessMasker {
    Comment(masker::CommentMasker),
    Ts(TreeSitterMasker),
}
impl SessMasker {
    fn create_mask(&self, chars: &[char]) -> Mask {
        match self {
            SessMasker::Comment(m) => m.create_mask(chars),
            SessMasker::Ts(m) => m.create_mask(chars),
        }
    }
    fn create_ident_dict(&self, chars: &[char]) -> Option<harper_core::MutableDictionary> {
        match self {
            SessMasker::Comment(m) => m.create_ident_dict(chars),
            SessMasker::Ts(m) => m.create_ident_dict(chars),
        }
    }
}
struct Session {
    fe: String,
    parser: SessParser,
    masker: Option<SessMasker>,
    /// (source, mode) of the steps so far; the mode is the ORDER of the calls on the instance (see `observe`)
    history: Vec<(String, u8)>,
}
fn new_masker(fe: &str) -> Option<SessMasker> {
    let id = fe.strip_prefix("c:").unwrap_or(fe);
    let lang = ts_language(id)?;
    Some(if id == "html" { SessMasker::Ts(TreeSitterMasker::new(lang, cond_text)) } else { SessMasker::Comment(masker::CommentMasker::new(lang, cond_comment)) })
}
fn idents_line(d: Result<Option<harper_core::MutableDictionary>, String>) -> String {
    match d {
        Ok(Some(d)) => {
            use harper_core::Dictionary;
            // the word map is keyed case-insensitively and filled from a HashSet: which of `Qzxvb` / `qzxvb`
            // survives depends on the hash seed, so compare lower-cased
            let mut w: Vec<String> = d.words_iter().map(|w| w.iter().collect::<String>().to_lowercase()).collect();
            w.sort();
            w.dedup();
            w.join(" ")
        }
        Ok(None) => "-".into(),
        Err(_) => "P".into(),
    }
}
impl Session {
    fn new(fe: &str, dict: &Arc<FstDictionary>) -> Session {
        let parser = match fe.strip_prefix("c:") {
            Some(lang) => SessParser::Comment(harper_comments::CommentParser::new_from_language_id(lang, MarkdownOptions::default()).expect("unknown language id")),
            None => SessParser::Other(frontends::make_parser(fe, &[], dict)),
        };
        Session { fe: fe.to_string(), parser, masker: new_masker(fe), history: vec![] }
    }
    /// (tokens, mask, identifier dictionaries) of this instance for `text`, canonicalised.  `mode` is the order of the
    /// calls on the instance — each result is a function of `text` alone, so a fresh instance run in the same mode is
    /// the reference whatever the order:
    ///   0  create_ident_dict(text), parse(text), create_mask(text)       (what harper-ls does for one document)
    ///   1  parse(text), create_mask(text), THEN create_ident_dict(text)   (the identifier pass of THIS text is the last thing
    ///      the instance saw when the NEXT text is parsed — seed c04-5: dict(A) then parse(B != A))
    ///   2  parse(text), create_mask(text) only
    fn observe(&self, text: &str, mode: u8) -> (String, String, String) {
        let chars: Vec<char> = text.chars().collect();
        let idents_of = |s: &Session| -> String {
            let a = match &s.parser {
                SessParser::Comment(p) => idents_line(guarded(|| p.create_ident_dict(&chars))),
                SessParser::Other(_) => "-".into(),
            };
            let b = match &s.masker {
                Some(m) => idents_line(guarded(|| m.create_ident_dict(&chars))),
                None => "-".into(),
            };
            format!("{a} / {b}")
        };
        let mut idents = if mode == 0 { idents_of(self) } else { "not asked".to_string() };
        let toks = match guarded(|| match &self.parser {
            SessParser::Comment(p) => p.parse(&chars),
            SessParser::Other(p) => p.parse(&chars),
        }) {
            Ok(t) => toks_line(&t),
            Err(_) => "P".into(),
        };
        let mask = match &self.masker {
            Some(m) => match guarded(|| m.create_mask(&chars).iter_allowed(&chars).map(|(s, _)| (s.start, s.end)).collect::<Vec<_>>()) {
                Ok(v) => spans_line(&v),
                Err(_) => "P".into(),
            },
            None => "-".into(),
        };
        if mode == 1 {
            idents = idents_of(self);
        }
        (toks, mask, idents)
    }
}
/// the words (offset, text) a token line offers, for the failure message
fn word_list(line: &str, text: &str) -> Vec<(usize, String)> {
    let chars: Vec<char> = text.chars().collect();
    let v: Vec<usize> = line.split_whitespace().skip(1).filter_map(|x| x.parse().ok()).collect();
    v.chunks(3).filter(|c| c.len() == 3 && c[2] == 5 && c[1] <= chars.len() && c[0] <= c[1]).map(|c| (c[0], chars[c[0]..c[1]].iter().collect())).collect()
}
/// run `versions` in order through ONE new session; the first version whose observation differs from a fresh
/// instance's is returned with a description
fn reuse_first_difference(fe: &str, versions: &[(String, u8)], dict: &Arc<FstDictionary>) -> Option<(usize, String)> {
    let sess = Session::new(fe, dict);
    for (i, (v, mode)) in versions.iter().enumerate() {
        let got = sess.observe(v, *mode);
        let want = Session::new(fe, dict).observe(v, *mode);
        if got != want {
            let what = if got.0 != want.0 {
                let (g, w) = (word_list(&got.0, v), word_list(&want.0, v));
                let extra: Vec<_> = g.iter().filter(|x| !w.contains(x)).take(4).collect();
                let missing: Vec<_> = w.iter().filter(|x| !g.contains(x)).take(4).collect();
                format!("tokens differ (words only the reused instance offers: {:?}; words it misses: {:?})", extra, missing)
            } else if got.1 != want.1 {
                format!("create_mask differs: reused {} / fresh {}", got.1, want.1)
            } else {
                "create_ident_dict differs".to_string()
            };
            return Some((i, what));
        }
    }
    None
}
/// one step of a long-lived session inside the run; on a difference the history is minimised to the shortest
/// suffix that reproduces it on a new instance (so that the replay input is self-contained)
fn session_step(rep: &mut Report, sess: &mut Session, text: &str, mode: u8, dict: &Arc<FstDictionary>) {
    rep.eval();
    let got = sess.observe(text, mode);
    let want = Session::new(&sess.fe, dict).observe(text, mode);
    rep.monitor("reuse_steps_checked", 1);
    rep.count(&format!("reuse_mode:{}", ["dict_parse_mask", "parse_mask_dict", "parse_mask"][mode.min(2) as usize]));
    if let Some((prev, pm)) = sess.history.last() {
        if *pm != 2 && prev != text && mode != 0 {
            // the instance's last identifier pass saw ANOTHER text than the one it parses now
            rep.monitor("reuse_parse_after_ident_dict_of_other_text", 1);
        }
    }
    let multibyte_prefix = sess.history.last().map(|(p, _)| p.chars().zip(text.chars()).take_while(|(a, b)| a == b).any(|(a, _)| a.len_utf8() > 1)).unwrap_or(false);
    rep.count(&format!("reuse:{}", if sess.history.is_empty() { "first_use" } else if multibyte_prefix { "shares_multibyte_prefix_with_previous" } else { "other" }));
    if got != want {
        let mut all: Vec<(String, u8)> = sess.history.clone();
        all.push((text.to_string(), mode));
        let mut versions = all.clone();
        for k in 2..=all.len() {
            let cand = all[all.len() - k..].to_vec();
            if reuse_first_difference(&sess.fe, &cand, dict).is_some() {
                versions = cand;
                break;
            }
        }
        let what = reuse_first_difference(&sess.fe, &versions, dict).map(|(i, w)| format!("version {} of {}: {w}", i + 1, versions.len())).unwrap_or_else(|| "difference only with the full session history".into());
        fail_limited(rep, &format!("stateful_instance:{}", sess.fe), format!("{}: an instance that was used for earlier sources returns something else than a fresh instance for the same source — {what}", sess.fe), json!({"kind":"reuse","fe":sess.fe,"versions":versions.iter().map(|v| v.0.clone()).collect::<Vec<_>>(),"modes":versions.iter().map(|v| v.1).collect::<Vec<_>>()}));
        // start over with a clean instance: one stale state must not cascade through the rest of the run
        *sess = Session::new(&sess.fe, dict);
    }
    if multibyte_prefix {
        rep.nontrivial(&("reuse", &sess.fe, text));
    }
    sess.history.push((text.to_string(), mode));
    if sess.history.len() > 6 {
        sess.history.remove(0);
    }
}

/// an editing session: a file whose head is rich in multi-byte characters, then successive versions that differ
/// from their predecessor by ONE edit behind that head: equal-length replacement of a comment line by code (and
/// back), insertion, deletion, a changed word — the edits an editor resubmits after a few keystrokes
fn edit_chain(fe: &str, r: &mut Rng) -> Vec<String> {
    let id = fe.strip_prefix("c:").unwrap_or(fe);
    let pad = |s: &str, n: usize| -> String {
        let k = s.chars().count();
        let mut o = s.to_string();
        for _ in k..n {
            o.push(' ');
        }
        o
    };
    let mb = ["é", "値", "😀", "ß", "ключ", "«", "»", "日本語", "ñ"];
    let mb_run = |r: &mut Rng| -> String {
        let n = r.range(0, 40);
        let c = r.s(&mb);
        let mut s = String::new();
        for _ in 0..n {
            s.push_str(if r.chance(1, 6) { r.s(&mb) } else { c });
        }
        s
    };
    let words = |r: &mut Rng, k: usize| -> String { (0..k).map(|_| r.s(c04_gen::A)).collect::<Vec<_>>().join(" ") };
    // (comment line, code line) builders per front-end
    let (head, comment, code): (String, Box<dyn Fn(&mut Rng) -> String>, Box<dyn Fn(&mut Rng) -> String>) = if id == "html" {
        (
            format!("<html><body>\n<p>{} {}</p>\n", mb_run(r), words(r, 2)),
            Box::new(move |r: &mut Rng| format!("<p>{}</p>", (0..r.range(1, 4)).map(|_| r.s(c04_gen::A)).collect::<Vec<_>>().join(" "))),
            Box::new(move |r: &mut Rng| format!("<script>var {} = \"{}\";</script>", r.s(c04_gen::IDS), r.s(c04_gen::A))),
        )
    } else if fe.starts_with("c:") {
        let probe = c04_gen::line_leaders(id);
        let leader = r.s(probe.0);
        let block = probe.1;
        let head = match (block, r.chance(1, 2)) {
            (Some((o, c)), true) => format!("{}{o} {} {} {c}\n", probe.3, mb_run(r), words(r, 1)),
            _ => format!("{}{leader} {} {}\n", probe.3, mb_run(r), words(r, 1)),
        };
        let stmts = probe.2;
        (
            head,
            Box::new(move |r: &mut Rng| format!("{leader} {}", (0..r.range(1, 4)).map(|_| r.s(c04_gen::A)).collect::<Vec<_>>().join(" "))),
            Box::new(move |r: &mut Rng| r.s(stmts).replace("{lit}", &format!("\"{}\"", r.s(c04_gen::A))).replace("{id}", r.s(c04_gen::IDS)).replace("{ID}", &r.s(c04_gen::IDS).to_uppercase())),
        )
    } else {
        // front-ends without tree-sitter: prose line vs inline code line
        (
            format!("{} {}\n\n", mb_run(r), words(r, 2)),
            Box::new(move |r: &mut Rng| (0..r.range(1, 4)).map(|_| r.s(c04_gen::A)).collect::<Vec<_>>().join(" ")),
            Box::new(move |r: &mut Rng| format!("`{} {}`", r.s(c04_gen::IDS), r.s(c04_gen::A))),
        )
    };
    let sep = if fe.starts_with("c:") || id == "html" { "\n" } else { "\n\n" };
    // body lines: (is_comment, text)
    let mut lines: Vec<String> = (0..r.range(2, 5)).map(|_| if r.chance(1, 2) { comment(r) } else { code(r) }).collect();
    let footer = c04_gen::line_leaders(id).4;
    let render = |lines: &Vec<String>| -> String { format!("{head}{}{sep}{footer}", lines.join(sep)) };
    let mut out = vec![render(&lines)];
    for _ in 0..r.range(1, 4) {
        let i = r.below(lines.len());
        match r.below(6) {
            0 | 1 | 2 => {
                // equal-length replacement comment <-> code (the shorter one is padded with trailing blanks)
                let (a, b) = (comment(r), code(r));
                let n = a.chars().count().max(b.chars().count()).max(lines[i].chars().count());
                let was_comment = out.len() % 2 == 0;
                lines[i] = pad(if was_comment { &a } else { &b }, n);
                out.push(render(&lines));
                lines[i] = pad(if was_comment { &b } else { &a }, n);
            }
            3 => lines.insert(i, if r.chance(1, 2) { comment(r) } else { code(r) }),
            4 if lines.len() > 1 => {
                lines.remove(i);
            }
            _ => lines[i] = if r.chance(1, 2) { comment(r) } else { code(r) },
        }
        out.push(render(&lines));
    }
    out.dedup();
    out
}

/// `modes`: the call order of every step (see Session::observe); when absent the steps cycle through the three orders,
/// so that every chain has a parse(B) right after create_ident_dict(A)
fn corr_reuse(rep: &mut Report, fe: &str, versions: &[String], modes: Option<&[u8]>, dict: &Arc<FstDictionary>) {
    let mut sess = Session::new(fe, dict);
    for (i, v) in versions.iter().enumerate() {
        let mode = match modes {
            Some(m) => m.get(i).copied().unwrap_or(0).min(2),
            None => [0u8, 1, 2, 1][i % 4],
        };
        session_step(rep, &mut sess, v, mode, dict);
    }
}

// ------------------------------------------------------------------------------------------------
fn random_mask(r: &mut Rng, n: usize, malformed: bool) -> Vec<(usize, usize)> {
    let mut v = vec![];
    let mut pos = 0usize;
    let k = r.below(6);
    for _ in 0..k {
        let a = pos + if r.chance(1, 4) { 0 } else { r.below(4) };
        let b = a + if r.chance(1, 8) { 0 } else { r.range(1, 6) };
        if b > n && !malformed {
            break;
        }
        v.push((a, b));
        pos = b;
    }
    if malformed && !v.is_empty() {
        match r.below(4) {
            0 => {
                let i = r.below(v.len());
                v[i].1 += n + 2;
            }
            1 => v.reverse(),
            2 => {
                let i = r.below(v.len());
                let (a, b) = v[i];
                v[i] = (b + 1, a);
            }
            _ => {
                let i = r.below(v.len());
                v.push((v[i].0, v[i].1 + 1));
            }
        }
    } else if r.chance(1, 3) {
        // order must not matter to collect()
        let i = r.below(v.len().max(1));
        if !v.is_empty() {
            let x = v.remove(i);
            v.insert(0, x);
        }
    }
    v
}

fn small_text(r: &mut Rng) -> String {
    let pool = ["a", "b", "river", " ", " ", "\n", "\n", "é", "値", "😀", "\t", ".", ",", "//", "#", "*", "/*", "*/", "-", "!", "\r\n", "\u{a0}", "\u{2003}", "`", "```", "go:", "x", "> \t\t", "- \t\t"];
    let n = r.below(14);
    (0..n).map(|_| r.s(&pool)).collect()
}

fn comment_text(r: &mut Rng) -> String {
    let leaders = ["//", "///", "//!", "#", "--", "/*", "/**", " * ", "*/", "", "  ", "\t", "-- |", "#!", "##", "//go:generate x", "// go:build y"];
    let n = r.range(1, 5);
    let mut s = String::new();
    for i in 0..n {
        if i > 0 {
            s.push('\n');
        }
        s.push_str(r.s(&leaders));
        if r.chance(3, 4) {
            s.push(' ');
        }
        for _ in 0..r.below(4) {
            s.push_str(r.s(&["river", "stone", "```", "值", "é", "a.", "{", "x_y", "*", "-", "/", " ", "  ", "!"]));
            s.push(' ');
        }
        if r.chance(1, 4) {
            s.push_str(r.s(&["*/", " */", "-->", "##", "--"]));
        }
    }
    s
}

const SHEBANG_LINES: &[&str] = &["#!/bin/sh\n", "#!x é\n", "# river\n", "# harper:ignore 値\n", "\n", "echo \"é\"\n", "  # stone\n"];
fn shebang_text(r: &mut Rng) -> String {
    (0..r.range(1, 7)).map(|_| r.s(SHEBANG_LINES)).collect()
}

fn lhs_text(r: &mut Rng) -> String {
    let lines = ["river stone", "", "", "> main = é", ">", ">x", "> ", "\\begin{code}", "\\end{code}", "  \\begin{code}  ", "値 = 1", " ", "\t", "paper", "> 😀", "\u{a0}", "\\begin{code} x"];
    let n = r.range(0, 9);
    let mut v: Vec<&str> = vec![];
    for _ in 0..n {
        v.push(r.s(&lines));
    }
    let mut s = v.join("\n");
    if r.chance(1, 2) {
        s.push('\n');
    }
    s
}

/// thorough tier: exhaustive finite sweeps (support for the correspondence, not proof)
fn exhaustive(rep: &mut Report) {
    fn words(alpha: &[&str], max: usize, f: &mut dyn FnMut(&str)) {
        let mut idx: Vec<usize> = vec![];
        loop {
            let s: String = idx.iter().map(|i| alpha[*i]).collect();
            f(&s);
            let mut k = 0;
            loop {
                if k == idx.len() {
                    idx.push(0);
                    if idx.len() > max {
                        return;
                    }
                    for x in idx.iter_mut() {
                        *x = 0;
                    }
                    break;
                }
                idx[k] += 1;
                if idx[k] < alpha.len() {
                    break;
                }
                idx[k] = 0;
                k += 1;
            }
        }
    }
    let mut n = 0u64;
    // UTF-8 maps: all strings of <= 4 chars over 1/2/3/4-byte chars and '\n'; every byte offset
    words(&["a", "é", "値", "😀", "\n"], 4, &mut |s| {
        corr_utf8(rep, s);
        n += 1;
    });
    rep.extra.insert("exhaustive_utf8_strings_le4".into(), json!(n));
    // without_initiators / Unit / JsDoc / Go: all strings of <= 5 over leaders, space, a letter, newline, fence char
    let mut n = 0u64;
    words(&["/", "*", " ", "a", "\n", "#", "`"], 5, &mut |s| {
        for w in ['N', 'J', 'G'] {
            corr_lines(rep, w, s, "synth");
        }
        n += 1;
    });
    rep.extra.insert("exhaustive_comment_strings_le5".into(), json!(n));
    let mut n = 0u64;
    words(&["g", "o", ":", "/", "\n", "a"], 6, &mut |s| {
        if s.contains("go:") {
            corr_lines(rep, 'G', s, "synth");
            n += 1;
        }
    });
    rep.extra.insert("exhaustive_go_directive_strings_le6".into(), json!(n));
    // JavaDoc / JsDoc tag passes: all strings of <= 6 over @ { } word space newline star
    let mut n = 0u64;
    words(&["@", "a", " ", "{", "}", "\n", "*"], 6, &mut |s| {
        corr_javadoc(rep, s);
        corr_lines(rep, 'J', s, "plain");
        n += 1;
    });
    rep.extra.insert("exhaustive_javadoc_strings_le6".into(), json!(n));
    // LHS masker: all sequences of <= 5 lines over a 7-line alphabet, with and without trailing newline
    let mut n = 0u64;
    words(&["a\n", "\n", "> b\n", ">\n", "\\begin{code}\n", "\\end{code}\n", " \n"], 5, &mut |s| {
        corr_lhs(rep, s);
        corr_lhs(rep, s.trim_end_matches('\n'));
        n += 2;
    });
    rep.extra.insert("exhaustive_lhs_line_sequences_le5".into(), json!(n));
    // CommentMasker's shebang / ignore filter: all sequences of <= 5 lines over 7 shell line kinds (bash grammar)
    let mut n = 0u64;
    words(SHEBANG_LINES, 5, &mut |s| {
        corr_ts_mask(rep, "shellscript", s);
        corr_ts_mask(rep, "shellscript", s.trim_end_matches('\n'));
        n += 2;
    });
    rep.extra.insert("exhaustive_shebang_line_sequences_le5".into(), json!(n));
    // git-commit cut: all strings of <= 7 over '#', newline, a letter, a blank
    let mut n = 0u64;
    words(&["#", "\n", "a", " "], 7, &mut |s| {
        corr_misc(rep, s);
        n += 1;
    });
    rep.extra.insert("exhaustive_git_strings_le7".into(), json!(n));
    // Mask::parse: every list of <= 3 spans over coordinates 0..5 (well-formed or not) on "a\nb c" (+ a multi-byte twin)
    let mut all = vec![];
    for s in 0..=5usize {
        for e in 0..=5usize {
            if s <= e || (s == e + 1) {
                all.push((s, e));
            }
        }
    }
    let mut n = 0u64;
    for len in 0..=3usize {
        let mut idx = vec![0usize; len];
        loop {
            let spans: Vec<(usize, usize)> = idx.iter().map(|i| all[*i]).collect();
            corr_mask_parse(rep, "a\nb c", &spans, "synth");
            if n % 7 == 0 {
                corr_mask_parse(rep, "é\n値 😀", &spans, "plain");
            }
            n += 1;
            let mut k = 0;
            while k < len {
                idx[k] += 1;
                if idx[k] < all.len() {
                    break;
                }
                idx[k] = 0;
                k += 1;
            }
            if k == len {
                break;
            }
        }
    }
    rep.extra.insert("exhaustive_masks_le3_spans_over_0_5".into(), json!(n));
    // OffsetCursor: all push chains of <= 3 over every byte offset of "aé値😀b"
    let t = "aé値😀b";
    let mut n = 0u64;
    for a in 0..=t.len() + 1 {
        for b in 0..=t.len() + 1 {
            for c in 0..=t.len() + 1 {
                corr_cursor(rep, t, &[a, b, c]);
                n += 1;
            }
        }
    }
    rep.extra.insert("exhaustive_cursor_chains_3".into(), json!(n));
}

pub fn replay_input(rep: &mut Report, v: &Value, dict: &Arc<FstDictionary>) {
    let text = v["text"].as_str().unwrap_or("").to_string();
    match v["kind"].as_str().unwrap_or("") {
        "utf8" => corr_utf8(rep, &text),
        "mask" => corr_ts_mask(rep, v["fe"].as_str().unwrap_or("rust"), &text),
        "maskparse" => {
            let spans: Vec<(usize, usize)> = v["spans"].as_array().map(|a| a.iter().map(|p| (p[0].as_u64().unwrap() as usize, p[1].as_u64().unwrap() as usize)).collect()).unwrap_or_default();
            corr_mask_parse(rep, &text, &spans, v["inner"].as_str().unwrap_or("synth"));
        }
        "lines" => {
            let w = v["which"].as_str().unwrap_or("N").chars().next().unwrap_or('N');
            corr_lines(rep, w, &text, v["inner"].as_str().unwrap_or("synth"));
        }
        "lhs" => corr_lhs(rep, &text),
        "typst" => corr_typst(rep, &text),
        "wrap" => corr_wrappers(rep, v["fe"].as_str().unwrap_or("c:rust"), &text, dict),
        "javadoc" => {
            corr_javadoc(rep, &text);
            corr_lines(rep, 'J', &text, "plain");
        }
        "md" => corr_markdown(rep, &text, v["ilt"].as_bool().unwrap_or(false)),
        "cursor" => {
            let bytes: Vec<usize> = v["bytes"].as_array().map(|a| a.iter().map(|x| x.as_u64().unwrap_or(0) as usize).collect()).unwrap_or_default();
            corr_cursor(rep, &text, &bytes);
        }
        "misc" => corr_misc(rep, &text),
        "reuse" => {
            let versions: Vec<String> = v["versions"].as_array().map(|a| a.iter().map(|x| x.as_str().unwrap_or("").to_string()).collect()).unwrap_or_default();
            // replays written before the call orders existed have no "modes": every step in order 0, as they were found
            let modes: Vec<u8> = match v["modes"].as_array() {
                Some(a) => a.iter().map(|x| x.as_u64().unwrap_or(0) as u8).collect(),
                None => vec![0; versions.len()],
            };
            corr_reuse(rep, v["fe"].as_str().unwrap_or("c:rust"), &versions, Some(&modes), dict);
        }
        "doc" => {
            let fe = v["fe"].as_str().unwrap_or("plain").to_string();
            let mut words: Vec<(usize, String)> = v["words"].as_array().map(|a| a.iter().map(|p| (p[0].as_u64().unwrap() as usize, p[1].as_str().unwrap().to_string())).collect()).unwrap_or_default();
            let mut forbidden: Vec<(usize, usize, String)> = v["forbidden"].as_array().map(|a| a.iter().map(|p| (p[0].as_u64().unwrap() as usize, p[1].as_u64().unwrap() as usize, p[2].as_str().unwrap_or("").to_string())).collect()).unwrap_or_default();
            // hand-written corpus convenience: "auto_words": the prose words in order of appearance (each is searched
            // after the previous one), "auto_forbidden": [[substring, label], ...] (first occurrence each)
            let cs: Vec<char> = text.chars().collect();
            let find = |from: usize, pat: &str| -> Option<usize> {
                let p: Vec<char> = pat.chars().collect();
                (from..=cs.len().saturating_sub(p.len())).find(|i| cs[*i..].starts_with(&p))
            };
            if let Some(a) = v["auto_words"].as_array() {
                let mut from = 0;
                for w in a {
                    let w = w.as_str().unwrap_or("");
                    if let Some(i) = find(from, w) {
                        words.push((i, w.to_string()));
                        from = i + w.chars().count();
                    }
                }
            }
            if let Some(a) = v["auto_forbidden"].as_array() {
                for p in a {
                    let pat = p[0].as_str().unwrap_or("");
                    if let Some(i) = find(0, pat) {
                        forbidden.push((i, i + pat.chars().count(), p[1].as_str().unwrap_or("code").to_string()));
                    }
                }
            }
            let b = Built { fe: fe.clone(), text: text.clone(), words, forbidden };
            oracle(rep, &b, dict);
            let id = fe.strip_prefix("c:").unwrap_or(&fe).to_string();
            corr_ts_mask(rep, &id, &text);
            if fe == "lhaskell" {
                corr_lhs(rep, &text);
            }
            if fe == "gitcommit" {
                corr_misc(rep, &text);
            }
            if fe == "typst" {
                corr_typst(rep, &text);
            }
            if fe.starts_with("markdown") || fe == "gitcommit" {
                corr_markdown(rep, &text, fe == "markdown-ilt");
            }
        }
        _ => {}
    }
}

fn monitor_whitespace(rep: &mut Report) {
    // the table of Model/Mask.v (ws_table) against char::is_whitespace, all scalar values
    let tbl = |c: u32| (9..=13).contains(&c) || c == 32 || c == 133 || c == 160 || c == 5760 || (8192..=8202).contains(&c) || c == 8232 || c == 8233 || c == 8239 || c == 8287 || c == 12288;
    let mut bad = 0u64;
    let mut n = 0u64;
    for c in 0..=0x10FFFFu32 {
        if let Some(ch) = char::from_u32(c) {
            n += 1;
            if ch.is_whitespace() != tbl(c) {
                bad += 1;
            }
        }
    }
    rep.monitor("is_whitespace_table_checked", n);
    if bad > 0 {
        rep.monitor("is_whitespace_table_mismatch", bad);
        fail_limited(rep, "contract_whitespace_table", format!("ws_table differs from char::is_whitespace on {bad} scalar values"), json!({"kind":"none"}));
    }
}

pub fn run(a: &Args, corpus: &[Value]) {
    let mut rep = Report::new(&a.out);
    rep.rule = "corpus; UTF-8 maps on random multi-byte strings (every byte offset); create_mask of TreeSitterMasker (HTML) / CommentMasker (22 languages) vs the model run on the node list dumped with the same grammar; parsers::Mask::parse with fixed masks (well-formed + malformed stream) and recording inner parsers (PlainEnglish, Markdown, synthetic, out-of-contract synthetic); Unit/JsDoc/Go line loops, the whole JsDoc::parse and JavaDoc::parse (inline tags, block tag, @tag window, leader removal; HtmlParser's tokens recorded), LHS masker, ignore condition, git-commit cut; statefulness: long-lived parser/masker instances (generated files, editing sessions with multi-byte heads and equal-length comment<->code replacements) vs fresh instances; search: files constructed per front-end from prose (vocabulary A) and non-prose segments (code, string literals, inline code, fences, math, tags, URLs, ignore-marked comments; multi-byte vocabulary B), random indentation, comment styles, LF/CRLF. non-trivial = distinct file with >=1 prose word, >=1 non-prose segment and multi-byte content".into();
    let dict = FstDictionary::curated();
    for c in corpus {
        replay_input(&mut rep, c, &dict);
    }
    if a.replay.is_some() {
        rep.finish();
        return;
    }
    let mut r = Rng::new(a.seed);
    monitor_whitespace(&mut rep);
    // A. UTF-8
    for _ in 0..a.scale(300, 4000) {
        let t = small_text(&mut r);
        corr_utf8(&mut rep, &t);
    }
    for s in ["", "a", "é", "値", "😀", "\u{7f}\u{80}\u{7ff}\u{800}\u{ffff}\u{10000}\u{10ffff}", "\u{d7ff}\u{e000}"] {
        corr_utf8(&mut rep, s);
    }
    // C. Mask::parse
    for i in 0..a.scale(1500, 20000) {
        let t = small_text(&mut r) + &small_text(&mut r);
        let n = t.chars().count();
        let malformed = i % 6 == 5;
        let m = random_mask(&mut r, n, malformed);
        let inner = r.s(&["synth", "synth", "plain", "markdown", "naughty"]);
        corr_mask_parse(&mut rep, &t, &m, inner);
    }
    // F. line loops
    for _ in 0..a.scale(1000, 12000) {
        let t = comment_text(&mut r);
        let inner = r.s(&["synth", "plain", "markdown"]);
        for w in ['N', 'J', 'G'] {
            corr_lines(&mut rep, w, &t, inner);
        }
        corr_misc(&mut rep, &t);
    }
    // F'. JavaDoc::parse and the whole JsDoc::parse (inline tags, block tags, the @tag window, leader removal)
    for _ in 0..a.scale(1500, 20000) {
        let t = javadoc_text(&mut r);
        corr_javadoc(&mut rep, &t);
        corr_lines(&mut rep, 'J', &t, r.s(&["plain", "plain", "markdown"]));
    }
    // E'. '+ie' / '+ci' over masked front-ends: files whose comments mention identifiers the code defines
    for _ in 0..a.scale(400, 5000) {
        let (fe, t) = ident_file(&mut r);
        corr_wrappers(&mut rep, &fe, &t, &dict);
    }
    for _ in 0..a.scale(200, 3000) {
        let mut t = small_text(&mut r);
        if r.chance(1, 3) {
            t.push_str(r.s(&["harper:ignore", "spellchecker: ignore", "spell-checker:ignore", "spellcheck:ignor", "#!", "harper:  ignore"]));
            t.push_str(&small_text(&mut r));
        }
        corr_misc(&mut rep, &t);
    }
    // D. the shebang / ignore filter of CommentMasker on shell files
    for _ in 0..a.scale(300, 3000) {
        let t = shebang_text(&mut r);
        corr_ts_mask(&mut rep, "shellscript", &t);
    }
    // J. git-commit cut: '#' at line starts and inside lines
    for _ in 0..a.scale(300, 3000) {
        let t: String = (0..r.range(0, 12)).map(|_| r.s(&["#", "#", "\n", "\n", "a", " ", "river", "#12", "é", "\r\n"])).collect();
        corr_misc(&mut rep, &t);
    }
    // I. LHS masker
    for _ in 0..a.scale(1000, 15000) {
        let t = lhs_text(&mut r);
        corr_lhs(&mut rep, &t);
    }
    // G. Typst cursor
    for _ in 0..a.scale(400, 6000) {
        let t = small_text(&mut r);
        let n = t.len();
        let mut bytes: Vec<usize> = (0..r.range(1, 5)).map(|_| r.below(n + 2)).collect();
        if r.chance(4, 5) {
            bytes.sort();
        }
        if r.chance(1, 2) {
            // mostly on char boundaries
            bytes = bytes.into_iter().map(|b| (0..=b.min(n)).rev().find(|i| t.is_char_boundary(*i)).unwrap_or(0)).collect();
        }
        corr_cursor(&mut rep, &t, &bytes);
    }
    // G'. the whole Typst translator over typst-syntax's AST
    for i in 0..a.scale(1200, 15000) {
        let t = match i % 3 {
            0 => build_file("typst", &mut r).text,
            1 => typst_text(&mut r),
            _ => frontends::embed("typst", &mut r),
        };
        let t = if t.chars().count() > 600 { t.chars().take(600).collect() } else { t };
        corr_typst(&mut rep, &t);
    }
    // H. Markdown event streams: constructed files + the shared embed() generator + a malformed stream
    for i in 0..a.scale(400, 8000) {
        let t = match i % 4 {
            0 => build_file("markdown", &mut r).text,
            1 => frontends::embed("markdown", &mut r),
            2 if i % 8 == 2 => small_text(&mut r) + &small_text(&mut r),
            2 => {
                // wikilinks with an empty / present pothole (events that repeat source text: the covered_until guard),
                // empty math and code bodies (a37d1cc), with multi-byte text before them
                let parts = ["[[a|]]", "[[é|]]", "[[river|]] ", "[[値段|]]x", "[[a|b]]", "[[stone]]", "$$$$", "$$ $$", "$$x$$", "$é$", "$$", "``", "` `", "é ", "river ", "値 ", "\n", "\n\n", "# ", "- ", "> ", "*", "[[", "]]", "|", "[[a|", "[[|]]", "[[a|]] [[b|]]", "😀", "<b>", "\t"];
                (0..r.range(1, 8)).map(|_| r.s(&parts)).collect::<String>()
            }
            _ => {
                let parts = ["é ", "値段", "😀", "`", "``", "$", "\n", "\n\n", "# ", "- ", "> ", "*", "**", "[", "](", ")", "<", ">", "&amp;", "\\*", "    ", "\t", "1. ", "~~", "<b>", "</b>", "river ", "stone", "\r\n", "---", "```", "https://a.b/c ", "![", "|", "> \t\t", "- \t\t", ">\t\t", "1.\t\t", "\t\t"];
                (0..r.range(1, 12)).map(|_| r.s(&parts)).collect::<String>()
            }
        };
        let t = if t.chars().count() > 400 { t.chars().take(400).collect() } else { t };
        corr_markdown(&mut rep, &t, r.chance(1, 4));
    }
    if a.thorough() {
        exhaustive(&mut rep);
    }
    // search + create_mask correspondence on constructed files
    let fes = frontends::base_frontends();
    let per_fe = a.scale(250, 4000);
    for fe in fes.iter().filter(|f| f.as_str() != "plain") {
        // one long-lived instance per front-end sees every 4th generated file
        let mut sess = Session::new(fe, &dict);
        for i in 0..per_fe {
            let b = build_file(fe, &mut r);
            if i % 4 == 0 {
                session_step(&mut rep, &mut sess, &b.text, [1u8, 1, 0, 2][(i / 4) % 4], &dict);
            }
            oracle(&mut rep, &b, &dict);
            let id = fe.strip_prefix("c:").unwrap_or(fe).to_string();
            corr_ts_mask(&mut rep, &id, &b.text);
            if fe == "lhaskell" {
                corr_lhs(&mut rep, &b.text);
            }
            if fe.starts_with("markdown") || fe == "gitcommit" {
                corr_markdown(&mut rep, &b.text, fe == "markdown-ilt");
            }
        }
    }
    // editing sessions: every front-end, versions sharing a multi-byte head, equal-length replacements
    let mut rr = r.fork();
    for fe in fes.iter().filter(|f| f.as_str() != "plain") {
        for _ in 0..a.scale(40, 600) {
            let chain = edit_chain(fe, &mut rr);
            corr_reuse(&mut rep, fe, &chain, None, &dict);
        }
    }
    // malformed stream through the maskers (no oracle: correspondence + monitors only)
    for _ in 0..a.scale(600, 12000) {
        let fe = r.pick(&fes).clone();
        let id = fe.strip_prefix("c:").unwrap_or(&fe).to_string();
        let mut t = frontends::embed(&fe, &mut r);
        if t.len() > 1500 {
            t = t.chars().take(600).collect();
        }
        corr_ts_mask(&mut rep, &id, &t);
    }
    rep.finish();
}

fn main() {
    let (args, corpus) = hv::cli();
    run(&args, &corpus);
}
