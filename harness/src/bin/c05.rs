//! C05 — lint results depend only on text, language, dictionary and configuration.
//!
//! Correspondence: histories (set-config | lint document in front-end L) on ONE long-lived
//! `LintGroup`, replayed by the extracted model Model/Cache.v.  The model is given, per step, the
//! document source, the hull span and token structure of every chunk and — as the Section function
//! `pattern_rel` — the implementation's own *uncached* per-chunk results (observed whenever a probe
//! pattern rule sees `run_on_chunk` being executed, i.e. on a real cache miss); it predicts the
//! emitted absolute lints and the hit/miss pattern.  The implementation's hit/miss pattern is
//! observed through the probe rule (a `PatternLinter` added with the public `add_pattern_linter`,
//! whose pattern is only consulted on a miss), so no hook in /repo is needed.
//!
//! Search (property oracle on the implementation): every Lint step of every history is compared
//! with a freshly built linter (same dictionary, dialect, configuration) — spans, kinds, messages,
//! suggestions, priorities and order; on the core `LintGroup` and on `harper_wasm::Linter`
//! (plain + Markdown on one instance); threads and processes.
//!
//! Hypothesis monitors: rule_fun (an uncached per-chunk result is a function of chunk characters,
//! chunk tokens and configuration: never two different observations for one triple), cfg_hash (two
//! configurations that make the same calls on the hasher are equal), tok_hash (two chunks whose
//! tokens make the same calls on the hasher — kinds, spans relative to the chunk start, exactly as
//! LintGroup::lint feeds them — have the same tokens, and vice versa) — the two injectivity
//! hypotheses of C05_refinement.  That the pattern lints of a chunk depend on its tokenisation and
//! not on its characters alone (the former hypothesis H_chunk_fun, false across front-ends) is only
//! counted: since commit a050122 the tokens are part of the key and nothing depends on it.
use harper_core::linting::{Lint, LintGroup, LintGroupConfig, LintKind, Linter, PatternLinter, Suggestion};
use harper_core::patterns::Pattern;
use harper_core::{Dialect, Dictionary, Document, FstDictionary, Lrc, MergedDictionary, MutableDictionary, Span, Token, TokenStringExt, WordMetadata};
use hv::common::*;
use hv::frontends;
use hv::gen;
use serde_json::{json, Value};
use std::collections::{BTreeMap, HashMap};
use std::hash::{Hash, Hasher};
use std::sync::{Arc, Mutex};

// ------------------------------------------------------------------------------------------------
// probes
// ------------------------------------------------------------------------------------------------
const CHUNK_PROBE: &str = "~chunk"; // sorts after every curated rule name: its lint closes each chunk's pattern lints
const STRUCT_END: &str = "~struct_end"; // sorts after every curated struct rule: closes the struct lints
const SPELL_PRE: &str = "SpellChecj~"; // sorts immediately before "SpellCheck"
const SPELL_POST: &str = "SpellCheck~"; // ... and immediately after it
const SENT_SPELL_PRE: &str = "\u{1}spell-pre";
const SENT_SPELL_POST: &str = "\u{1}spell-post";
const SENT_CHUNK: &str = "\u{1}chunk";
const SENT_STRUCT: &str = "\u{1}struct-end";

#[derive(Default)]
struct ProbeState {
    /// address of the first token of every chunk the pattern rules were actually run on (= cache misses), in order
    misses: Vec<usize>,
    prev_ptr: usize,
    prev_len: usize,
}
#[derive(Clone)]
struct ChunkProbe(Arc<Mutex<ProbeState>>);
impl Pattern for ChunkProbe {
    fn matches(&self, tokens: &[Token], _source: &[char]) -> usize {
        // run_on_chunk calls with chunk[cursor..]; we answer 1 at cursor 0 and 0 afterwards, so a
        // call continues the previous one iff it is exactly one token further and one shorter.
        let mut s = self.0.lock().unwrap();
        let ptr = tokens.as_ptr() as usize;
        let cont = s.prev_len == tokens.len() + 1 && ptr == s.prev_ptr + std::mem::size_of::<Token>();
        s.prev_ptr = ptr;
        s.prev_len = tokens.len();
        if cont || tokens.is_empty() {
            0
        } else {
            s.misses.push(ptr);
            1
        }
    }
}
impl PatternLinter for ChunkProbe {
    fn pattern(&self) -> &dyn Pattern {
        self
    }
    fn match_to_lint(&self, matched: &[Token], _source: &[char]) -> Option<Lint> {
        Some(Lint { span: matched[0].span, lint_kind: LintKind::Miscellaneous, suggestions: vec![], message: SENT_CHUNK.to_string(), priority: 255 })
    }
    fn description(&self) -> &str {
        "probe"
    }
}
struct StructEnd(&'static str);
impl Linter for StructEnd {
    fn lint(&mut self, _d: &Document) -> Vec<Lint> {
        vec![Lint { span: Span { start: 0, end: 0 }, lint_kind: LintKind::Miscellaneous, suggestions: vec![], message: self.0.to_string(), priority: 255 }]
    }
    fn description(&self) -> &str {
        "probe"
    }
}


type Dict = Arc<MergedDictionary>;

/// the dictionary handed to a probed linter: delegates everything, and records the word of every
/// `fuzzy_match(word, 2, _)` — the first thing `cached_suggest_correct_spelling` does on a cache MISS
/// (SpellCheck is the only caller of fuzzy_match in harper-core's rules)
struct SpyDict {
    inner: Dict,
    log: Mutex<Vec<Vec<char>>>,
}
impl harper_core::Dictionary for SpyDict {
    fn contains_word(&self, word: &[char]) -> bool {
        self.inner.contains_word(word)
    }
    fn contains_word_str(&self, word: &str) -> bool {
        self.inner.contains_word_str(word)
    }
    fn contains_exact_word(&self, word: &[char]) -> bool {
        self.inner.contains_exact_word(word)
    }
    fn contains_exact_word_str(&self, word: &str) -> bool {
        self.inner.contains_exact_word_str(word)
    }
    fn fuzzy_match(&self, word: &[char], max_distance: u8, max_results: usize) -> Vec<harper_core::spell::FuzzyMatchResult> {
        if max_distance == 2 {
            self.log.lock().unwrap().push(word.to_vec());
        }
        self.inner.fuzzy_match(word, max_distance, max_results)
    }
    fn fuzzy_match_str(&self, word: &str, max_distance: u8, max_results: usize) -> Vec<harper_core::spell::FuzzyMatchResult> {
        self.inner.fuzzy_match_str(word, max_distance, max_results)
    }
    fn get_correct_capitalization_of(&self, word: &[char]) -> Option<&'_ [char]> {
        self.inner.get_correct_capitalization_of(word)
    }
    fn get_word_metadata(&self, word: &[char]) -> Option<&WordMetadata> {
        self.inner.get_word_metadata(word)
    }
    fn get_word_metadata_str(&self, word: &str) -> Option<&WordMetadata> {
        self.inner.get_word_metadata_str(word)
    }
    fn words_iter(&self) -> Box<dyn Iterator<Item = &'_ [char]> + Send + '_> {
        self.inner.words_iter()
    }
    fn word_count(&self) -> usize {
        self.inner.word_count()
    }
    fn get_word_from_id(&self, id: &harper_core::WordId) -> Option<&[char]> {
        self.inner.get_word_from_id(id)
    }
}

struct Probed {
    group: LintGroup,
    probe: Arc<Mutex<ProbeState>>,
    spy: Arc<SpyDict>,
}
fn mk_group(dict: &Dict, dialect: Dialect) -> Probed {
    let spy = Arc::new(SpyDict { inner: dict.clone(), log: Mutex::new(vec![]) });
    let mut group = LintGroup::new_curated(spy.clone(), dialect);
    let probe = Arc::new(Mutex::new(ProbeState::default()));
    assert!(group.add_pattern_linter(CHUNK_PROBE, Box::new(ChunkProbe(probe.clone()))));
    assert!(group.add(STRUCT_END, Box::new(StructEnd(SENT_STRUCT))));
    assert!(group.add(SPELL_PRE, Box::new(StructEnd(SENT_SPELL_PRE))));
    assert!(group.add(SPELL_POST, Box::new(StructEnd(SENT_SPELL_POST))));
    enable_probes(&mut group.config);
    Probed { group, probe, spy }
}
fn enable_probes(c: &mut LintGroupConfig) {
    for k in [CHUNK_PROBE, STRUCT_END, SPELL_PRE, SPELL_POST] {
        c.set_rule_enabled(k, true);
    }
}
impl Probed {
    /// lint; returns (lints, addresses of the chunks that missed the chunk cache, words that missed the spelling cache)
    fn lint(&mut self, doc: &Document) -> Result<(Vec<Lint>, Vec<usize>, Vec<Vec<char>>), String> {
        {
            let mut s = self.probe.lock().unwrap();
            s.misses.clear();
            s.prev_len = 0;
            s.prev_ptr = 0;
        }
        self.spy.log.lock().unwrap().clear();
        let g = &mut self.group;
        let r = guarded(|| g.lint(doc));
        let misses = std::mem::take(&mut self.probe.lock().unwrap().misses);
        let wmiss = std::mem::take(&mut *self.spy.log.lock().unwrap());
        r.map(|l| (l, misses, wmiss))
    }
}

fn mk_dict(user_words: &[String]) -> Dict {
    let mut user = MutableDictionary::new();
    user.extend_words(user_words.iter().map(|w| (w.chars().collect::<harper_core::CharString>(), WordMetadata::default())));
    let mut d = MergedDictionary::new();
    d.add_dictionary(FstDictionary::curated());
    d.add_dictionary(Arc::new(user));
    Arc::new(d)
}
fn mk_doc(fe: &str, text: &str, dict: &Dict) -> Document {
    let source: Vec<char> = text.chars().collect();
    let parser = frontends::make_parser(fe, &source, &FstDictionary::curated());
    Document::new_from_vec(Lrc::new(source), &parser, dict)
}
fn dialect_of(s: &str) -> Dialect {
    match s {
        "British" => Dialect::British,
        "Canadian" => Dialect::Canadian,
        "Australian" => Dialect::Australian,
        _ => Dialect::American,
    }
}

// ------------------------------------------------------------------------------------------------
// histories
// ------------------------------------------------------------------------------------------------
#[derive(Clone, Debug, PartialEq)]
struct CfgSpec {
    base: String, // curated | none | all_on | all_off
    set: BTreeMap<String, Option<bool>>,
}
#[derive(Clone, Debug, PartialEq)]
enum Op {
    Cfg(CfgSpec),
    Lint { fe: String, text: String },
}
#[derive(Clone, Debug)]
struct History {
    target: String, // core | wasm
    dialect: String,
    user_words: Vec<String>,
    ops: Vec<Op>,
}
impl History {
    fn to_json(&self) -> Value {
        let ops: Vec<Value> = self
            .ops
            .iter()
            .map(|o| match o {
                Op::Cfg(c) => json!({"op": "cfg", "base": c.base, "set": c.set}),
                Op::Lint { fe, text } => json!({"op": "lint", "fe": fe, "text": text}),
            })
            .collect();
        json!({"kind": "history", "target": self.target, "dialect": self.dialect, "user_words": self.user_words, "ops": ops})
    }
    fn from_json(v: &Value) -> History {
        let ops = v["ops"]
            .as_array()
            .map(|a| {
                a.iter()
                    .filter_map(|o| match o["op"].as_str() {
                        Some("cfg") => {
                            let mut set = BTreeMap::new();
                            if let Some(m) = o["set"].as_object() {
                                for (k, x) in m {
                                    set.insert(k.clone(), x.as_bool());
                                }
                            }
                            Some(Op::Cfg(CfgSpec { base: o["base"].as_str().unwrap_or("curated").to_string(), set }))
                        }
                        Some("lint") => Some(Op::Lint { fe: o["fe"].as_str().unwrap_or("plain").to_string(), text: o["text"].as_str().unwrap_or("").to_string() }),
                        _ => None,
                    })
                    .collect()
            })
            .unwrap_or_default();
        History {
            target: v["target"].as_str().unwrap_or("core").to_string(),
            dialect: v["dialect"].as_str().unwrap_or("American").to_string(),
            user_words: v["user_words"].as_array().map(|a| a.iter().filter_map(|x| x.as_str().map(|s| s.to_string())).collect()).unwrap_or_default(),
            ops,
        }
    }
}

fn build_cfg(spec: &CfgSpec, all_keys: &[String]) -> LintGroupConfig {
    let mut c = match spec.base.as_str() {
        "none" => LintGroupConfig::default(),
        "all_on" | "all_off" => {
            let mut c = LintGroupConfig::default();
            for k in all_keys {
                c.set_rule_enabled(k, spec.base == "all_on");
            }
            c
        }
        _ => LintGroupConfig::new_curated(),
    };
    for (k, v) in &spec.set {
        match v {
            Some(b) => c.set_rule_enabled(k, *b),
            None => c.unset_rule_enabled(k),
        }
    }
    c
}

/// what `impl Hash for LintGroupConfig` feeds to a hasher — obtained by running that very impl with a
/// recording hasher.  The sequence of CALLS is recorded (each `write` with its length, each `write_u8`):
/// the keyed hasher in use (foldhash) mixes every call separately, so two configurations collide for
/// every seed exactly when their call sequences are equal (probed: concatenation-equal sequences with
/// different call boundaries do NOT collide).
struct RecHasher(Vec<u8>);
impl Hasher for RecHasher {
    fn write(&mut self, b: &[u8]) {
        self.0.push(b'w');
        self.0.extend_from_slice(&(b.len() as u32).to_le_bytes());
        self.0.extend_from_slice(b);
    }
    fn write_u8(&mut self, i: u8) {
        self.0.push(b'b');
        self.0.push(i);
    }
    fn write_u16(&mut self, i: u16) {
        self.0.push(b'1');
        self.0.extend_from_slice(&i.to_le_bytes());
    }
    fn write_u32(&mut self, i: u32) {
        self.0.push(b'3');
        self.0.extend_from_slice(&i.to_le_bytes());
    }
    fn write_u64(&mut self, i: u64) {
        self.0.push(b'6');
        self.0.extend_from_slice(&i.to_le_bytes());
    }
    fn write_u128(&mut self, i: u128) {
        self.0.push(b'8');
        self.0.extend_from_slice(&i.to_le_bytes());
    }
    fn write_usize(&mut self, i: usize) {
        self.0.push(b'z');
        self.0.extend_from_slice(&(i as u64).to_le_bytes());
    }
    fn write_i8(&mut self, i: i8) {
        self.0.push(b'B');
        self.0.push(i as u8);
    }
    fn write_i16(&mut self, i: i16) {
        self.0.push(b'!');
        self.0.extend_from_slice(&i.to_le_bytes());
    }
    fn write_i32(&mut self, i: i32) {
        self.0.push(b'#');
        self.0.extend_from_slice(&i.to_le_bytes());
    }
    fn write_i64(&mut self, i: i64) {
        self.0.push(b'^');
        self.0.extend_from_slice(&i.to_le_bytes());
    }
    fn write_i128(&mut self, i: i128) {
        self.0.push(b'*');
        self.0.extend_from_slice(&i.to_le_bytes());
    }
    fn write_isize(&mut self, i: isize) {
        self.0.push(b'Z');
        self.0.extend_from_slice(&(i as i64).to_le_bytes());
    }
    fn finish(&self) -> u64 {
        0
    }
}
/// what LintGroup::lint feeds to the hasher for a chunk's token hash — the very loop of lint_group.rs,
/// run with the recording hasher: per token its kind, `span.start - chunk_span.start`, `span.end - chunk_span.start`
fn token_hash_stream(chunk: &[Token], chunk_start: usize) -> Vec<u8> {
    let mut h = RecHasher(vec![]);
    for token in chunk {
        token.kind.hash(&mut h);
        token.span.start.wrapping_sub(chunk_start).hash(&mut h);
        token.span.end.wrapping_sub(chunk_start).hash(&mut h);
    }
    h.0
}
fn hash_stream(c: &LintGroupConfig) -> Vec<u8> {
    let mut h = RecHasher(vec![]);
    c.hash(&mut h);
    h.0
}

struct Interner<T: Hash + Eq + Clone> {
    map: HashMap<T, usize>,
}
impl<T: Hash + Eq + Clone> Interner<T> {
    fn new() -> Self {
        Interner { map: HashMap::new() }
    }
    fn id(&mut self, t: &T) -> usize {
        if let Some(i) = self.map.get(t) {
            return *i;
        }
        let i = self.map.len() + 1;
        self.map.insert(t.clone(), i);
        i
    }
}

fn payload(l: &Lint) -> String {
    format!("{:?}|{}|{:?}|{}", l.lint_kind, l.priority, l.suggestions, l.message)
}
fn render(l: &Lint) -> String {
    format!("{}..{} {}", l.span.start, l.span.end, payload(l))
}

/// an observed uncached per-chunk result: (relative start, relative end, payload id)*
type RelLints = Vec<(usize, usize, usize)>;

struct Obs {
    val: RelLints,
    fe: String,
    text: String,
}

/// everything shared by the histories of one run
struct World {
    payloads: Interner<String>,
    toks: Interner<String>,
    kinds: Interner<String>,
    tok_streams: Interner<Vec<u8>>,
    /// tok_hash monitors: hasher input of a chunk's tokens <-> the tokens (kinds, relative spans)
    tok_of_stream: HashMap<usize, (usize, String, String)>,
    stream_of_tok: HashMap<usize, (usize, String, String)>,
    cfgs: Interner<String>,
    streams: Interner<Vec<u8>>,
    stream_of_cfg: HashMap<usize, usize>,
    cfg_of_stream: HashMap<usize, (usize, String)>,
    /// rule_fun: (chars, tokid, cfgid) -> observed uncached result
    table: HashMap<(Vec<char>, usize, usize), Obs>,
    /// chunk_fun: (chars, cfgid) -> first (tokid, result, where)
    by_chars: HashMap<(Vec<char>, usize), (usize, RelLints, String, String)>,
    chunk_fun_reported: std::collections::HashSet<(Vec<char>, usize)>,
    chunk_fun_unused: u64,
    tok_hash_reported: std::collections::HashSet<(usize, usize)>,
    /// spell_fun: (dictionary+dialect id, word) -> payload of the lint an uncached SpellCheck builds
    spell_table: HashMap<(usize, Vec<char>), (usize, String)>,
    dicts: Interner<String>,
    runs: u64,
    all_keys: Vec<String>,
}
impl World {
    fn new() -> World {
        let g = LintGroup::new_curated(FstDictionary::curated(), Dialect::American);
        let all_keys: Vec<String> = {
            let mut k: Vec<String> = g.iter_keys().map(|s| s.to_string()).collect();
            k.sort();
            k.dedup();
            k
        };
        World {
            payloads: Interner::new(),
            toks: Interner::new(),
            kinds: Interner::new(),
            tok_streams: Interner::new(),
            tok_of_stream: HashMap::new(),
            stream_of_tok: HashMap::new(),
            cfgs: Interner::new(),
            streams: Interner::new(),
            stream_of_cfg: HashMap::new(),
            cfg_of_stream: HashMap::new(),
            table: HashMap::new(),
            by_chars: HashMap::new(),
            chunk_fun_reported: Default::default(),
            chunk_fun_unused: 0,
            tok_hash_reported: Default::default(),
            spell_table: HashMap::new(),
            dicts: Interner::new(),
            runs: 0,
            all_keys,
        }
    }
}

struct ChunkInfo {
    hull: Option<Span>,
    first_tok_start: usize,
    /// identity of the chunk's tokens as the rules see them: kinds (Debug) and spans relative to the chunk start
    tokid: usize,
    /// identity of the calls LintGroup::lint makes on the hasher for the token hash of this chunk
    thid: usize,
    /// the tokens for the model: "start end kind-identity" with absolute spans
    tokens: String,
}
fn chunk_infos(w: &mut World, doc: &Document) -> Vec<ChunkInfo> {
    doc.iter_chunks()
        .map(|ch| {
            let hull = ch.span();
            let base = hull.map(|h| h.start).unwrap_or(0);
            let mut s = String::new();
            let mut toks = vec![];
            for t in ch {
                use std::fmt::Write;
                let _ = write!(s, "{}-{}:{:?};", t.span.start.wrapping_sub(base), t.span.end.wrapping_sub(base), t.kind);
                toks.push(format!("{} {} {}", t.span.start, t.span.end, w.kinds.id(&format!("{:?}", t.kind))));
            }
            let thid = w.tok_streams.id(&token_hash_stream(ch, base));
            ChunkInfo { hull, first_tok_start: ch.as_ptr() as usize, tokid: w.toks.id(&s), thid, tokens: toks.join(" ") }
        })
        .collect()
}

/// the struct-rule part of a probed group's output: (rules before SpellCheck incl. the marker, SpellCheck's
/// lints, the marker after it and the rules after SpellCheck incl. the end sentinel)
fn split_struct(pre: &[Lint]) -> Option<(Vec<Lint>, Vec<Lint>, Vec<Lint>)> {
    let a = pre.iter().position(|l| l.message == SENT_SPELL_PRE)?;
    let b = pre.iter().position(|l| l.message == SENT_SPELL_POST)?;
    if b < a {
        return None;
    }
    Some((pre[..=a].to_vec(), pre[a + 1..b].to_vec(), pre[b..].to_vec()))
}
/// split a probed group's output into (struct lints incl. the end sentinel, one group of lints per chunk with a hull)
fn split_output(out: &[Lint]) -> Option<(Vec<Lint>, Vec<Vec<Lint>>)> {
    let pos = out.iter().position(|l| l.message == SENT_STRUCT)?;
    let pre = out[..=pos].to_vec();
    let mut groups = vec![];
    let mut cur = vec![];
    for l in &out[pos + 1..] {
        cur.push(l.clone());
        if l.message == SENT_CHUNK {
            groups.push(std::mem::take(&mut cur));
        }
    }
    if !cur.is_empty() {
        return None;
    }
    Some((pre, groups))
}

/// LRU of capacity `cap`, as the `lru` crate: get promotes, put inserts as most recent and evicts the least recent
struct LruSim {
    cap: usize,
    tick: u64,
    when: HashMap<usize, u64>,
    order: BTreeMap<u64, usize>,
}
impl LruSim {
    fn new(cap: usize) -> Self {
        LruSim { cap, tick: 0, when: HashMap::new(), order: BTreeMap::new() }
    }
    fn get(&mut self, k: usize) -> bool {
        if let Some(t) = self.when.get(&k).copied() {
            self.order.remove(&t);
            self.tick += 1;
            self.order.insert(self.tick, k);
            self.when.insert(k, self.tick);
            true
        } else {
            false
        }
    }
    fn put(&mut self, k: usize) -> Option<usize> {
        let mut ev = None;
        if !self.when.contains_key(&k) && self.when.len() >= self.cap {
            let (t, old) = self.order.iter().next().map(|(t, o)| (*t, *o)).unwrap();
            self.order.remove(&t);
            self.when.remove(&old);
            ev = Some(old);
        }
        if let Some(t) = self.when.get(&k).copied() {
            self.order.remove(&t);
        }
        self.tick += 1;
        self.order.insert(self.tick, k);
        self.when.insert(k, self.tick);
        ev
    }
}

fn lints_line(w: &mut World, ls: &[Lint], base: usize) -> Option<String> {
    let mut v = vec![];
    for l in ls {
        if l.span.start < base || l.span.end < l.span.start {
            return None;
        }
        v.push(format!("{} {} {}", l.span.start - base, l.span.end - base, w.payloads.id(&payload(l))));
    }
    Some(v.join(" "))
}
fn rel_of(w: &mut World, ls: &[Lint], base: usize) -> Option<RelLints> {
    let mut v = vec![];
    for l in ls {
        if l.span.start < base || l.span.end < l.span.start {
            return None;
        }
        v.push((l.span.start - base, l.span.end - base, w.payloads.id(&payload(l))));
    }
    Some(v)
}
fn rel_line(v: &RelLints) -> String {
    v.iter().map(|(a, b, c)| format!("{a} {b} {c}")).collect::<Vec<_>>().join(" ")
}

/// result of one Lint step compared with a fresh linter
struct StepDiff {
    class: String,
    what: String,
}

struct CoreRun {
    dict: Dict,
    dialect: Dialect,
    g: Probed,
    cfgid: usize,
    hashid: usize,
    lru: LruSim,
    keyids: Interner<(Vec<char>, usize, usize)>,
    /// who populated a cache key: (tokid, cfgid, front-end, text)
    populated: HashMap<usize, (usize, usize, String, String)>,
    /// who last populated an entry for (chunk characters, config hash), whatever the tokens: (tokid, front-end)
    populated_chars: HashMap<(Vec<char>, usize), (usize, String)>,
    pending_evict: Vec<usize>,
    evictions: u64,
    dictid: usize,
    user_words: Vec<String>,
}

/// capacity of LintGroup's chunk cache, read from the source (the theorems hold for every capacity; the
/// LRU simulation that produces the model's eviction schedule needs the number)
fn lru_cap() -> usize {
    let src = std::fs::read_to_string("/repo/harper-core/src/linting/lint_group.rs").unwrap_or_default();
    src.split("chunk_pattern_cache: LruCache::new(NonZero::new(").nth(1).and_then(|r| r.split(')').next()).and_then(|n| n.replace('_', "").trim().parse().ok()).unwrap_or(10000)
}

impl CoreRun {
    fn new(w: &mut World, rep: Option<&mut Report>, h: &History) -> CoreRun {
        let dict = mk_dict(&h.user_words);
        let dialect = dialect_of(&h.dialect);
        let g = mk_group(&dict, dialect);
        // spell_fun: the lint an uncached SpellCheck builds is a function of (word, dictionary CONTENTS, dialect) —
        // observations are shared between all histories (= dictionary instances, each with its own hash seeds)
        // with the same dialect and user words.  (Before commit 5a329ea a user dictionary's iteration order
        // leaked into the suggestions — finding FC05a — and the table had to be per instance.)
        w.runs += 1;
        let dictid = w.dicts.id(&format!("{}|{:?}", h.dialect, h.user_words));
        let mut r = CoreRun { dict, dialect, g, cfgid: 0, hashid: 0, lru: LruSim::new(lru_cap()), keyids: Interner::new(), populated: HashMap::new(), populated_chars: HashMap::new(), pending_evict: vec![], evictions: 0, dictid, user_words: h.user_words.clone() };
        if let Some(rep) = rep {
            rep.case("N", "ok");
            r.note_cfg(w, Some(rep));
        } else {
            r.note_cfg(w, None);
        }
        r
    }
    /// intern the current configuration; monitor C05_cfg_hash; tell the model
    fn note_cfg(&mut self, w: &mut World, rep: Option<&mut Report>) {
        let c = &self.g.group.config;
        let js = serde_json::to_string(c).unwrap();
        self.cfgid = w.cfgs.id(&js);
        self.hashid = w.streams.id(&hash_stream(c));
        w.stream_of_cfg.insert(self.cfgid, self.hashid);
        let mut collision = None;
        match w.cfg_of_stream.get(&self.hashid) {
            Some((other, ojs)) if *other != self.cfgid => collision = Some(ojs.clone()),
            Some(_) => {}
            None => {
                w.cfg_of_stream.insert(self.hashid, (self.cfgid, js.clone()));
            }
        }
        if let Some(rep) = rep {
            rep.monitor("cfg_hash:configurations_checked", 1);
            if let Some(ojs) = collision {
                rep.monitor("cfg_hash:VIOLATED", 1);
                rep.fail(
                    "cfg_hash_collision",
                    "two different configurations make identical calls on the hasher (impl Hash for LintGroupConfig): equal cache keys for every seed".to_string(),
                    json!({"kind": "history", "target": "core", "dialect": "American", "user_words": [], "ops": [
                        {"op": "cfg", "base": "none", "set": serde_json::from_str::<Value>(&ojs).unwrap()}, {"op": "lint", "fe": "plain", "text": "we waited with baited breath, it is better then that"},
                        {"op": "cfg", "base": "none", "set": serde_json::from_str::<Value>(&js).unwrap()}, {"op": "lint", "fe": "plain", "text": "we waited with baited breath, it is better then that"}]}),
                );
            }
            rep.case(&format!("C {} {}", self.cfgid, self.hashid), "ok");
        }
    }
    fn set_cfg(&mut self, w: &mut World, rep: Option<&mut Report>, spec: &CfgSpec) {
        let mut c = build_cfg(spec, &w.all_keys);
        enable_probes(&mut c);
        self.g.group.config = c;
        self.note_cfg(w, rep);
    }

    /// one Lint step: run reused and fresh, record the correspondence case, evaluate the oracle
    fn lint(&mut self, w: &mut World, mut rep: Option<&mut Report>, fe: &str, text: &str) -> Result<Option<StepDiff>, String> {
        let dict = self.dict.clone();
        let doc = guarded(|| mk_doc(fe, text, &dict)).map_err(|m| format!("parse panicked: {m}"))?;
        let infos = chunk_infos(w, &doc);
        let (out_g, miss_g, wmiss_g) = self.g.lint(&doc).map_err(|m| format!("lint panicked: {m}"))?;
        let mut f = mk_group(&self.dict, self.dialect);
        f.group.config = self.g.group.config.clone();
        let (out_f, miss_f, wmiss_f) = f.lint(&doc).map_err(|m| format!("fresh lint panicked: {m}"))?;
        let src: Vec<char> = text.chars().collect();

        let with_hull: Vec<&ChunkInfo> = infos.iter().filter(|c| c.hull.is_some()).collect();
        let (Some((pre_g, groups_g)), Some((pre_f, groups_f))) = (split_output(&out_g), split_output(&out_f)) else {
            return Err("probe sentinels missing from the output".into());
        };
        let (Some((spre_g, spell_g, spost_g)), Some((_, spell_f, _))) = (split_struct(&pre_g), split_struct(&pre_f)) else {
            return Err("probe spelling markers missing from the output".into());
        };
        if groups_g.len() != with_hull.len() || groups_f.len() != with_hull.len() {
            return Err(format!("probe: {} / {} chunk sentinels for {} chunks", groups_g.len(), groups_f.len(), with_hull.len()));
        }
        // ---- observations of uncached per-chunk results: rule_fun and chunk_fun monitors ----
        let mut fun_fail: Vec<(String, String, Value)> = vec![];
        for (misses, groups, who) in [(&miss_f, &groups_f, "fresh"), (&miss_g, &groups_g, "reused")] {
            for (ci, grp) in with_hull.iter().zip(groups.iter()) {
                if !misses.contains(&ci.first_tok_start) {
                    continue;
                }
                let hull = ci.hull.unwrap();
                let Some(val) = rel_of(w, grp, hull.start) else {
                    fun_fail.push(("lint_before_chunk".into(), format!("a pattern lint of the chunk at {:?} starts before the chunk ({who} linter)", hull), json!({"kind":"history","target":"core","dialect":format!("{:?}", self.dialect),"user_words":self.user_words,"ops":[{"op":"cfg","base":"none","set":serde_json::to_value(&self.g.group.config).unwrap()},{"op":"lint","fe":fe,"text":text}]})));
                    continue;
                };
                let chars: Vec<char> = src[hull.start..hull.end.min(src.len())].to_vec();
                let tkey = (chars.clone(), ci.tokid, self.cfgid);
                match w.table.get(&tkey) {
                    Some(o) if o.val != val => {
                        fun_fail.push((
                            "rule_not_function".into(),
                            format!(
                                "the pattern lints of chunk {:?} (same characters, same tokens, same configuration) differ between two uncached runs: [{}] in {} {:?} vs [{}] here",
                                chars.iter().collect::<String>(), rel_line(&o.val), o.fe, o.text, rel_line(&val)
                            ),
                            json!({"kind":"history","target":"core","dialect":format!("{:?}", self.dialect),"user_words":self.user_words,"ops":[{"op":"cfg","base":"none","set":serde_json::to_value(&self.g.group.config).unwrap()},{"op":"lint","fe":o.fe,"text":o.text},{"op":"lint","fe":fe,"text":text}]}),
                        ));
                    }
                    Some(_) => {}
                    None => {
                        w.table.insert(tkey, Obs { val: val.clone(), fe: fe.to_string(), text: text.to_string() });
                    }
                }
                // not a hypothesis of anything since commit a050122 (the tokens are part of the key); counted, as
                // evidence that the generators do exercise chunks whose lints depend on the tokenisation
                let ckey = (chars.clone(), self.cfgid);
                match w.by_chars.get(&ckey) {
                    Some((t0, v0, _, _)) if *t0 != ci.tokid && *v0 != val => {
                        if w.chunk_fun_reported.insert(ckey.clone()) {
                            w.chunk_fun_unused += 1;
                        }
                    }
                    Some(_) => {}
                    None => {
                        w.by_chars.insert(ckey, (ci.tokid, val.clone(), fe.to_string(), text.to_string()));
                    }
                }
            }
        }
        // ---- tok_hash monitors: the hasher input of a chunk's token hash and the chunk's tokens determine each other ----
        for ci in &with_hull {
            let two = |fe0: &str, text0: &str| json!({"kind":"history","target":"core","dialect":format!("{:?}", self.dialect),"user_words":self.user_words,"ops":[{"op":"cfg","base":"none","set":serde_json::to_value(&self.g.group.config).unwrap()},{"op":"lint","fe":fe0,"text":text0},{"op":"lint","fe":fe,"text":text}]});
            match w.tok_of_stream.get(&ci.thid) {
                Some((t0, fe0, text0)) if *t0 != ci.tokid => {
                    if w.tok_hash_reported.insert((ci.thid, ci.tokid)) {
                        fun_fail.push(("tok_hash_collision".into(), format!("two chunks with different tokens (kinds / relative spans) make identical calls on the hasher for their token hash: equal cache keys for every seed (first in front-end {fe0}, now in {fe}; chunk at {:?})", ci.hull.unwrap()), two(fe0, text0)));
                    }
                }
                Some(_) => {}
                None => {
                    w.tok_of_stream.insert(ci.thid, (ci.tokid, fe.to_string(), text.to_string()));
                }
            }
            match w.stream_of_tok.get(&ci.tokid) {
                Some((h0, fe0, text0)) if *h0 != ci.thid => {
                    if w.tok_hash_reported.insert((ci.thid, ci.tokid)) {
                        fun_fail.push(("tok_hash_not_function".into(), format!("two chunks with the same tokens (kinds / relative spans) feed different input to the hasher for their token hash (first in front-end {fe0}, now in {fe}; chunk at {:?}): the token hash reads something that is not in the tokens' kinds and relative spans", ci.hull.unwrap()), two(fe0, text0)));
                    }
                }
                Some(_) => {}
                None => {
                    w.stream_of_tok.insert(ci.tokid, (ci.thid, fe.to_string(), text.to_string()));
                }
            }
        }
        // ---- the spelling cache: uncached observations (spell_fun monitor), hit/miss per word of the reused linter ----
        let word_of = |l: &Lint| -> Vec<char> { src[l.span.start.min(src.len())..l.span.end.min(src.len())].to_vec() };
        for (lints, wmiss, _who) in [(&spell_f, &wmiss_f, "fresh"), (&spell_g, &wmiss_g, "reused")] {
            let mut p = 0usize;
            for l in lints.iter() {
                let wd = word_of(l);
                if p < wmiss.len() && wmiss[p] == wd {
                    p += 1;
                    let pid = w.payloads.id(&payload(l));
                    match w.spell_table.get(&(self.dictid, wd.clone())) {
                        Some((p0, t0)) if *p0 != pid => fun_fail.push((
                            "spell_not_function".into(),
                            format!("the lint an uncached SpellCheck builds for the word {:?} differs between two computations with the same dictionary and dialect (first seen in {:?})", wd.iter().collect::<String>(), t0),
                            // two computations = two linters (the first may belong to another history): replayable as an `instances` batch
                            json!({"kind": "instances", "dialect": format!("{:?}", self.dialect), "user_words": self.user_words, "docs": [{"fe": "plain", "text": t0}, {"fe": fe, "text": text}]}),
                        )),
                        Some(_) => {}
                        None => {
                            w.spell_table.insert((self.dictid, wd), (pid, text.to_string()));
                        }
                    }
                }
            }
        }
        let spell_on = self.g.group.config.is_rule_enabled("SpellCheck");
        let mut whm = String::new();
        let mut wfields: Vec<String> = vec![];
        {
            let mut p = 0usize;
            for l in spell_g.iter() {
                let wd = word_of(l);
                let missed = p < wmiss_g.len() && wmiss_g[p] == wd;
                if missed {
                    p += 1;
                }
                whm.push(if missed { 'm' } else { 'h' });
                let known = w.spell_table.get(&(self.dictid, wd)).map(|x| x.0.to_string()).unwrap_or_else(|| "?".into());
                wfields.push(format!("{} {} {}", l.span.start, l.span.end, known));
            }
        }
        // ---- the correspondence case ----
        let mut fields: Vec<String> = vec![];
        let mut hm = String::new();
        let mut diff: Option<StepDiff> = None;
        let mut gi = 0usize;
        for ci in &infos {
            let Some(hull) = ci.hull else {
                if !ci.tokens.is_empty() {
                    return Err("probe: a chunk with tokens has no span".into());
                }
                fields.push("-".into());
                continue;
            };
            let chars: Vec<char> = src[hull.start.min(src.len())..hull.end.min(src.len())].to_vec();
            // the cache key as the code builds it: (chunk characters, config hash, token hash), the hashes by the identity of their input
            let kid = self.keyids.id(&(chars.clone(), self.hashid, ci.thid));
            let evict_before: Vec<String> = std::mem::take(&mut self.pending_evict).iter().map(|k| k.to_string()).collect();
            let missed = miss_g.contains(&ci.first_tok_start);
            hm.push(if missed { 'M' } else { 'H' });
            // LRU bookkeeping (drives the model's eviction schedule)
            if !self.lru.get(kid) {
                if let Some(old) = self.lru.put(kid) {
                    self.pending_evict.push(old);
                    self.evictions += 1;
                }
            }
            let known = w.table.get(&(chars.clone(), ci.tokid, self.cfgid)).map(|o| rel_line(&o.val));
            fields.push(format!("{} {}:{}:{}:{}", kid, ci.thid, known.unwrap_or_else(|| "?".into()), evict_before.join(" "), ci.tokens));
            // diagnosis of a reused/fresh difference on this chunk
            if diff.is_none() && groups_g[gi].iter().map(render).ne(groups_f[gi].iter().map(render)) {
                let shown = chars.iter().collect::<String>();
                let (a, b) = (groups_g[gi].len() - 1, groups_f[gi].len() - 1);
                diff = Some(match self.populated.get(&kid) {
                    Some((t0, c0, fe0, _)) if !missed && *c0 != self.cfgid => StepDiff { class: "stale_config".into(), what: format!("chunk {shown:?}: entry cached under configuration #{c0} (front-end {fe0}) is served under configuration #{} whose hash input is identical: reused linter emits {a} pattern lints, fresh linter {b}", self.cfgid) },
                    Some((t0, _, fe0, _)) if !missed && *t0 != ci.tokid => StepDiff { class: "stale_tokenisation".into(), what: format!("chunk {shown:?}: entry cached under front-end {fe0} is served under front-end {fe} although the chunk's tokens differ: reused linter emits {a} pattern lints, fresh linter {b}") },
                    // a hit under a key (characters, config hash, token hash) this linter never populated: the entry of another tokenisation of the same characters
                    None if !missed => match self.populated_chars.get(&(chars.clone(), self.hashid)) {
                        Some((t0, fe0)) if *t0 != ci.tokid => StepDiff { class: "stale_tokenisation".into(), what: format!("chunk {shown:?}: entry cached under front-end {fe0} is served under front-end {fe} although the chunk's tokens differ (the token hash is part of the key: regression of F11): reused linter emits {a} pattern lints, fresh linter {b}") },
                        _ => StepDiff { class: "reused_ne_fresh".into(), what: format!("chunk {shown:?} (front-end {fe}, cache hit): reused linter emits {a} pattern lints, fresh linter {b}") },
                    },
                    _ => StepDiff { class: "reused_ne_fresh".into(), what: format!("chunk {shown:?} (front-end {fe}, cache {}): reused linter emits {a} pattern lints, fresh linter {b}", if missed { "miss" } else { "hit" }) },
                });
            }
            if missed {
                self.populated.insert(kid, (ci.tokid, self.cfgid, fe.to_string(), text.to_string()));
                self.populated_chars.insert((chars.clone(), self.hashid), (ci.tokid, fe.to_string()));
            }
            gi += 1;
        }
        if diff.is_none() && out_g.iter().map(render).ne(out_f.iter().map(render)) {
            diff = Some(StepDiff { class: "reused_ne_fresh".into(), what: format!("the struct-rule lints of the reused linter differ from a fresh linter's (front-end {fe})") });
        }
        if let Some(rep) = rep.as_deref_mut() {
            for (class, what, input) in fun_fail {
                rep.monitor(&format!("{class}:VIOLATED"), 1);
                rep.fail(&class, what, input);
            }
            rep.monitor("rule_fun:uncached_chunk_results_observed", (miss_f.len() + miss_g.len()) as u64);
            rep.monitor("tok_hash:chunks_checked", with_hull.len() as u64);
            let pre_line = lints_line(w, &spre_g, 0).unwrap_or_default();
            let post_line = lints_line(w, &spost_g, 0).unwrap_or_default();
            let case = format!("L|{}|{}|{}:{}|{}|{}", cps(&src), pre_line, if spell_on { 1 } else { 0 }, wfields.join(";"), post_line, fields.join(";"));
            let impl_line = format!("{}|{}|{}", lints_line(w, &out_g, 0).unwrap_or_else(|| "?".into()), hm, whm);
            rep.count_n("spell_lookups", whm.len() as u64);
            rep.count_n("spell_hits", whm.matches('h').count() as u64);
            rep.case(&case, impl_line.trim());
            rep.count(&format!("chunks:{}", if hm.is_empty() { "none" } else if hm.contains('H') && hm.contains('M') { "hits+misses" } else if hm.contains('H') { "all_hits" } else { "all_misses" }));
            rep.count_n("chunk_lookups", hm.len() as u64);
            rep.count_n("chunk_hits", hm.matches('H').count() as u64);
        }
        Ok(diff)
    }
}

/// run a core history; every Lint step is a correspondence case and an oracle evaluation
fn run_core(w: &mut World, rep: &mut Report, h: &History) {
    let mut run = CoreRun::new(w, Some(rep), h);
    for (i, op) in h.ops.iter().enumerate() {
        match op {
            Op::Cfg(spec) => {
                run.set_cfg(w, Some(rep), spec);
                rep.count("op:cfg");
            }
            Op::Lint { fe, text } => {
                rep.eval();
                rep.count(&format!("op:lint:{fe}"));
                match run.lint(w, Some(rep), fe, text) {
                    Err(m) => {
                        rep.count(&format!("aborted_history({})", m.split(':').next().unwrap_or("")));
                        return;
                    }
                    Ok(None) => {}
                    Ok(Some(d)) => {
                        let mut failing = h.clone();
                        failing.ops.truncate(i + 1);
                        let small = shrink(w, &failing, &d.class);
                        rep.fail(&d.class, d.what, small.to_json());
                    }
                }
                rep.nontrivial(&(fe.clone(), text.clone(), run.cfgid, i));
            }
        }
    }
    rep.count_n("lru:evictions_replayed_by_the_model", run.evictions);
}

/// does the LAST op (a lint) of `h` differ from a fresh linter with class `class`?
fn fails_last(w: &mut World, h: &History, class: &str) -> bool {
    let mut run = CoreRun::new(w, None, h);
    let n = h.ops.len();
    for (i, op) in h.ops.iter().enumerate() {
        match op {
            Op::Cfg(spec) => run.set_cfg(w, None, spec),
            Op::Lint { fe, text } => match run.lint(w, None, fe, text) {
                Err(_) => return false,
                Ok(d) => {
                    if i + 1 == n {
                        return d.map(|d| d.class == class).unwrap_or(false);
                    }
                }
            },
        }
    }
    false
}
/// greedy removal of earlier operations while the last step keeps failing in the same way
fn shrink(w: &mut World, h: &History, class: &str) -> History {
    let mut cur = h.clone();
    let mut budget = 40;
    let mut i = 0;
    while i + 1 < cur.ops.len() && budget > 0 {
        let mut cand = cur.clone();
        cand.ops.remove(i);
        budget -= 1;
        if fails_last(w, &cand, class) {
            cur = cand;
        } else {
            i += 1;
        }
    }
    cur
}


/// a lint as an integration sees it (core and wasm lints are both mapped to this)
#[derive(Clone, Debug, PartialEq, serde::Serialize, serde::Deserialize)]
struct RL {
    start: usize,
    end: usize,
    kind: String,
    prio: u8,
    message: String,
    sugg: Vec<String>,
}
fn rl_of(l: &Lint) -> RL {
    RL {
        start: l.span.start,
        end: l.span.end,
        kind: format!("{:?}", l.lint_kind),
        prio: l.priority,
        message: l.message.clone(),
        sugg: l
            .suggestions
            .iter()
            .map(|s| match s {
                Suggestion::ReplaceWith(c) => format!("replace:{}", c.iter().collect::<String>()),
                Suggestion::InsertAfter(c) => format!("insert:{}", c.iter().collect::<String>()),
                Suggestion::Remove => "remove".to_string(),
            })
            .collect(),
    }
}
fn rl_of_wasm(l: &harper_wasm::Lint) -> RL {
    let sp = l.span();
    RL {
        start: sp.start,
        end: sp.end,
        kind: l.lint_kind(),
        prio: 0,
        message: format!("{} [{}]", l.message(), l.get_problem_text()),
        sugg: l.suggestions().iter().map(|s| format!("{}:{}", format!("{:?}", s.kind()).to_lowercase(), s.get_replacement_text())).collect(),
    }
}
/// Why do two answers differ?  Returns (class, description).  The class is
/// `nondet_user_dict_suggestions` exactly when the two lists agree in everything but the suggestion lists
/// of spelling lints, and each of those differing lists offers a word of the user dictionary.
fn explain_diff(a: &[RL], b: &[RL], user_words: &[String], default_class: &str) -> (String, String) {
    let is_user = |s: &String| {
        let w = s.split(':').nth(1).unwrap_or("").to_lowercase();
        user_words.iter().any(|u| u.to_lowercase() == w)
    };
    if a.len() == b.len() {
        let mut only_sugg = true;
        let mut desc = vec![];
        for (x, y) in a.iter().zip(b) {
            if x == y {
                continue;
            }
            let same_but_sugg = x.start == y.start && x.end == y.end && x.kind == y.kind && x.prio == y.prio && x.message == y.message;
            if same_but_sugg && x.kind.starts_with("Spelling") && x.sugg.iter().any(is_user) && y.sugg.iter().any(is_user) {
                desc.push(format!("spelling lint {}..{} {:?}: suggestions {:?} vs {:?}", x.start, x.end, x.message, x.sugg, y.sugg));
            } else {
                only_sugg = false;
                desc.push(format!("{:?} vs {:?}", x, y));
            }
        }
        if only_sugg && !desc.is_empty() {
            return ("nondet_user_dict_suggestions".into(), format!("same lints, but the suggestions drawn from the user dictionary differ (selection and order among equidistant candidates): {}", desc.join("; ")));
        }
        return (default_class.into(), desc.join("; "));
    }
    let only_a: Vec<&RL> = a.iter().filter(|x| !b.contains(x)).collect();
    let only_b: Vec<&RL> = b.iter().filter(|x| !a.contains(x)).collect();
    (default_class.into(), format!("{} lints vs {}; only in the first: {:?}; only in the second: {:?}", a.len(), b.len(), only_a, only_b))
}

// ------------------------------------------------------------------------------------------------
// harper_wasm::Linter: one instance serving plain text and Markdown (oracle only)
// ------------------------------------------------------------------------------------------------
fn wasm_lang(fe: &str) -> harper_wasm::Language {
    if fe == "markdown" { harper_wasm::Language::Markdown } else { harper_wasm::Language::Plain }
}
fn wasm_dialect(s: &str) -> harper_wasm::Dialect {
    match s {
        "British" => harper_wasm::Dialect::British,
        "Canadian" => harper_wasm::Dialect::Canadian,
        "Australian" => harper_wasm::Dialect::Australian,
        _ => harper_wasm::Dialect::American,
    }
}
fn wasm_render(ls: &[harper_wasm::Lint]) -> Vec<RL> {
    ls.iter().map(rl_of_wasm).collect()
}
/// first Lint step of a wasm history whose answer differs from a freshly built Linter: (index, class, what)
fn wasm_first_failure(w: &World, h: &History, mut on_step: impl FnMut(bool)) -> Option<(usize, String, String)> {
    let mut lt = harper_wasm::Linter::new(wasm_dialect(&h.dialect));
    if !h.user_words.is_empty() {
        lt.import_words(h.user_words.clone());
    }
    let mut prev_fe: Option<String> = None;
    for (i, op) in h.ops.iter().enumerate() {
        match op {
            Op::Cfg(spec) => {
                let c = build_cfg(spec, &w.all_keys);
                let _ = lt.set_lint_config_from_json(serde_json::to_string(&c).unwrap());
            }
            Op::Lint { fe, text } => {
                let reused = guarded(|| wasm_render(&lt.lint(text.clone(), wasm_lang(fe))));
                let cfg_json = lt.get_lint_config_as_json();
                let words = h.user_words.clone();
                let dialect = wasm_dialect(&h.dialect);
                let fresh = guarded(|| {
                    let mut f = harper_wasm::Linter::new(dialect);
                    if !words.is_empty() {
                        f.import_words(words);
                    }
                    let _ = f.set_lint_config_from_json(cfg_json);
                    wasm_render(&f.lint(text.clone(), wasm_lang(fe)))
                });
                let (Ok(a), Ok(b)) = (reused, fresh) else { return None };
                on_step(!a.is_empty());
                if a != b {
                    let tag = format!("wasm[{}->{}]", prev_fe.clone().unwrap_or_else(|| "none".into()), fe);
                    let (class, d) = explain_diff(&a, &b, &h.user_words, "wasm_reused_ne_fresh");
                    return Some((i, class, format!("{tag} the long-lived harper_wasm::Linter and a freshly built one disagree: {d}")));
                }
                prev_fe = Some(fe.clone());
            }
        }
    }
    None
}
fn run_wasm(w: &mut World, rep: &mut Report, h: &History) {
    let mut steps = 0u64;
    let mut with_lints = 0u64;
    let r = wasm_first_failure(w, h, |nonempty| {
        steps += 1;
        if nonempty {
            with_lints += 1;
        }
    });
    rep.evaluations += steps;
    rep.count_n("wasm:lint_steps", steps);
    rep.count_n("wasm:lint_steps_with_lints", with_lints);
    rep.nontrivial(&format!("{:?}", h.ops));
    if let Some((i, class, _)) = r {
        let class0 = class.clone();
        let mut cur = h.clone();
        cur.ops.truncate(i + 1);
        let mut j = 0;
        let mut budget = 30;
        while j + 1 < cur.ops.len() && budget > 0 {
            let mut cand = cur.clone();
            cand.ops.remove(j);
            budget -= 1;
            let n = cand.ops.len();
            if matches!(wasm_first_failure(w, &cand, |_| {}), Some((k, c, _)) if k + 1 == n && c == class0) {
                cur = cand;
            } else {
                j += 1;
            }
        }
        let what = wasm_first_failure(w, &cur, |_| {}).map(|x| x.2).unwrap_or_default();
        rep.fail(&class, what, cur.to_json());
    }
}

// ------------------------------------------------------------------------------------------------
// threads and processes
// ------------------------------------------------------------------------------------------------
#[derive(Clone)]
struct Batch {
    dialect: String,
    user_words: Vec<String>,
    docs: Vec<(String, String)>,
}
impl Batch {
    fn to_json(&self, kind: &str) -> Value {
        json!({"kind": kind, "dialect": self.dialect, "user_words": self.user_words, "docs": self.docs.iter().map(|(f, t)| json!({"fe": f, "text": t})).collect::<Vec<_>>()})
    }
    fn from_json(v: &Value) -> Batch {
        Batch {
            dialect: v["dialect"].as_str().unwrap_or("American").to_string(),
            user_words: v["user_words"].as_array().map(|a| a.iter().filter_map(|x| x.as_str().map(|s| s.to_string())).collect()).unwrap_or_default(),
            docs: v["docs"].as_array().map(|a| a.iter().map(|d| (d["fe"].as_str().unwrap_or("plain").to_string(), d["text"].as_str().unwrap_or("").to_string())).collect()).unwrap_or_default(),
        }
    }
    /// lint every document with one linter built here (dictionary, documents and linter all created by the caller's thread)
    fn lint_all(&self) -> Vec<Vec<RL>> {
        let dict = mk_dict(&self.user_words);
        let mut g = LintGroup::new_curated(dict.clone(), dialect_of(&self.dialect));
        self.docs
            .iter()
            .map(|(fe, text)| match guarded(|| g.lint(&mk_doc(fe, text, &dict))) {
                Ok(l) => l.iter().map(rl_of).collect(),
                Err(m) => vec![panic_rl(&m)],
            })
            .collect()
    }
}
fn panic_rl(m: &str) -> RL {
    RL { start: 0, end: 0, kind: "PANIC".into(), prio: 0, message: m.to_string(), sugg: vec![] }
}
fn first_diff(a: &[Vec<RL>], b: &[Vec<RL>]) -> Option<usize> {
    (0..a.len().max(b.len())).find(|i| a.get(*i) != b.get(*i))
}
fn check_threads(rep: &mut Report, b: &Batch) {
    let base = b.lint_all();
    rep.evaluations += b.docs.len() as u64;
    // (a) eight independent linters, concurrently, each built by its own thread
    let results: Vec<Vec<Vec<RL>>> = std::thread::scope(|s| {
        let hs: Vec<_> = (0..8).map(|_| s.spawn(|| b.lint_all())).collect();
        hs.into_iter().map(|h| h.join().unwrap_or_default()).collect()
    });
    let mut seen: std::collections::HashSet<String> = Default::default();
    for (t, r) in results.iter().enumerate() {
        for i in 0..base.len().max(r.len()) {
            if base.get(i) == r.get(i) {
                continue;
            }
            let (class, d) = explain_diff(r.get(i).map(|v| &v[..]).unwrap_or(&[]), base.get(i).map(|v| &v[..]).unwrap_or(&[]), &b.user_words, "thread_dependent");
            if seen.insert(class.clone()) {
                let one = Batch { dialect: b.dialect.clone(), user_words: b.user_words.clone(), docs: vec![b.docs[i.min(b.docs.len() - 1)].clone()] };
                rep.fail(&class, format!("[threads] a document gets different lints from a linter built and run on thread {t} than from one built and run on the main thread: {d}"), one.to_json("threads"));
            }
        }
    }
    // (b) ONE long-lived linter handed from thread to thread, one document per thread in turn — compared
    // with a second linter over the SAME dictionary instance that stays on this thread
    let dict = mk_dict(&b.user_words);
    let mut stay = LintGroup::new_curated(dict.clone(), dialect_of(&b.dialect));
    let group = Mutex::new(LintGroup::new_curated(dict.clone(), dialect_of(&b.dialect)));
    for (i, (fe, text)) in b.docs.iter().enumerate() {
        let here: Vec<RL> = match guarded(|| stay.lint(&mk_doc(fe, text, &dict))) {
            Ok(l) => l.iter().map(rl_of).collect(),
            Err(m) => vec![panic_rl(&m)],
        };
        let there: Vec<RL> = std::thread::scope(|s| {
            s.spawn(|| {
                let mut g = group.lock().unwrap();
                match guarded(|| g.lint(&mk_doc(fe, text, &dict))) {
                    Ok(l) => l.iter().map(rl_of).collect::<Vec<_>>(),
                    Err(m) => vec![panic_rl(&m)],
                }
            })
            .join()
            .unwrap_or_default()
        });
        if here != there {
            let (class, d) = explain_diff(&there, &here, &b.user_words, "thread_dependent");
            if seen.insert(format!("b:{class}")) {
                let one = Batch { dialect: b.dialect.clone(), user_words: b.user_words.clone(), docs: b.docs[..=i].to_vec() };
                rep.fail(&class, format!("[threads] a document gets different lints when the one long-lived linter is handed from thread to thread (same dictionary instance): {d}"), one.to_json("threads"));
            }
        }
    }
    rep.count_n("threads:documents_x9_threads", b.docs.len() as u64);
    rep.monitor("thread_independence:documents_compared", (b.docs.len() * 9) as u64);
}
/// the same documents on several linters, each built from scratch on this thread (own dictionary instances with
/// their own hash seeds): LintGroup x5 and harper_wasm::Linter x3 (plain / Markdown by the document's front-end)
fn check_instances(rep: &mut Report, b: &Batch) {
    let base = b.lint_all();
    rep.evaluations += b.docs.len() as u64;
    let mut seen: std::collections::HashSet<String> = Default::default();
    for k in 1..5 {
        let r = b.lint_all();
        for i in 0..base.len().max(r.len()) {
            if base.get(i) == r.get(i) {
                continue;
            }
            let (class, d) = explain_diff(r.get(i).map(|v| &v[..]).unwrap_or(&[]), base.get(i).map(|v| &v[..]).unwrap_or(&[]), &b.user_words, "instance_dependent");
            if seen.insert(class.clone()) {
                let one = Batch { dialect: b.dialect.clone(), user_words: b.user_words.clone(), docs: vec![b.docs[i.min(b.docs.len() - 1)].clone()] };
                rep.fail(&class, format!("[instances] a document gets different lints from linter #{k} than from linter #0, both built the same way (same dictionary contents, dialect, configuration) on one thread: {d}"), one.to_json("instances"));
            }
        }
    }
    let wasm_all = || -> Vec<Vec<RL>> {
        let mut lt = harper_wasm::Linter::new(wasm_dialect(&b.dialect));
        if !b.user_words.is_empty() {
            lt.import_words(b.user_words.clone());
        }
        b.docs.iter().map(|(fe, text)| guarded(|| wasm_render(&lt.lint(text.clone(), wasm_lang(fe)))).unwrap_or_else(|m| vec![panic_rl(&m)])).collect()
    };
    let wbase = wasm_all();
    for k in 1..3 {
        let r = wasm_all();
        for i in 0..wbase.len().max(r.len()) {
            if wbase.get(i) == r.get(i) {
                continue;
            }
            let (class, d) = explain_diff(r.get(i).map(|v| &v[..]).unwrap_or(&[]), wbase.get(i).map(|v| &v[..]).unwrap_or(&[]), &b.user_words, "instance_dependent");
            if seen.insert(format!("wasm:{class}")) {
                let one = Batch { dialect: b.dialect.clone(), user_words: b.user_words.clone(), docs: vec![b.docs[i.min(b.docs.len() - 1)].clone()] };
                rep.fail(&class, format!("[instances] a document gets different lints from harper_wasm::Linter #{k} than from #0, both built the same way: {d}"), one.to_json("instances"));
            }
        }
    }
    rep.count_n("instances:documents_x5_linters_x3_wasm_linters", b.docs.len() as u64);
    rep.monitor("instance_independence:documents_compared", (b.docs.len() * 6) as u64);
}
fn child_main(path: &str) {
    hv::common::install_panic_hook();
    let v: Value = serde_json::from_str(&std::fs::read_to_string(path).unwrap_or_default()).unwrap_or(Value::Null);
    let b = Batch::from_json(&v);
    println!("{}", serde_json::to_string(&b.lint_all()).unwrap());
}
fn check_processes(rep: &mut Report, b: &Batch, out_dir: &str) {
    let base = b.lint_all();
    rep.evaluations += b.docs.len() as u64;
    let path = format!("{out_dir}/procs-input.json");
    std::fs::write(&path, serde_json::to_string(&b.to_json("procs")).unwrap()).unwrap();
    let exe = std::env::current_exe().unwrap();
    let mut seen: std::collections::HashSet<String> = Default::default();
    let children: Vec<_> = (0..3).map(|_| std::process::Command::new(&exe).env("C05_CHILD", &path).stdout(std::process::Stdio::piped()).spawn()).collect();
    for (k, c) in children.into_iter().enumerate() {
        let Ok(c) = c else {
            rep.count("procs:spawn_failed");
            continue;
        };
        let out = c.wait_with_output().map(|o| String::from_utf8_lossy(&o.stdout).to_string()).unwrap_or_default();
        let r: Vec<Vec<RL>> = serde_json::from_str(out.trim()).unwrap_or_default();
        for i in 0..base.len().max(r.len()) {
            if base.get(i) == r.get(i) {
                continue;
            }
            let (class, d) = explain_diff(r.get(i).map(|v| &v[..]).unwrap_or(&[]), base.get(i).map(|v| &v[..]).unwrap_or(&[]), &b.user_words, "process_dependent");
            if seen.insert(class.clone()) {
                let one = Batch { dialect: b.dialect.clone(), user_words: b.user_words.clone(), docs: vec![b.docs[i.min(b.docs.len() - 1)].clone()] };
                rep.fail(&class, format!("[procs] a document gets different lints in child process {k} than in this process: {d}"), one.to_json("procs"));
            }
        }
    }
    rep.count_n("procs:documents_x3_processes", b.docs.len() as u64);
    rep.monitor("process_independence:documents_compared", (b.docs.len() * 3) as u64);
}

// ------------------------------------------------------------------------------------------------
// generators
// ------------------------------------------------------------------------------------------------
const CORE_FES: &[&str] = &["plain", "plain", "plain", "markdown", "markdown", "markdown-ilt", "html", "typst", "gitcommit", "c:rust", "c:python", "lhaskell"];
/// clauses whose characters mean different things to different parsers (markup inside)
const MARKUP_CLAUSES: &[&str] = &[
    "we waited with `baited breath` today",
    "it was a `case and point` really",
    "this is *an other* matter",
    "the <b>an other</b> day",
    "we saw it at [the the](http://ex.com/a_b) place",
    "a _all of the sudden_ it broke",
    "so # nip it in the butt now",
    "in **alot** of cases",
    "he did it on accident `on accident` twice",
    "for all intensive purposes \\[sic\\] it works",
    "> and than he left",
    "it's a `teh` typo",
];
/// misspellings close to proper nouns: their suggestions depend on the casing of the misspelt word, so the
/// spelling cache must keep the casings apart
const CASED_MISSPELT: &[&str] = &["teh", "jhon", "micheal", "londn", "pariss", "amercia", "germny", "mondy", "frane", "eurpe", "chna", "marc", "tuesdy", "novmber", "bosten"];
fn recase(r: &mut Rng, w: &str) -> String {
    match r.below(3) {
        0 => w.to_string(),
        1 => gen::capitalize(w),
        _ => w.to_uppercase(),
    }
}
fn gen_cfg(r: &mut Rng, w: &World) -> CfgSpec {
    let mut set = BTreeMap::new();
    for _ in 0..r.below(8) {
        let k = if r.chance(1, 10) { format!("Unknown{}", r.below(3)) } else { r.pick(&w.all_keys[..]).clone() };
        set.insert(k, match r.below(3) { 0 => Some(true), 1 => Some(false), _ => None });
    }
    CfgSpec { base: r.s(&["curated", "curated", "curated", "all_on", "all_on", "none", "all_off"]).to_string(), set }
}
/// a pool of clauses a history draws from, so that clauses recur at other offsets, under other
/// configurations and in other languages
fn clause_pool(r: &mut Rng) -> Vec<String> {
    let mut pool: Vec<String> = vec![];
    for _ in 0..r.range(3, 7) {
        let c = match r.below(4) {
            0 => gen::clean_sentence(r).trim_end_matches('.').to_lowercase(),
            1 => {
                let c = gen::any_construct(r);
                format!("{} {c} {}", r.s(gen::COMMON), r.s(gen::COMMON))
            }
            2 => format!("{} {} {}", r.s(gen::COMMON), r.s(gen::TRIGGERS), r.s(gen::MISSPELT)),
            _ => gen::sentence(r),
        };
        pool.push(c);
    }
    for _ in 0..r.range(1, 3) {
        pool.push(r.s(MARKUP_CLAUSES).to_string());
    }
    // a family of clauses sharing a long prefix and the whole token structure (kinds, metadata, spans) that differ
    // only in characters far from the start: the casing of a trigger phrase (suggestions copy the casing of the
    // text they replace), or an unknown word against another of the same length — the key must hold ALL the
    // characters of the chunk, the token hash alone does not tell such clauses apart
    if r.chance(1, 2) {
        let mut prefix = String::new();
        while prefix.chars().count() < 26 {
            if !prefix.is_empty() {
                prefix.push(' ');
            }
            prefix.push_str(r.s(gen::COMMON));
        }
        let trig = r.s(&["better then that", "more then that", "could of been", "should of gone", "an other thing", "case and point", "baited breath", "on accident", "alot of them"]);
        for _ in 0..r.range(2, 3) {
            let cased: Vec<String> = trig.split(' ').map(|wd| recase(r, wd)).collect();
            pool.push(format!("{prefix} {}", cased.join(" ")));
        }
        let unk = r.s(&["qzxv", "wrod", "teh"]);
        pool.push(format!("{prefix} {unk} {trig}"));
        let mut other: Vec<char> = unk.chars().collect();
        other.swap(0, 1);
        pool.push(format!("{prefix} {} {trig}", other.iter().collect::<String>()));
    }
    // one misspelling in several casings (the pool is shared by all documents of a history)
    let m = r.s(CASED_MISSPELT);
    for _ in 0..r.range(2, 3) {
        let c = recase(r, m);
        pool.push(format!("{} {c} {}", r.s(gen::COMMON), r.s(gen::COMMON)));
    }
    pool
}
fn text_from_pool(r: &mut Rng, pool: &[String]) -> String {
    let k = r.range(1, 5);
    let mut text = String::new();
    if r.chance(1, 4) {
        text.push_str(r.s(&["Well, ", "  ", "\n", "é𝒜, ", "So: "]));
    }
    for i in 0..k {
        if i > 0 {
            text.push_str(r.s(&[", ", ", ", ". ", "; ", ": ", ".\n\n", ",\n", " \u{2014} ", "! "]));
        }
        let c = r.pick(pool).clone();
        text.push_str(&c);
    }
    text.push_str(r.s(&["", ".", ".", "!", ",", "\n"]));
    text
}
fn gen_history(r: &mut Rng, w: &World, target: &str) -> History {
    let n = r.range(3, 10);
    let mut ops = vec![];
    let mut pool = clause_pool(r);
    // a user dictionary holding more equidistant candidates than SpellCheck shows, and clauses misspelling them:
    // which candidates are offered, in which order, must not depend on the dictionary instance (FC05a)
    let user_words: Vec<String> = if r.chance(1, 5) { vec!["zorbla".to_string(), "zorblb".into(), "zorblc".into(), "zorbld".into()] } else { vec![] };
    if !user_words.is_empty() {
        for _ in 0..r.range(1, 2) {
            pool.push(format!("{} {} {}", r.s(gen::COMMON), r.s(&["zorgle", "zorblx", "Zorbl", "zorblaa", "zorble"]), r.s(gen::COMMON)));
        }
    }
    let mut cfgs: Vec<CfgSpec> = vec![];
    let mut texts: Vec<String> = vec![];
    for _ in 0..n {
        if r.chance(1, 4) {
            // toggle: a new configuration, or back to one used before
            let c = if !cfgs.is_empty() && r.chance(1, 2) { r.pick(&cfgs[..]).clone() } else { gen_cfg(r, w) };
            cfgs.push(c.clone());
            ops.push(Op::Cfg(c));
        } else {
            // a new document from the pool, or one linted before (possibly in another language)
            let text = if !texts.is_empty() && r.chance(1, 3) { r.pick(&texts[..]).clone() } else { text_from_pool(r, &pool) };
            texts.push(text.clone());
            let fe = if target == "wasm" { r.s(&["plain", "markdown"]) } else { r.s(CORE_FES) };
            let text = match fe {
                "html" if r.chance(1, 2) => format!("<p>{text}</p>"),
                "c:rust" => text.lines().map(|l| format!("// {l}")).collect::<Vec<_>>().join("\n"),
                "c:python" => text.lines().map(|l| format!("# {l}")).collect::<Vec<_>>().join("\n"),
                _ => text,
            };
            ops.push(Op::Lint { fe: fe.to_string(), text });
        }
    }
    History { target: target.into(), dialect: r.s(&["American", "American", "British", "Canadian", "Australian"]).to_string(), user_words, ops }
}
fn gen_batch(r: &mut Rng, n: usize, with_user_words: bool) -> Batch {
    let pool = clause_pool(r);
    let mut docs = vec![];
    for i in 0..n {
        let mut text = if i % 3 == 0 { gen::any_text(r) } else { text_from_pool(r, &pool) };
        if i % 2 == 0 {
            // misspellings with several equidistant candidates in the user dictionary and in the curated one
            text.push_str(r.s(&[" zorblx zorbl", " Zorblx teh", " wrod zorble", " zorblaa recieve"]));
        }
        docs.push((r.s(&["plain", "plain", "markdown"]).to_string(), text));
    }
    let user_words = if with_user_words { vec!["zorbla".into(), "zorblb".into(), "zorblc".into(), "zorbld".into(), "zorblé".into()] } else { vec![] };
    Batch { dialect: r.s(&["American", "British"]).to_string(), user_words, docs }
}

/// more than 10 000 (the LRU capacity) distinct clauses on one linter, with early documents revisited: some of their
/// clauses are still cached (kept alive by a revisit), others were evicted
fn eviction_history(r: &mut Rng, docs: usize, per_doc: usize) -> History {
    let mut ops = vec![];
    let mk = |d: usize, r: &mut Rng| -> String {
        let mut t = String::new();
        for k in 0..per_doc {
            let _ = r;
            t.push_str(&format!("the {} item{} number {} is better then {}", gen::COMMON[(d * 7 + k) % gen::COMMON.len()], if k % 2 == 0 { "" } else { "s" }, d * per_doc + k, gen::COMMON[(d + k) % gen::COMMON.len()]));
            t.push_str(if k + 1 == per_doc { "." } else { ", " });
        }
        t
    };
    let first = mk(0, r);
    let second = mk(1, r);
    for d in 0..docs {
        let t = mk(d, r);
        ops.push(Op::Lint { fe: if d % 5 == 4 { "markdown".into() } else { "plain".into() }, text: t });
        if d % 60 == 59 {
            ops.push(Op::Lint { fe: "plain".into(), text: first.clone() }); // kept alive
        }
    }
    ops.push(Op::Lint { fe: "plain".into(), text: second }); // long evicted
    ops.push(Op::Lint { fe: "plain".into(), text: first });
    History { target: "core".into(), dialect: "American".into(), user_words: vec![], ops }
}

/// configurations built to feed identical bytes to the hasher (malformed stream: rule names with control bytes)
fn colliding_cfg_history(r: &mut Rng, w: &World) -> History {
    let rule = r.s(&["BaitedBreath", "ThenThan", "CaseInPoint", "AnotherThing", "OnAccident"]).to_string();
    let pre = r.s(&["A", "Aa", "0"]).to_string();
    let _ = w;
    let mut a = BTreeMap::new();
    a.insert(pre.clone(), Some(false));
    a.insert(rule.clone(), Some(true));
    let mut b = BTreeMap::new();
    b.insert(format!("{pre}\u{1}\u{0}{rule}"), Some(true));
    let text = "we waited with baited breath and he is taller then me, in case and point an other thing happened on accident".to_string();
    let (first, second) = if r.chance(1, 2) { (a, b) } else { (b, a) };
    History {
        target: "core".into(),
        dialect: "American".into(),
        user_words: vec![],
        ops: vec![Op::Cfg(CfgSpec { base: "none".into(), set: first }), Op::Lint { fe: "plain".into(), text: text.clone() }, Op::Cfg(CfgSpec { base: "none".into(), set: second }), Op::Lint { fe: "plain".into(), text }],
    }
}

fn run_input(w: &mut World, rep: &mut Report, v: &Value, out_dir: &str) {
    match v["kind"].as_str() {
        Some("history") => {
            let h = History::from_json(v);
            if h.target == "wasm" {
                run_wasm(w, rep, &h);
            } else {
                run_core(w, rep, &h);
            }
        }
        Some("threads") => check_threads(rep, &Batch::from_json(v)),
        Some("procs") => check_processes(rep, &Batch::from_json(v), out_dir),
        Some("instances") => check_instances(rep, &Batch::from_json(v)),
        _ => rep.count("corpus:unknown_kind"),
    }
}

fn main() {
    if let Ok(p) = std::env::var("C05_CHILD") {
        child_main(&p);
        return;
    }
    let (args, corpus) = hv::cli();
    let mut rep = Report::new(&args.out);
    rep.rule = "histories of (set-config | lint document in front-end L) on ONE long-lived LintGroup: every Lint step compared with a freshly built linter (spans, kinds, messages, suggestions, priorities, order) and replayed by the extracted cache model (emitted lints + hit/miss per chunk, hits observed through a probe rule); documents draw clauses from a per-history pool so that clauses recur at other offsets, in other front-ends (plain, Markdown x2, HTML, Typst, git-commit, Rust/Python comments, literate Haskell), under toggled and re-toggled configurations; one history with > 10 000 distinct clauses (LRU eviction, replayed through an LRU simulation); configurations built to collide in the hasher input (malformed stream); the same histories on harper_wasm::Linter (plain + Markdown on one instance); the same documents on 8 threads (independent linters, and one linter handed round), in 3 child processes and on 5 + 3 linters built the same way on one thread (LintGroup, harper_wasm::Linter), with a user dictionary holding more equidistant candidates than are shown. non-trivial = distinct (front-end, text, configuration, position in history)".into();
    let mut w = World::new();
    for c in &corpus {
        run_input(&mut w, &mut rep, c, &args.out);
    }
    if args.replay.is_some() {
        rep.finish();
        return;
    }
    let mut r = Rng::new(args.seed);
    for _ in 0..args.scale(160, 900) {
        let h = gen_history(&mut r, &w, "core");
        run_core(&mut w, &mut rep, &h);
    }
    for _ in 0..args.scale(3, 12) {
        let h = colliding_cfg_history(&mut r, &w);
        run_core(&mut w, &mut rep, &h);
    }
    for _ in 0..args.scale(50, 300) {
        let h = gen_history(&mut r, &w, "wasm");
        run_wasm(&mut w, &mut rep, &h);
    }
    if args.thorough() {
        // > 10 000 distinct clauses on one linter (LruCache capacity): evictions happen in the implementation
        // and are replayed by the model through the LRU simulation
        let h = eviction_history(&mut r, 400, 40);
        run_core(&mut w, &mut rep, &h);
    }
    for i in 0..args.scale(2, 12) {
        let b = gen_batch(&mut r, args.scale(12, 40), i % 2 == 1);
        check_threads(&mut rep, &b);
    }
    for i in 0..args.scale(2, 6) {
        let b = gen_batch(&mut r, args.scale(12, 40), i % 2 == 1);
        check_processes(&mut rep, &b, &args.out);
    }
    for i in 0..args.scale(2, 6) {
        let b = gen_batch(&mut r, args.scale(8, 30), i % 2 == 0);
        check_instances(&mut rep, &b);
    }
    rep.extra.insert("distinct_chunk_triples_observed".into(), json!(w.table.len()));
    rep.extra.insert("distinct_configurations".into(), json!(w.cfgs.map.len()));
    rep.extra.insert("distinct_token_hash_inputs".into(), json!(w.tok_streams.map.len()));
    rep.count_n("chunks_whose_pattern_lints_depend_on_the_tokenisation(same characters, same configuration)", w.chunk_fun_unused);
    rep.finish();
}
