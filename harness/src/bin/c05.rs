//! C05 — lint results depend only on text, language, dictionary and configuration.
//!
//! Correspondence: histories (set-config | lint document in front-end L) on ONE long-lived
//! `LintGroup`, replayed by the extracted model Model/Cache.v.  The model is given, per step, the
//! document source, the hull span and token structure of every chunk and — as the Section function
//! `pattern_rel` — the implementation's own *uncached* per-chunk results (observed whenever a probe
//! pattern rule sees `run_on_chunk` being executed, i.e. on a real cache miss); it predicts the
//! emitted absolute lints and the hit/miss pattern.  The implementation's hit/miss pattern is
//! observed through the probe rule (a `PatternLinter` added with the public `add_pattern_linter`,
//! whose pattern is only consulted on a miss), so no hook in /repo is needed.
//!
//! Search (property oracle on the implementation): every Lint step of every history is compared
//! with a freshly built linter (same dictionary, dialect, configuration) — spans, kinds, messages,
//! suggestions, priorities and order; on the core `LintGroup` and on `harper_wasm::Linter`
//! (plain + Markdown on one instance); threads and processes.
//!
//! Hypothesis monitors: rule_fun (an uncached per-chunk result is a function of chunk characters,
//! chunk tokens and configuration: never two different observations for one triple), cfg_hash (two
//! configurations that make the same calls on the hasher are equal), tok_hash (two chunks whose
//! tokens make the same calls on the hasher — kinds, spans relative to the chunk start, exactly as
//! LintGroup::lint feeds them — have the same tokens, and vice versa) — the two injectivity
//! hypotheses of C05_refinement.  That the pattern lints of a chunk depend on its tokenisation and
//! not on its characters alone (the former hypothesis H_chunk_fun, false across front-ends) is only
//! counted: since commit a050122 the tokens are part of the key and nothing depends on it.
use harper_core::linting::{Lint, LintGroup, LintGroupConfig, LintKind, Linter, PatternLinter, Suggestion};
use harper_core::patterns::Pattern;
use harper_core::{Dialect, Dictionary, Document, FstDictionary, Lrc, MergedDictionary, MutableDictionary, Span, Token, TokenStringExt, WordMetadata};
use hv::common::*;
use hv::frontends;
use hv::gen;
use serde_json::{json, Value};
use std::collections::{BTreeMap, HashMap};
use std::hash::{Hash, Hasher};
use std::sync::{Arc, Mutex};

// ------------------------------------------------------------------------------------------------
// probes
// ------------------------------------------------------------------------------------------------
const CHUNK_PROBE: &str = "~chunk"; // sorts after every curated rule name: its lint closes each chunk's pattern lints
const STRUCT_END: &str = "~struct_end"; // sorts after every curated struct rule: closes the struct lints
const SPELL_PRE: &str = "SpellChecj~"; // sorts immediately before "SpellCheck"
const SPELL_POST: &str = "SpellCheck~"; // ... and immediately after it
const SENT_SPELL_PRE: &str = "\u{1}spell-pre";
const SENT_SPELL_POST: &str = "\u{1}spell-post";
const SENT_CHUNK: &str = "\u{1}chunk";
const SENT_STRUCT: &str = "\u{1}struct-end";

#[derive(Default)]
struct ProbeState {
    /// address of the first token of every chunk the pattern rules were actually run on (= cache misses), in order
    misses: Vec<usize>,
    prev_ptr: usize,
    prev_len: usize,
}
#[derive(Clone)]
struct ChunkProbe(Arc<Mutex<ProbeState>>);
impl Pattern for ChunkProbe {
    fn matches(&self, tokens: &[Token], _source: &[char]) -> usize {
        // run_on_chunk calls with chunk[cursor..]; we answer 1 at cursor 0 and 0 afterwards, so a
        // call continues the previous one iff it is exactly one token further and one shorter.
        let mut s = self.0.lock().unwrap();
        let ptr = tokens.as_ptr() as usize;
        let cont = s.prev_len == tokens.len() + 1 && ptr == s.prev_ptr + std::mem::size_of::<Token>();
        s.prev_ptr = ptr;
        s.prev_len = tokens.len();
        if cont || tokens.is_empty() {
            0
        } else {
            s.misses.push(ptr);
            1
        }
    }
}
impl PatternLinter for ChunkProbe {
    fn pattern(&self) -> &dyn Pattern {
        self
    }
    fn match_to_lint(&self, matched: &[Token], _source: &[char]) -> Option<Lint> {
        Some(Lint { span: matched[0].span, lint_kind: LintKind::Miscellaneous, suggestions: vec![], message: SENT_CHUNK.to_string(), priority: 255 })
    }
    fn description(&self) -> &str {
        "probe"
    }
}
struct StructEnd(&'static str);
impl Linter for StructEnd {
    fn lint(&mut self, _d: &Document) -> Vec<Lint> {
        vec![Lint { span: Span { start: 0, end: 0 }, lint_kind: LintKind::Miscellaneous, suggestions: vec![], message: self.0.to_string(), priority: 255 }]
    }
    fn description(&self) -> &str {
        "probe"
    }
}


type Dict = Arc<MergedDictionary>;

/// the dictionary handed to a probed linter: delegates everything, and records the word of every
/// `fuzzy_match(word, 2, _)` — the first thing `cached_suggest_correct_spelling` does on a cache MISS
/// (SpellCheck is the only caller of fuzzy_match in harper-core's rules)
struct SpyDict {
    inner: Dict,
    log: Mutex<Vec<Vec<char>>>,
}
impl harper_core::Dictionary for SpyDict {
    fn contains_word(&self, word: &[char]) -> bool {
        self.inner.contains_word(word)
    }
    fn contains_word_str(&self, word: &str) -> bool {
        self.inner.contains_word_str(word)
    }
    fn contains_exact_word(&self, word: &[char]) -> bool {
        self.inner.contains_exact_word(word)
    }
    fn contains_exact_word_str(&self, word: &str) -> bool {
        self.inner.contains_exact_word_str(word)
    }
    fn fuzzy_match(&self, word: &[char], max_distance: u8, max_results: usize) -> Vec<harper_core::spell::FuzzyMatchResult> {
        if max_distance == 2 {
            self.log.lock().unwrap().push(word.to_vec());
        }
        self.inner.fuzzy_match(word, max_distance, max_results)
    }
    fn fuzzy_match_str(&self, word: &str, max_distance: u8, max_results: usize) -> Vec<harper_core::spell::FuzzyMatchResult> {
        self.inner.fuzzy_match_str(word, max_distance, max_results)
    }
    fn get_correct_capitalization_of(&self, word: &[char]) -> Option<&'_ [char]> {
        self.inner.get_correct_capitalization_of(word)
    }
    fn get_word_metadata(&self, word: &[char]) -> Option<&WordMetadata> {
        self.inner.get_word_metadata(word)
    }
    fn get_word_metadata_str(&self, word: &str) -> Option<&WordMetadata> {
        self.inner.get_word_metadata_str(word)
    }
    fn words_iter(&self) -> Box<dyn Iterator<Item = &'_ [char]> + Send + '_> {
        self.inner.words_iter()
    }
    fn word_count(&self) -> usize {
        self.inner.word_count()
    }
    fn get_word_from_id(&self, id: &harper_core::WordId) -> Option<&[char]> {
        self.inner.get_word_from_id(id)
    }
}

struct Probed {
    group: LintGroup,
    probe: Arc<Mutex<ProbeState>>,
    spy: Arc<SpyDict>,
}
fn mk_group(dict: &Dict, dialect: Dialect) -> Probed {
    let spy = Arc::new(SpyDict { inner: dict.clone(), log: Mutex::new(vec![]) });
    let mut group = LintGroup::new_curated(spy.clone(), dialect);
    let probe = Arc::new(Mutex::new(ProbeState::default()));
    assert!(group.add_pattern_linter(CHUNK_PROBE, Box::new(ChunkProbe(probe.clone()))));
    assert!(group.add(STRUCT_END, Box::new(StructEnd(SENT_STRUCT))));
    assert!(group.add(SPELL_PRE, Box::new(StructEnd(SENT_SPELL_PRE))));
    assert!(group.add(SPELL_POST, Box::new(StructEnd(SENT_SPELL_POST))));
    enable_probes(&mut group.config);
    Probed { group, probe, spy }
}
fn enable_probes(c: &mut LintGroupConfig) {
    for k in [CHUNK_PROBE, STRUCT_END, SPELL_PRE, SPELL_POST] {
        c.set_rule_enabled(k, true);
    }
}
impl Probed {
    /// lint; returns (lints, addresses of the chunks that missed the chunk cache, words that missed the spelling cache)
    fn lint(&mut self, doc: &Document) -> Result<(Vec<Lint>, Vec<usize>, Vec<Vec<char>>), String> {
        {
            let mut s = self.probe.lock().unwrap();
            s.misses.clear();
            s.prev_len = 0;
            s.prev_ptr = 0;
        }
        self.spy.log.lock().unwrap().clear();
        let g = &mut self.group;
        let r = guarded(|| g.lint(doc));
        let misses = std::mem::take(&mut self.probe.lock().unwrap().misses);
        let wmiss = std::mem::take(&mut *self.spy.log.lock().unwrap());
        r.map(|l| (l, misses, wmiss))
    }
}

fn mk_dict(user_words: &[String]) -> Dict {
    let mut user = MutableDictionary::new();
    user.extend_words(user_words.iter().map(|w| (w.chars().collect::<harper_core::CharString>(), WordMetadata::default())));
    let mut d = MergedDictionary::new();
    d.add_dictionary(FstDictionary::curated());
    d.add_dictionary(Arc::new(user));
    Arc::new(d)
}
fn mk_doc(fe: &str, text: &str, dict: &Dict) -> Document {
    let source: Vec<char> = text.chars().collect();
    let parser = frontends::make_parser(fe, &source, &FstDictionary::curated());
    Document::new_from_vec(Lrc::new(source), &parser, dict)
}
fn dialect_of(s: &str) -> Dialect {
    match s {
        "British" => Dialect::British,
        "Canadian" => Dialect::Canadian,
        "Australian" => Dialect::Australian,
        _ => Dialect::American,
    }
}

// ------------------------------------------------------------------------------------------------
// histories
// ------------------------------------------------------------------------------------------------
#[derive(Clone, Debug, PartialEq)]
struct CfgSpec {
    base: String, // curated | none | all_on | all_off
    set: BTreeMap<String, Option<bool>>,
}
#[derive(Clone, Debug, PartialEq)]
enum Op {
    Cfg(CfgSpec),
    Lint { fe: String, text: String },
}
#[derive(Clone, Debug)]
struct History {
    target: String, // core | wasm
    dialect: String,
    user_words: Vec<String>,
    ops: Vec<Op>,
}
impl History {
    fn to_json(&self) -> Value {
        let ops: Vec<Value> = self
            .ops
            .iter()
            .map(|o| match o {
                Op::Cfg(c) => json!({"op": "cfg", "base": c.base, "set": c.set}),
                Op::Lint { fe, text } => json!({"op": "lint", "fe": fe, "text": text}),
            })
            .collect();
        json!({"kind": "history", "target": self.target, "dialect": self.dialect, "user_words": self.user_words, "ops": ops})
    }
    fn from_json(v: &Value) -> History {
        let ops = v["ops"]
            .as_array()
            .map(|a| {
                a.iter()
                    .filter_map(|o| match o["op"].as_str() {
                        Some("cfg") => {
                            let mut set = BTreeMap::new();
                            if let Some(m) = o["set"].as_object() {
                                for (k, x) in m {
                                    set.insert(k.clone(), x.as_bool());
                                }
                            }
                            Some(Op::Cfg(CfgSpec { base: o["base"].as_str().unwrap_or("curated").to_string(), set }))
                        }
                        Some("lint") => Some(Op::Lint { fe: o["fe"].as_str().unwrap_or("plain").to_string(), text: o["text"].as_str().unwrap_or("").to_string() }),
                        _ => None,
                    })
                    .collect()
            })
            .unwrap_or_default();
        History {
            target: v["target"].as_str().unwrap_or("core").to_string(),
            dialect: v["dialect"].as_str().unwrap_or("American").to_string(),
            user_words: v["user_words"].as_array().map(|a| a.iter().filter_map(|x| x.as_str().map(|s| s.to_string())).collect()).unwrap_or_default(),
            ops,
        }
    }
}

fn build_cfg(spec: &CfgSpec, all_keys: &[String]) -> LintGroupConfig {
    let mut c = match spec.base.as_str() {
        "none" => LintGroupConfig::default(),
        "all_on" | "all_off" => {
            let mut c = LintGroupConfig::default();
            for k in all_keys {
                c.set_rule_enabled(k, spec.base == "all_on");
            }
            c
        }
        _ => LintGroupConfig::new_curated(),
    };
    for (k, v) in &spec.set {
        match v {
            Some(b) => c.set_rule_enabled(k, *b),
            None => c.unset_rule_enabled(k),
        }
    }
    c
}

/// what `impl Hash for LintGroupConfig` feeds to a hasher — obtained by running that very impl with a
/// recording hasher.  The sequence of CALLS is recorded (each `write` with its length, each `write_u8`):
/// the keyed hasher in use (foldhash) mixes every call separately, so two configurations collide for
/// every seed exactly when their call sequences are equal (probed: concatenation-equal sequences with
/// different call boundaries do NOT collide).
struct RecHasher(Vec<u8>);
impl Hasher for RecHasher {
    fn write(&mut self, b: &[u8]) {
        self.0.push(b'w');
        self.0.extend_from_slice(&(b.len() as u32).to_le_bytes());
        self.0.extend_from_slice(b);
    }
    fn write_u8(&mut self, i: u8) {
        self.0.push(b'b');
        self.0.push(i);
    }
    fn write_u16(&mut self, i: u16) {
        self.0.push(b'1');
        self.0.extend_from_slice(&i.to_le_bytes());
    }
    fn write_u32(&mut self, i: u32) {
        self.0.push(b'3');
        self.0.extend_from_slice(&i.to_le_bytes());
    }
    fn write_u64(&mut self, i: u64) {
        self.0.push(b'6');
        self.0.extend_from_slice(&i.to_le_bytes());
    }
    fn write_u128(&mut self, i: u128) {
        self.0.push(b'8');
        self.0.extend_from_slice(&i.to_le_bytes());
    }
    fn write_usize(&mut self, i: usize) {
        self.0.push(b'z');
        self.0.extend_from_slice(&(i as u64).to_le_bytes());
    }
    fn write_i8(&mut self, i: i8) {
        self.0.push(b'B');
        self.0.push(i as u8);
    }
    fn write_i16(&mut self, i: i16) {
        self.0.push(b'!');
        self.0.extend_from_slice(&i.to_le_bytes());
    }
    fn write_i32(&mut self, i: i32) {
        self.0.push(b'#');
        self.0.extend_from_slice(&i.to_le_bytes());
    }
    fn write_i64(&mut self, i: i64) {
        self.0.push(b'^');
        self.0.extend_from_slice(&i.to_le_bytes());
    }
    fn write_i128(&mut self, i: i128) {
        self.0.push(b'*');
        self.0.extend_from_slice(&i.to_le_bytes());
    }
    fn write_isize(&mut self, i: isize) {
        self.0.push(b'Z');
        self.0.extend_from_slice(&(i as i64).to_le_bytes());
    }
    fn finish(&self) -> u64 {
        0
    }
}
/// what LintGroup::lint feeds to the hasher for a chunk's token hash — the very loop of lint_group.rs,
/// run with the recording hasher: per token its kind, `span.start - chunk_span.start`, `span.end - chunk_span.start`
fn token_hash_stream(chunk: &[Token], chunk_start: usize) -> Vec<u8> {
    let mut h = RecHasher(vec![]);
    for token in chunk {
        token.kind.hash(&mut h);
        token.span.start.wrapping_sub(chunk_start).hash(&mut h);
        token.span.end.wrapping_sub(chunk_start).hash(&mut h);
    }
    h.0
}
fn hash_stream(c: &LintGroupConfig) -> Vec<u8> {
    let mut h = RecHasher(vec![]);
    c.hash(&mut h);
    h.0
}

struct Interner<T: Hash + Eq + Clone> {
    map: HashMap<T, usize>,
}
impl<T: Hash + Eq + Clone> Interner<T> {
    fn new() -> Self {
        Interner { map: HashMap::new() }
    }
    fn id(&mut self, t: &T) -> usize {
        if let Some(i) = self.map.get(t) {
            return *i;
        }
        let i = self.map.len() + 1;
        self.map.insert(t.clone(), i);
        i
    }
}

fn payload(l: &Lint) -> String {
    format!("{:?}|{}|{:?}|{}", l.lint_kind, l.priority, l.suggestions, l.message)
}
fn render(l: &Lint) -> String {
    format!("{}..{} {}", l.span.start, l.span.end, payload(l))
}

/// an observed uncached per-chunk result: (relative start, relative end, payload id)*
type RelLints = Vec<(usize, usize, usize)>;

struct Obs {
    val: RelLints,
    fe: String,
    text: String,
}

/// everything shared by the histories of one run
struct World {
    payloads: Interner<String>,
    toks: Interner<String>,
    kinds: Interner<String>,
    tok_streams: Interner<Vec<u8>>,
    /// tok_hash monitors: hasher input of a chunk's tokens <-> the tokens (kinds, relative spans)
    tok_of_stream: HashMap<usize, (usize, String, String)>,
    stream_of_tok: HashMap<usize, (usize, String, String)>,
    cfgs: Interner<String>,
    streams: Interner<Vec<u8>>,
    stream_of_cfg: HashMap<usize, usize>,
    cfg_of_stream: HashMap<usize, (usize, String)>,
    /// rule_fun: (chars, tokid, cfgid) -> observed uncached result
    table: HashMap<(Vec<char>, usize, usize), Obs>,
    /// chunk_fun: (chars, cfgid) -> first (tokid, result, where)
    by_chars: HashMap<(Vec<char>, usize), (usize, RelLints, String, String)>,
    chunk_fun_reported: std::collections::HashSet<(Vec<char>, usize)>,
    chunk_fun_unused: u64,
    tok_hash_reported: std::collections::HashSet<(usize, usize)>,
    /// spell_fun: (dictionary+dialect id, word) -> payload of the lint an uncached SpellCheck builds
    spell_table: HashMap<(usize, Vec<char>), (usize, String)>,
    dicts: Interner<String>,
    runs: u64,
    all_keys: Vec<String>,
}
impl World {
    fn new() -> World {
        let g = LintGroup::new_curated(FstDictionary::curated(), Dialect::American);
        let all_keys: Vec<String> = {
            let mut k: Vec<String> = g.iter_keys().map(|s| s.to_string()).collect();
            k.sort();
            k.dedup();
            k
        };
        World {
            payloads: Interner::new(),
            toks: Interner::new(),
            kinds: Interner::new(),
            tok_streams: Interner::new(),
            tok_of_stream: HashMap::new(),
            stream_of_tok: HashMap::new(),
            cfgs: Interner::new(),
            streams: Interner::new(),
            stream_of_cfg: HashMap::new(),
            cfg_of_stream: HashMap::new(),
            table: HashMap::new(),
            by_chars: HashMap::new(),
            chunk_fun_reported: Default::default(),
            chunk_fun_unused: 0,
            tok_hash_reported: Default::default(),
            spell_table: HashMap::new(),
            dicts: Interner::new(),
            runs: 0,
            all_keys,
        }
    }
}

struct ChunkInfo {
    hull: Option<Span>,
    first_tok_start: usize,
    /// identity of the chunk's tokens as the rules see them: kinds (Debug) and spans relative to the chunk start
    tokid: usize,
    /// identity of the calls LintGroup::lint makes on the hasher for the token hash of this chunk
    thid: usize,
    /// the tokens for the model: "start end kind-identity" with absolute spans
    tokens: String,
}
fn chunk_infos(w: &mut World, doc: &Document) -> Vec<ChunkInfo> {
    doc.iter_chunks()
        .map(|ch| {
            let hull = ch.span();
            let base = hull.map(|h| h.start).unwrap_or(0);
            let mut s = String::new();
            let mut toks = vec![];
            for t in ch {
                use std::fmt::Write;
                let _ = write!(s, "{}-{}:{:?};", t.span.start.wrapping_sub(base), t.span.end.wrapping_sub(base), t.kind);
                toks.push(format!("{} {} {}", t.span.start, t.span.end, w.kinds.id(&format!("{:?}", t.kind))));
            }
            let thid = w.tok_streams.id(&token_hash_stream(ch, base));
            ChunkInfo { hull, first_tok_start: ch.as_ptr() as usize, tokid: w.toks.id(&s), thid, tokens: toks.join(" ") }
        })
        .collect()
}

/// the struct-rule part of a probed group's output: (rules before SpellCheck incl. the marker, SpellCheck's
/// lints, the marker after it and the rules after SpellCheck incl. the end sentinel)
fn split_struct(pre: &[Lint]) -> Option<(Vec<Lint>, Vec<Lint>, Vec<Lint>)> {
    let a = pre.iter().position(|l| l.message == SENT_SPELL_PRE)?;
    let b = pre.iter().position(|l| l.message == SENT_SPELL_POST)?;
    if b < a {
        return None;
    }
    Some((pre[..=a].to_vec(), pre[a + 1..b].to_vec(), pre[b..].to_vec()))
}
/// split a probed group's output into (struct lints incl. the end sentinel, one group of lints per chunk with a hull)
fn split_output(out: &[Lint]) -> Option<(Vec<Lint>, Vec<Vec<Lint>>)> {
    let pos = out.iter().position(|l| l.message == SENT_STRUCT)?;
    let pre = out[..=pos].to_vec();
    let mut groups = vec![];
    let mut cur = vec![];
    for l in &out[pos + 1..] {
        cur.push(l.clone());
        if l.message == SENT_CHUNK {
            groups.push(std::mem::take(&mut cur));
        }
    }
    if !cur.is_empty() {
        return None;
    }
    Some((pre, groups))
}

/// LRU of capacity `cap`, as the `lru` crate: get promotes, put inserts as most recent and evicts the least recent
struct LruSim {
    cap: usize,
    tick: u64,
    when: HashMap<usize, u64>,
    order: BTreeMap<u64, usize>,
}
impl LruSim {
    fn new(cap: usize) -> Self {
        LruSim { cap, tick: 0, when: HashMap::new(), order: BTreeMap::new() }
    }
    fn get(&mut self, k: usize) -> bool {
        if let Some(t) = self.when.get(&k).copied() {
            self.order.remove(&t);
            self.tick += 1;
            self.order.insert(self.tick, k);
            self.when.insert(k, self.tick);
            true
        } else {
            false
        }
    }
    fn put(&mut self, k: usize) -> Option<usize> {
        let mut ev = None;
        if !self.when.contains_key(&k) && self.when.len() >= self.cap {
            let (t, old) = self.order.iter().next().map(|(t, o)| (*t, *o)).unwrap();
            self.order.remove(&t);
            self.when.remove(&old);
            ev = Some(old);
        }
        if let Some(t) = self.when.get(&k).copied() {
            self.order.remove(&t);
        }
        self.tick += 1;
        self.order.insert(self.tick, k);
        self.when.insert(k, self.tick);
        ev
    }
}

fn lints_line(w: &mut World, ls: &[Lint], base: usize) -> Option<String> {
    let mut v = vec![];
    for l in ls {
        if l.span.start < base || l.span.end < l.span.start {
            return None;
        }
        v.push(format!("{} {} {}", l.span.start - base, l.span.end - base, w.payloads.id(&payload(l))));
    }
    Some(v.join(" "))
}
fn rel_of(w: &mut World, ls: &[Lint], base: usize) -> Option<RelLints> {
    let mut v = vec![];
    for l in ls {
        if l.span.start < base || l.span.end < l.span.start {
            return None;
        }
        v.push((l.span.start - base, l.span.end - base, w.payloads.id(&payload(l))));
    }
    Some(v)
}
fn rel_line(v: &RelLints) -> String {
    v.iter().map(|(a, b, c)| format!("{a} {b} {c}")).collect::<Vec<_>>().join(" ")
}

/// result of one Lint step compared with a fresh linter
struct StepDiff {
    class: String,
    what: String,
}

struct CoreRun {
    dict: Dict,
    dialect: Dialect,
    g: Probed,
    cfgid: usize,
    hashid: usize,
    lru: LruSim,
    keyids: Interner<(Vec<char>, usize, usize)>,
    /// who populated a cache key: (tokid, cfgid, front-end, text)
    populated: HashMap<usize, (usize, usize, String, String)>,
    /// who last populated an entry for (chunk characters, config hash), whatever the tokens: (tokid, front-end)
    populated_chars: HashMap<(Vec<char>, usize), (usize, String)>,
    pending_evict: Vec<usize>,
    evictions: u64,
    dictid: usize,
    user_words: Vec<String>,
}

/// capacity of LintGroup's chunk cache, read from the source (the theorems hold for every capacity; the
/// LRU simulation that produces the model's eviction schedule needs the number)
fn lru_cap() -> usize {
    let src = std::fs::read_to_string("/repo/harper-core/src/linting/lint_group.rs").unwrap_or_default();
    src.split("chunk_pattern_cache: LruCache::new(NonZero::new(").nth(1).and_then(|r| r.split(')').next()).and_then(|n| n.replace('_', "").trim().parse().ok()).unwrap_or(10000)
}

impl CoreRun {
    fn new(w: &mut World, rep: Option<&mut Report>, h: &History) -> CoreRun {
        let dict = mk_dict(&h.user_words);
        let dialect = dialect_of(&h.dialect);
        let g = mk_group(&dict, dialect);
        // spell_fun: the lint an uncached SpellCheck builds is a function of (word, dictionary CONTENTS, dialect) —
        // observations are shared between all histories (= dictionary instances, each with its own hash seeds)
        // with the same dialect and user words.  (Before commit 5a329ea a user dictionary's iteration order
        // leaked into the suggestions — finding FC05a — and the table had to be per instance.)
        w.runs += 1;
        let dictid = w.dicts.id(&format!("{}|{:?}", h.dialect, h.user_words));
        let mut r = CoreRun { dict, dialect, g, cfgid: 0, hashid: 0, lru: LruSim::new(lru_cap()), keyids: Interner::new(), populated: HashMap::new(), populated_chars: HashMap::new(), pending_evict: vec![], evictions: 0, dictid, user_words: h.user_words.clone() };
        if let Some(rep) = rep {
            rep.case("N", "ok");
            r.note_cfg(w, Some(rep));
        } else {
            r.note_cfg(w, None);
        }
        r
    }
    /// intern the current configuration; monitor C05_cfg_hash; tell the model
    fn note_cfg(&mut self, w: &mut World, rep: Option<&mut Report>) {
        let c = &self.g.group.config;
        let js = serde_json::to_string(c).unwrap();
        self.cfgid = w.cfgs.id(&js);
        self.hashid = w.streams.id(&hash_stream(c));
        w.stream_of_cfg.insert(self.cfgid, self.hashid);
        let mut collision = None;
        match w.cfg_of_stream.get(&self.hashid) {
            Some((other, ojs)) if *other != self.cfgid => collision = Some(ojs.clone()),
            Some(_) => {}
            None => {
                w.cfg_of_stream.insert(self.hashid, (self.cfgid, js.clone()));
            }
        }
        if let Some(rep) = rep {
            rep.monitor("cfg_hash:configurations_checked", 1);
            if let Some(ojs) = collision {
                rep.monitor("cfg_hash:VIOLATED", 1);
                rep.fail(
                    "cfg_hash_collision",
                    "two different configurations make identical calls on the hasher (impl Hash for LintGroupConfig): equal cache keys for every seed".to_string(),
                    json!({"kind": "history", "target": "core", "dialect": "American", "user_words": [], "ops": [
                        {"op": "cfg", "base": "none", "set": serde_json::from_str::<Value>(&ojs).unwrap()}, {"op": "lint", "fe": "plain", "text": "we waited with baited breath, it is better then that"},
                        {"op": "cfg", "base": "none", "set": serde_json::from_str::<Value>(&js).unwrap()}, {"op": "lint", "fe": "plain", "text": "we waited with baited breath, it is better then that"}]}),
                );
            }
            rep.case(&format!("C {} {}", self.cfgid, self.hashid), "ok");
        }
    }
    fn set_cfg(&mut self, w: &mut World, rep: Option<&mut Report>, spec: &CfgSpec) {
        let mut c = build_cfg(spec, &w.all_keys);
        enable_probes(&mut c);
        self.g.group.config = c;
        self.note_cfg(w, rep);
    }

    /// one Lint step: run reused and fresh, record the correspondence case, evaluate the oracle
    fn lint(&mut self, w: &mut World, mut rep: Option<&mut Report>, fe: &str, text: &str) -> Result<Option<StepDiff>, String> {
        let dict = self.dict.clone();
        let doc = guarded(|| mk_doc(fe, text, &dict)).map_err(|m| format!("parse panicked: {m}"))?;
        let infos = chunk_infos(w, &doc);
        let (out_g, miss_g, wmiss_g) = self.g.lint(&doc).map_err(|m| format!("lint panicked: {m}"))?;
        let mut f = mk_group(&self.dict, self.dialect);
        f.group.config = self.g.group.config.clone();
        let (out_f, miss_f, wmiss_f) = f.lint(&doc).map_err(|m| format!("fresh lint panicked: {m}"))?;
        let src: Vec<char> = text.chars().collect();

        let with_hull: Vec<&ChunkInfo> = infos.iter().filter(|c| c.hull.is_some()).collect();
        let (Some((pre_g, groups_g)), Some((pre_f, groups_f))) = (split_output(&out_g), split_output(&out_f)) else {
            return Err("probe sentinels missing from the output".into());
        };
        let (Some((spre_g, spell_g, spost_g)), Some((_, spell_f, _))) = (split_struct(&pre_g), split_struct(&pre_f)) else {
            return Err("probe spelling markers missing from the output".into());
        };
        if groups_g.len() != with_hull.len() || groups_f.len() != with_hull.len() {
            return Err(format!("probe: {} / {} chunk sentinels for {} chunks", groups_g.len(), groups_f.len(), with_hull.len()));
        }
        // ---- observations of uncached per-chunk results: rule_fun and chunk_fun monitors ----
        let mut fun_fail: Vec<(String, String, Value)> = vec![];
        let mut surround_obs = 0u64;
        for (misses, groups, who) in [(&miss_f, &groups_f, "fresh"), (&miss_g, &groups_g, "reused")] {
            for (ci, grp) in with_hull.iter().zip(groups.iter()) {
                if !misses.contains(&ci.first_tok_start) {
                    continue;
                }
                let hull = ci.hull.unwrap();
                let Some(val) = rel_of(w, grp, hull.start) else {
                    fun_fail.push(("lint_before_chunk".into(), format!("a pattern lint of the chunk at {:?} starts before the chunk ({who} linter)", hull), json!({"kind":"history","target":"core","dialect":format!("{:?}", self.dialect),"user_words":self.user_words,"ops":[{"op":"cfg","base":"none","set":serde_json::to_value(&self.g.group.config).unwrap()},{"op":"lint","fe":fe,"text":text}]})));
                    continue;
                };
                let chars: Vec<char> = src[hull.start..hull.end.min(src.len())].to_vec();
                let tkey = (chars.clone(), ci.tokid, self.cfgid);
                match w.table.get(&tkey) {
                    Some(o) if o.val != val => {
                        fun_fail.push((
                            "rule_not_function".into(),
                            format!(
                                "the pattern lints of chunk {:?} (same characters, same tokens, same configuration) differ between two uncached runs: [{}] in {} {:?} vs [{}] here",
                                chars.iter().collect::<String>(), rel_line(&o.val), o.fe, o.text, rel_line(&val)
                            ),
                            json!({"kind":"history","target":"core","dialect":format!("{:?}", self.dialect),"user_words":self.user_words,"ops":[{"op":"cfg","base":"none","set":serde_json::to_value(&self.g.group.config).unwrap()},{"op":"lint","fe":o.fe,"text":o.text},{"op":"lint","fe":fe,"text":text}]}),
                        ));
                    }
                    Some(o) => {
                        if o.text != text {
                            surround_obs += 1;
                        }
                    }
                    None => {
                        w.table.insert(tkey, Obs { val: val.clone(), fe: fe.to_string(), text: text.to_string() });
                    }
                }
                // not a hypothesis of anything since commit a050122 (the tokens are part of the key); counted, as
                // evidence that the generators do exercise chunks whose lints depend on the tokenisation
                let ckey = (chars.clone(), self.cfgid);
                match w.by_chars.get(&ckey) {
                    Some((t0, v0, _, _)) if *t0 != ci.tokid && *v0 != val => {
                        if w.chunk_fun_reported.insert(ckey.clone()) {
                            w.chunk_fun_unused += 1;
                        }
                    }
                    Some(_) => {}
                    None => {
                        w.by_chars.insert(ckey, (ci.tokid, val.clone(), fe.to_string(), text.to_string()));
                    }
                }
            }
        }
        // ---- tok_hash monitors: the hasher input of a chunk's token hash and the chunk's tokens determine each other ----
        for ci in &with_hull {
            let two = |fe0: &str, text0: &str| json!({"kind":"history","target":"core","dialect":format!("{:?}", self.dialect),"user_words":self.user_words,"ops":[{"op":"cfg","base":"none","set":serde_json::to_value(&self.g.group.config).unwrap()},{"op":"lint","fe":fe0,"text":text0},{"op":"lint","fe":fe,"text":text}]});
            match w.tok_of_stream.get(&ci.thid) {
                Some((t0, fe0, text0)) if *t0 != ci.tokid => {
                    if w.tok_hash_reported.insert((ci.thid, ci.tokid)) {
                        fun_fail.push(("tok_hash_collision".into(), format!("two chunks with different tokens (kinds / relative spans) make identical calls on the hasher for their token hash: equal cache keys for every seed (first in front-end {fe0}, now in {fe}; chunk at {:?})", ci.hull.unwrap()), two(fe0, text0)));
                    }
                }
                Some(_) => {}
                None => {
                    w.tok_of_stream.insert(ci.thid, (ci.tokid, fe.to_string(), text.to_string()));
                }
            }
            match w.stream_of_tok.get(&ci.tokid) {
                Some((h0, fe0, text0)) if *h0 != ci.thid => {
                    if w.tok_hash_reported.insert((ci.thid, ci.tokid)) {
                        fun_fail.push(("tok_hash_not_function".into(), format!("two chunks with the same tokens (kinds / relative spans) feed different input to the hasher for their token hash (first in front-end {fe0}, now in {fe}; chunk at {:?}): the token hash reads something that is not in the tokens' kinds and relative spans", ci.hull.unwrap()), two(fe0, text0)));
                    }
                }
                Some(_) => {}
                None => {
                    w.stream_of_tok.insert(ci.tokid, (ci.thid, fe.to_string(), text.to_string()));
                }
            }
        }
        // ---- the spelling cache: uncached observations (spell_fun monitor), hit/miss per word of the reused linter ----
        let word_of = |l: &Lint| -> Vec<char> { src[l.span.start.min(src.len())..l.span.end.min(src.len())].to_vec() };
        for (lints, wmiss, _who) in [(&spell_f, &wmiss_f, "fresh"), (&spell_g, &wmiss_g, "reused")] {
            let mut p = 0usize;
            for l in lints.iter() {
                let wd = word_of(l);
                if p < wmiss.len() && wmiss[p] == wd {
                    p += 1;
                    let pid = w.payloads.id(&payload(l));
                    match w.spell_table.get(&(self.dictid, wd.clone())) {
                        Some((p0, t0)) if *p0 != pid => fun_fail.push((
                            "spell_not_function".into(),
                            format!("the lint an uncached SpellCheck builds for the word {:?} differs between two computations with the same dictionary and dialect (first seen in {:?})", wd.iter().collect::<String>(), t0),
                            // two computations = two linters (the first may belong to another history): replayable as an `instances` batch
                            json!({"kind": "instances", "dialect": format!("{:?}", self.dialect), "user_words": self.user_words, "docs": [{"fe": "plain", "text": t0}, {"fe": fe, "text": text}]}),
                        )),
                        Some(_) => {}
                        None => {
                            w.spell_table.insert((self.dictid, wd), (pid, text.to_string()));
                        }
                    }
                }
            }
        }
        let spell_on = self.g.group.config.is_rule_enabled("SpellCheck");
        let mut whm = String::new();
        let mut wfields: Vec<String> = vec![];
        {
            let mut p = 0usize;
            for l in spell_g.iter() {
                let wd = word_of(l);
                let missed = p < wmiss_g.len() && wmiss_g[p] == wd;
                if missed {
                    p += 1;
                }
                whm.push(if missed { 'm' } else { 'h' });
                let known = w.spell_table.get(&(self.dictid, wd)).map(|x| x.0.to_string()).unwrap_or_else(|| "?".into());
                wfields.push(format!("{} {} {}", l.span.start, l.span.end, known));
            }
        }
        // ---- the correspondence case ----
        let mut fields: Vec<String> = vec![];
        let mut hm = String::new();
        let mut diff: Option<StepDiff> = None;
        let mut gi = 0usize;
        for ci in &infos {
            let Some(hull) = ci.hull else {
                if !ci.tokens.is_empty() {
                    return Err("probe: a chunk with tokens has no span".into());
                }
                fields.push("-".into());
                continue;
            };
            let chars: Vec<char> = src[hull.start.min(src.len())..hull.end.min(src.len())].to_vec();
            // the cache key as the code builds it: (chunk characters, config hash, token hash), the hashes by the identity of their input
            let kid = self.keyids.id(&(chars.clone(), self.hashid, ci.thid));
            let evict_before: Vec<String> = std::mem::take(&mut self.pending_evict).iter().map(|k| k.to_string()).collect();
            let missed = miss_g.contains(&ci.first_tok_start);
            hm.push(if missed { 'M' } else { 'H' });
            // LRU bookkeeping (drives the model's eviction schedule)
            if !self.lru.get(kid) {
                if let Some(old) = self.lru.put(kid) {
                    self.pending_evict.push(old);
                    self.evictions += 1;
                }
            }
            let known = w.table.get(&(chars.clone(), ci.tokid, self.cfgid)).map(|o| rel_line(&o.val));
            fields.push(format!("{} {}:{}:{}:{}", kid, ci.thid, known.unwrap_or_else(|| "?".into()), evict_before.join(" "), ci.tokens));
            // diagnosis of a reused/fresh difference on this chunk
            if diff.is_none() && groups_g[gi].iter().map(render).ne(groups_f[gi].iter().map(render)) {
                let shown = chars.iter().collect::<String>();
                let (a, b) = (groups_g[gi].len() - 1, groups_f[gi].len() - 1);
                diff = Some(match self.populated.get(&kid) {
                    Some((t0, c0, fe0, _)) if !missed && *c0 != self.cfgid => StepDiff { class: "stale_config".into(), what: format!("chunk {shown:?}: entry cached under configuration #{c0} (front-end {fe0}) is served under configuration #{} whose hash input is identical: reused linter emits {a} pattern lints, fresh linter {b}", self.cfgid) },
                    Some((t0, _, fe0, _)) if !missed && *t0 != ci.tokid => StepDiff { class: "stale_tokenisation".into(), what: format!("chunk {shown:?}: entry cached under front-end {fe0} is served under front-end {fe} although the chunk's tokens differ: reused linter emits {a} pattern lints, fresh linter {b}") },
                    // a hit under a key (characters, config hash, token hash) this linter never populated: the entry of another tokenisation of the same characters
                    None if !missed => match self.populated_chars.get(&(chars.clone(), self.hashid)) {
                        Some((t0, fe0)) if *t0 != ci.tokid => StepDiff { class: "stale_tokenisation".into(), what: format!("chunk {shown:?}: entry cached under front-end {fe0} is served under front-end {fe} although the chunk's tokens differ (the token hash is part of the key: regression of F11): reused linter emits {a} pattern lints, fresh linter {b}") },
                        _ => StepDiff { class: "reused_ne_fresh".into(), what: format!("chunk {shown:?} (front-end {fe}, cache hit): reused linter emits {a} pattern lints, fresh linter {b}") },
                    },
                    _ => StepDiff { class: "reused_ne_fresh".into(), what: format!("chunk {shown:?} (front-end {fe}, cache {}): reused linter emits {a} pattern lints, fresh linter {b}", if missed { "miss" } else { "hit" }) },
                });
            }
            if missed {
                self.populated.insert(kid, (ci.tokid, self.cfgid, fe.to_string(), text.to_string()));
                self.populated_chars.insert((chars.clone(), self.hashid), (ci.tokid, fe.to_string()));
            }
            gi += 1;
        }
        if diff.is_none() && out_g.iter().map(render).ne(out_f.iter().map(render)) {
            diff = Some(StepDiff { class: "reused_ne_fresh".into(), what: format!("the struct-rule lints of the reused linter differ from a fresh linter's (front-end {fe})") });
        }
        if let Some(rep) = rep.as_deref_mut() {
            for (class, what, input) in fun_fail {
                rep.monitor(&format!("{class}:VIOLATED"), 1);
                rep.fail(&class, what, input);
            }
            rep.monitor("rule_fun:uncached_chunk_results_observed", (miss_f.len() + miss_g.len()) as u64);
            rep.monitor("rule_fun:uncached_results_of_a_chunk_seen_before_in_another_document(same characters, tokens, configuration)", surround_obs);
            rep.monitor("tok_hash:chunks_checked", with_hull.len() as u64);
            let pre_line = lints_line(w, &spre_g, 0).unwrap_or_default();
            let post_line = lints_line(w, &spost_g, 0).unwrap_or_default();
            let case = format!("L|{}|{}|{}:{}|{}|{}", cps(&src), pre_line, if spell_on { 1 } else { 0 }, wfields.join(";"), post_line, fields.join(";"));
            let impl_line = format!("{}|{}|{}", lints_line(w, &out_g, 0).unwrap_or_else(|| "?".into()), hm, whm);
            rep.count_n("spell_lookups", whm.len() as u64);
            rep.count_n("spell_hits", whm.matches('h').count() as u64);
            rep.case(&case, impl_line.trim());
            rep.count(&format!("chunks:{}", if hm.is_empty() { "none" } else if hm.contains('H') && hm.contains('M') { "hits+misses" } else if hm.contains('H') { "all_hits" } else { "all_misses" }));
            rep.count_n("chunk_lookups", hm.len() as u64);
            rep.count_n("chunk_hits", hm.matches('H').count() as u64);
        }
        Ok(diff)
    }
}

/// run a core history; every Lint step is a correspondence case and an oracle evaluation
fn run_core(w: &mut World, rep: &mut Report, h: &History) {
    let mut run = CoreRun::new(w, Some(rep), h);
    for (i, op) in h.ops.iter().enumerate() {
        match op {
            Op::Cfg(spec) => {
                run.set_cfg(w, Some(rep), spec);
                rep.count("op:cfg");
            }
            Op::Lint { fe, text } => {
                rep.eval();
                rep.count(&format!("op:lint:{fe}"));
                match run.lint(w, Some(rep), fe, text) {
                    Err(m) => {
                        rep.count(&format!("aborted_history({})", m.split(':').next().unwrap_or("")));
                        return;
                    }
                    Ok(None) => {}
                    Ok(Some(d)) => {
                        let mut failing = h.clone();
                        failing.ops.truncate(i + 1);
                        let small = shrink(w, &failing, &d.class);
                        rep.fail(&d.class, d.what, small.to_json());
                    }
                }
                rep.nontrivial(&(fe.clone(), text.clone(), run.cfgid, i));
            }
        }
    }
    rep.count_n("lru:evictions_replayed_by_the_model", run.evictions);
}

/// does the LAST op (a lint) of `h` differ from a fresh linter with class `class`?
fn fails_last(w: &mut World, h: &History, class: &str) -> bool {
    let mut run = CoreRun::new(w, None, h);
    let n = h.ops.len();
    for (i, op) in h.ops.iter().enumerate() {
        match op {
            Op::Cfg(spec) => run.set_cfg(w, None, spec),
            Op::Lint { fe, text } => match run.lint(w, None, fe, text) {
                Err(_) => return false,
                Ok(d) => {
                    if i + 1 == n {
                        return d.map(|d| d.class == class).unwrap_or(false);
                    }
                }
            },
        }
    }
    false
}
/// greedy removal of earlier operations while the last step keeps failing in the same way
fn shrink(w: &mut World, h: &History, class: &str) -> History {
    let mut cur = h.clone();
    let mut budget = 40;
    let mut i = 0;
    while i + 1 < cur.ops.len() && budget > 0 {
        let mut cand = cur.clone();
        cand.ops.remove(i);
        budget -= 1;
        if fails_last(w, &cand, class) {
            cur = cand;
        } else {
            i += 1;
        }
    }
    cur
}


/// a lint as an integration sees it (core and wasm lints are both mapped to this)
#[derive(Clone, Debug, PartialEq, serde::Serialize, serde::Deserialize)]
struct RL {
    start: usize,
    end: usize,
    kind: String,
    prio: u8,
    message: String,
    sugg: Vec<String>,
}
fn rl_of(l: &Lint) -> RL {
    RL {
        start: l.span.start,
        end: l.span.end,
        kind: format!("{:?}", l.lint_kind),
        prio: l.priority,
        message: l.message.clone(),
        sugg: l
            .suggestions
            .iter()
            .map(|s| match s {
                Suggestion::ReplaceWith(c) => format!("replace:{}", c.iter().collect::<String>()),
                Suggestion::InsertAfter(c) => format!("insert:{}", c.iter().collect::<String>()),
                Suggestion::Remove => "remove".to_string(),
            })
            .collect(),
    }
}
fn rl_of_wasm(l: &harper_wasm::Lint) -> RL {
    let sp = l.span();
    RL {
        start: sp.start,
        end: sp.end,
        kind: l.lint_kind(),
        prio: 0,
        message: format!("{} [{}]", l.message(), l.get_problem_text()),
        sugg: l.suggestions().iter().map(|s| format!("{}:{}", format!("{:?}", s.kind()).to_lowercase(), s.get_replacement_text())).collect(),
    }
}
/// Why do two answers differ?  Returns (class, description).  The class is
/// `nondet_user_dict_suggestions` exactly when the two lists agree in everything but the suggestion lists
/// of spelling lints, and each of those differing lists offers a word of the user dictionary.
fn explain_diff(a: &[RL], b: &[RL], user_words: &[String], default_class: &str) -> (String, String) {
    let is_user = |s: &String| {
        let w = s.split(':').nth(1).unwrap_or("").to_lowercase();
        user_words.iter().any(|u| u.to_lowercase() == w)
    };
    if a.len() == b.len() {
        let mut only_sugg = true;
        let mut desc = vec![];
        for (x, y) in a.iter().zip(b) {
            if x == y {
                continue;
            }
            let same_but_sugg = x.start == y.start && x.end == y.end && x.kind == y.kind && x.prio == y.prio && x.message == y.message;
            if same_but_sugg && x.kind.starts_with("Spelling") && x.sugg.iter().any(is_user) && y.sugg.iter().any(is_user) {
                desc.push(format!("spelling lint {}..{} {:?}: suggestions {:?} vs {:?}", x.start, x.end, x.message, x.sugg, y.sugg));
            } else {
                only_sugg = false;
                desc.push(format!("{:?} vs {:?}", x, y));
            }
        }
        if only_sugg && !desc.is_empty() {
            return ("nondet_user_dict_suggestions".into(), format!("same lints, but the suggestions drawn from the user dictionary differ (selection and order among equidistant candidates): {}", desc.join("; ")));
        }
        return (default_class.into(), desc.join("; "));
    }
    let only_a: Vec<&RL> = a.iter().filter(|x| !b.contains(x)).collect();
    let only_b: Vec<&RL> = b.iter().filter(|x| !a.contains(x)).collect();
    (default_class.into(), format!("{} lints vs {}; only in the first: {:?}; only in the second: {:?}", a.len(), b.len(), only_a, only_b))
}

// ------------------------------------------------------------------------------------------------
// harper_wasm::Linter: one instance serving plain text and Markdown (oracle only)
// ------------------------------------------------------------------------------------------------
fn wasm_lang(fe: &str) -> harper_wasm::Language {
    if fe == "markdown" { harper_wasm::Language::Markdown } else { harper_wasm::Language::Plain }
}
fn wasm_dialect(s: &str) -> harper_wasm::Dialect {
    match s {
        "British" => harper_wasm::Dialect::British,
        "Canadian" => harper_wasm::Dialect::Canadian,
        "Australian" => harper_wasm::Dialect::Australian,
        _ => harper_wasm::Dialect::American,
    }
}
fn wasm_render(ls: &[harper_wasm::Lint]) -> Vec<RL> {
    ls.iter().map(rl_of_wasm).collect()
}
/// first Lint step of a wasm history whose answer differs from a freshly built Linter: (index, class, what)
fn wasm_first_failure(w: &World, h: &History, mut on_step: impl FnMut(bool)) -> Option<(usize, String, String)> {
    let mut lt = harper_wasm::Linter::new(wasm_dialect(&h.dialect));
    if !h.user_words.is_empty() {
        lt.import_words(h.user_words.clone());
    }
    let mut prev_fe: Option<String> = None;
    for (i, op) in h.ops.iter().enumerate() {
        match op {
            Op::Cfg(spec) => {
                let c = build_cfg(spec, &w.all_keys);
                let _ = lt.set_lint_config_from_json(serde_json::to_string(&c).unwrap());
            }
            Op::Lint { fe, text } => {
                let reused = guarded(|| wasm_render(&lt.lint(text.clone(), wasm_lang(fe))));
                let cfg_json = lt.get_lint_config_as_json();
                let words = h.user_words.clone();
                let dialect = wasm_dialect(&h.dialect);
                let fresh = guarded(|| {
                    let mut f = harper_wasm::Linter::new(dialect);
                    if !words.is_empty() {
                        f.import_words(words);
                    }
                    let _ = f.set_lint_config_from_json(cfg_json);
                    wasm_render(&f.lint(text.clone(), wasm_lang(fe)))
                });
                let (Ok(a), Ok(b)) = (reused, fresh) else { return None };
                on_step(!a.is_empty());
                if a != b {
                    let tag = format!("wasm[{}->{}]", prev_fe.clone().unwrap_or_else(|| "none".into()), fe);
                    let (class, d) = explain_diff(&a, &b, &h.user_words, "wasm_reused_ne_fresh");
                    return Some((i, class, format!("{tag} the long-lived harper_wasm::Linter and a freshly built one disagree: {d}")));
                }
                prev_fe = Some(fe.clone());
            }
        }
    }
    None
}
fn run_wasm(w: &mut World, rep: &mut Report, h: &History) {
    let mut steps = 0u64;
    let mut with_lints = 0u64;
    let r = wasm_first_failure(w, h, |nonempty| {
        steps += 1;
        if nonempty {
            with_lints += 1;
        }
    });
    rep.evaluations += steps;
    rep.count_n("wasm:lint_steps", steps);
    rep.count_n("wasm:lint_steps_with_lints", with_lints);
    rep.nontrivial(&format!("{:?}", h.ops));
    if let Some((i, class, _)) = r {
        let class0 = class.clone();
        let mut cur = h.clone();
        cur.ops.truncate(i + 1);
        let mut j = 0;
        let mut budget = 30;
        while j + 1 < cur.ops.len() && budget > 0 {
            let mut cand = cur.clone();
            cand.ops.remove(j);
            budget -= 1;
            let n = cand.ops.len();
            if matches!(wasm_first_failure(w, &cand, |_| {}), Some((k, c, _)) if k + 1 == n && c == class0) {
                cur = cand;
            } else {
                j += 1;
            }
        }
        let what = wasm_first_failure(w, &cur, |_| {}).map(|x| x.2).unwrap_or_default();
        rep.fail(&class, what, cur.to_json());
    }
}

// ------------------------------------------------------------------------------------------------
// threads and processes
// ------------------------------------------------------------------------------------------------
#[derive(Clone)]
struct Batch {
    dialect: String,
    user_words: Vec<String>,
    docs: Vec<(String, String)>,
}
impl Batch {
    fn to_json(&self, kind: &str) -> Value {
        json!({"kind": kind, "dialect": self.dialect, "user_words": self.user_words, "docs": self.docs.iter().map(|(f, t)| json!({"fe": f, "text": t})).collect::<Vec<_>>()})
    }
    fn from_json(v: &Value) -> Batch {
        Batch {
            dialect: v["dialect"].as_str().unwrap_or("American").to_string(),
            user_words: v["user_words"].as_array().map(|a| a.iter().filter_map(|x| x.as_str().map(|s| s.to_string())).collect()).unwrap_or_default(),
            docs: v["docs"].as_array().map(|a| a.iter().map(|d| (d["fe"].as_str().unwrap_or("plain").to_string(), d["text"].as_str().unwrap_or("").to_string())).collect()).unwrap_or_default(),
        }
    }
    /// lint every document with one linter built here (dictionary, documents and linter all created by the caller's thread)
    fn lint_all(&self) -> Vec<Vec<RL>> {
        let dict = mk_dict(&self.user_words);
        let mut g = LintGroup::new_curated(dict.clone(), dialect_of(&self.dialect));
        self.docs
            .iter()
            .map(|(fe, text)| match guarded(|| g.lint(&mk_doc(fe, text, &dict))) {
                Ok(l) => l.iter().map(rl_of).collect(),
                Err(m) => vec![panic_rl(&m)],
            })
            .collect()
    }
}
fn panic_rl(m: &str) -> RL {
    RL { start: 0, end: 0, kind: "PANIC".into(), prio: 0, message: m.to_string(), sugg: vec![] }
}
fn first_diff(a: &[Vec<RL>], b: &[Vec<RL>]) -> Option<usize> {
    (0..a.len().max(b.len())).find(|i| a.get(*i) != b.get(*i))
}
fn check_threads(rep: &mut Report, b: &Batch) {
    let base = b.lint_all();
    rep.evaluations += b.docs.len() as u64;
    // (a) eight independent linters, concurrently, each built by its own thread
    let results: Vec<Vec<Vec<RL>>> = std::thread::scope(|s| {
        let hs: Vec<_> = (0..8).map(|_| s.spawn(|| b.lint_all())).collect();
        hs.into_iter().map(|h| h.join().unwrap_or_default()).collect()
    });
    let mut seen: std::collections::HashSet<String> = Default::default();
    for (t, r) in results.iter().enumerate() {
        for i in 0..base.len().max(r.len()) {
            if base.get(i) == r.get(i) {
                continue;
            }
            let (class, d) = explain_diff(r.get(i).map(|v| &v[..]).unwrap_or(&[]), base.get(i).map(|v| &v[..]).unwrap_or(&[]), &b.user_words, "thread_dependent");
            if seen.insert(class.clone()) {
                let one = Batch { dialect: b.dialect.clone(), user_words: b.user_words.clone(), docs: vec![b.docs[i.min(b.docs.len() - 1)].clone()] };
                rep.fail(&class, format!("[threads] a document gets different lints from a linter built and run on thread {t} than from one built and run on the main thread: {d}"), one.to_json("threads"));
            }
        }
    }
    // (b) ONE long-lived linter handed from thread to thread, one document per thread in turn — compared
    // with a second linter over the SAME dictionary instance that stays on this thread
    let dict = mk_dict(&b.user_words);
    let mut stay = LintGroup::new_curated(dict.clone(), dialect_of(&b.dialect));
    let group = Mutex::new(LintGroup::new_curated(dict.clone(), dialect_of(&b.dialect)));
    for (i, (fe, text)) in b.docs.iter().enumerate() {
        let here: Vec<RL> = match guarded(|| stay.lint(&mk_doc(fe, text, &dict))) {
            Ok(l) => l.iter().map(rl_of).collect(),
            Err(m) => vec![panic_rl(&m)],
        };
        let there: Vec<RL> = std::thread::scope(|s| {
            s.spawn(|| {
                let mut g = group.lock().unwrap();
                match guarded(|| g.lint(&mk_doc(fe, text, &dict))) {
                    Ok(l) => l.iter().map(rl_of).collect::<Vec<_>>(),
                    Err(m) => vec![panic_rl(&m)],
                }
            })
            .join()
            .unwrap_or_default()
        });
        if here != there {
            let (class, d) = explain_diff(&there, &here, &b.user_words, "thread_dependent");
            if seen.insert(format!("b:{class}")) {
                let one = Batch { dialect: b.dialect.clone(), user_words: b.user_words.clone(), docs: b.docs[..=i].to_vec() };
                rep.fail(&class, format!("[threads] a document gets different lints when the one long-lived linter is handed from thread to thread (same dictionary instance): {d}"), one.to_json("threads"));
            }
        }
    }
    rep.count_n("threads:documents_x9_threads", b.docs.len() as u64);
    rep.monitor("thread_independence:documents_compared", (b.docs.len() * 9) as u64);
}
/// the same documents on several linters, each built from scratch on this thread (own dictionary instances with
/// their own hash seeds): LintGroup x5 and harper_wasm::Linter x3 (plain / Markdown by the document's front-end)
fn check_instances(rep: &mut Report, b: &Batch) {
    let base = b.lint_all();
    rep.evaluations += b.docs.len() as u64;
    let mut seen: std::collections::HashSet<String> = Default::default();
    for k in 1..5 {
        let r = b.lint_all();
        for i in 0..base.len().max(r.len()) {
            if base.get(i) == r.get(i) {
                continue;
            }
            let (class, d) = explain_diff(r.get(i).map(|v| &v[..]).unwrap_or(&[]), base.get(i).map(|v| &v[..]).unwrap_or(&[]), &b.user_words, "instance_dependent");
            if seen.insert(class.clone()) {
                let one = Batch { dialect: b.dialect.clone(), user_words: b.user_words.clone(), docs: vec![b.docs[i.min(b.docs.len() - 1)].clone()] };
                rep.fail(&class, format!("[instances] a document gets different lints from linter #{k} than from linter #0, both built the same way (same dictionary contents, dialect, configuration) on one thread: {d}"), one.to_json("instances"));
            }
        }
    }
    let wasm_all = || -> Vec<Vec<RL>> {
        let mut lt = harper_wasm::Linter::new(wasm_dialect(&b.dialect));
        if !b.user_words.is_empty() {
            lt.import_words(b.user_words.clone());
        }
        b.docs.iter().map(|(fe, text)| guarded(|| wasm_render(&lt.lint(text.clone(), wasm_lang(fe)))).unwrap_or_else(|m| vec![panic_rl(&m)])).collect()
    };
    let wbase = wasm_all();
    for k in 1..3 {
        let r = wasm_all();
        for i in 0..wbase.len().max(r.len()) {
            if wbase.get(i) == r.get(i) {
                continue;
            }
            let (class, d) = explain_diff(r.get(i).map(|v| &v[..]).unwrap_or(&[]), wbase.get(i).map(|v| &v[..]).unwrap_or(&[]), &b.user_words, "instance_dependent");
            if seen.insert(format!("wasm:{class}")) {
                let one = Batch { dialect: b.dialect.clone(), user_words: b.user_words.clone(), docs: vec![b.docs[i.min(b.docs.len() - 1)].clone()] };
                rep.fail(&class, format!("[instances] a document gets different lints from harper_wasm::Linter #{k} than from #0, both built the same way: {d}"), one.to_json("instances"));
            }
        }
    }
    rep.count_n("instances:documents_x5_linters_x3_wasm_linters", b.docs.len() as u64);
    rep.monitor("instance_independence:documents_compared", (b.docs.len() * 6) as u64);
}
fn child_main(path: &str) {
    hv::common::install_panic_hook();
    let v: Value = serde_json::from_str(&std::fs::read_to_string(path).unwrap_or_default()).unwrap_or(Value::Null);
    let b = Batch::from_json(&v);
    println!("{}", serde_json::to_string(&b.lint_all()).unwrap());
}
fn check_processes(rep: &mut Report, b: &Batch, out_dir: &str) {
    let base = b.lint_all();
    rep.evaluations += b.docs.len() as u64;
    let path = format!("{out_dir}/procs-input.json");
    std::fs::write(&path, serde_json::to_string(&b.to_json("procs")).unwrap()).unwrap();
    let exe = std::env::current_exe().unwrap();
    let mut seen: std::collections::HashSet<String> = Default::default();
    let children: Vec<_> = (0..3).map(|_| std::process::Command::new(&exe).env("C05_CHILD", &path).stdout(std::process::Stdio::piped()).spawn()).collect();
    for (k, c) in children.into_iter().enumerate() {
        let Ok(c) = c else {
            rep.count("procs:spawn_failed");
            continue;
        };
        let out = c.wait_with_output().map(|o| String::from_utf8_lossy(&o.stdout).to_string()).unwrap_or_default();
        let r: Vec<Vec<RL>> = serde_json::from_str(out.trim()).unwrap_or_default();
        for i in 0..base.len().max(r.len()) {
            if base.get(i) == r.get(i) {
                continue;
            }
            let (class, d) = explain_diff(r.get(i).map(|v| &v[..]).unwrap_or(&[]), base.get(i).map(|v| &v[..]).unwrap_or(&[]), &b.user_words, "process_dependent");
            if seen.insert(class.clone()) {
                let one = Batch { dialect: b.dialect.clone(), user_words: b.user_words.clone(), docs: vec![b.docs[i.min(b.docs.len() - 1)].clone()] };
                rep.fail(&class, format!("[procs] a document gets different lints in child process {k} than in this process: {d}"), one.to_json("procs"));
            }
        }
    }
    rep.count_n("procs:documents_x3_processes", b.docs.len() as u64);
    rep.monitor("process_independence:documents_compared", (b.docs.len() * 3) as u64);
}


// ------------------------------------------------------------------------------------------------
// the ENTRY POINTS replayed by the extracted model (Model/C05Entry.v): harper_wasm::Linter::lint and harper-ls
// DocumentState::generate_diagnostics over histories of  set-config | lint | ignore_lint | clear ignored |
// import words / dictionary change (a rebuild of the LintGroup).
//   * the model is given, per lint, what a SHADOW linter (a freshly built probed LintGroup with the entry
//     point's effective configuration and dictionary) computes without any cache: struct lints, rejected
//     words, per-chunk pattern lints, and the context hash of every lint; it computes the effective
//     configuration (fill_with_curated of ITS stored configuration — must be one the harness registered
//     from the real fill_with_curated), SpellCheck's enabled-ness, the caches, remove_overlaps (wasm),
//     remove_ignored, and must print the very lints the entry point returns;
//   * harper-ls: DocumentState.linter is a probed group, so chunk/word cache hits are compared as well;
//   * every configuration-changing operation: the model's stored configuration must equal the real one;
//   * oracle: every lint step vs a freshly built entry point in the same abstract state (user words, stored
//     configuration, exported ignore list).
// ------------------------------------------------------------------------------------------------
#[derive(Clone, Debug, PartialEq)]
enum EOp {
    Cfg(CfgSpec),
    Lint { fe: String, text: String },
    Ignore(usize),
    ClearIgnored,
    Words(Vec<String>),
}
#[derive(Clone, Debug)]
struct EHistory {
    target: String, // wasm | ls
    dialect: String,
    ops: Vec<EOp>,
}
impl EHistory {
    fn to_json(&self) -> Value {
        let ops: Vec<Value> = self
            .ops
            .iter()
            .map(|o| match o {
                EOp::Cfg(c) => json!({"op": "cfg", "base": c.base, "set": c.set}),
                EOp::Lint { fe, text } => json!({"op": "lint", "fe": fe, "text": text}),
                EOp::Ignore(n) => json!({"op": "ignore", "nth": n}),
                EOp::ClearIgnored => json!({"op": "clear_ignored"}),
                EOp::Words(ws) => json!({"op": "words", "words": ws}),
            })
            .collect();
        json!({"kind": "entry", "target": self.target, "dialect": self.dialect, "ops": ops})
    }
    fn from_json(v: &Value) -> EHistory {
        let ops = v["ops"]
            .as_array()
            .map(|a| {
                a.iter()
                    .filter_map(|o| match o["op"].as_str() {
                        Some("cfg") => {
                            let mut set = BTreeMap::new();
                            if let Some(m) = o["set"].as_object() {
                                for (k, x) in m {
                                    set.insert(k.clone(), x.as_bool());
                                }
                            }
                            Some(EOp::Cfg(CfgSpec { base: o["base"].as_str().unwrap_or("curated").to_string(), set }))
                        }
                        Some("lint") => Some(EOp::Lint { fe: o["fe"].as_str().unwrap_or("plain").to_string(), text: o["text"].as_str().unwrap_or("").to_string() }),
                        Some("ignore") => Some(EOp::Ignore(o["nth"].as_u64().unwrap_or(0) as usize)),
                        Some("clear_ignored") => Some(EOp::ClearIgnored),
                        Some("words") => Some(EOp::Words(o["words"].as_array().map(|a| a.iter().filter_map(|x| x.as_str().map(|s| s.to_string())).collect()).unwrap_or_default())),
                        _ => None,
                    })
                    .collect()
            })
            .unwrap_or_default();
        EHistory { target: v["target"].as_str().unwrap_or("wasm").to_string(), dialect: v["dialect"].as_str().unwrap_or("American").to_string(), ops }
    }
}

/// a configuration for the model: entries in key order, `key bytes=1|0|-`, separated by ';'
fn render_cfg(c: &LintGroupConfig) -> String {
    let v = serde_json::to_value(c).unwrap();
    let m: BTreeMap<String, Option<bool>> = v.as_object().map(|o| o.iter().map(|(k, x)| (k.clone(), x.as_bool())).collect()).unwrap_or_default();
    m.iter()
        .map(|(k, x)| format!("{}={}", k.as_bytes().iter().map(|b| b.to_string()).collect::<Vec<_>>().join(" "), match x { Some(true) => "1", Some(false) => "0", None => "-" }))
        .collect::<Vec<_>>()
        .join(";")
}
/// the hash of LintContext::from_lint(lint, document), through the public API: ignore it in an empty list, export
fn ctx_hash(l: &Lint, doc: &Document) -> u64 {
    let mut ig = harper_core::IgnoredLints::new();
    ig.ignore_lint(l, doc);
    let v = serde_json::to_value(&ig).unwrap();
    v["context_hashes"].as_array().and_then(|a| a.first()).and_then(|x| x.as_u64()).unwrap_or(0)
}
fn sugg_vis(s: &Suggestion) -> String {
    match s {
        Suggestion::ReplaceWith(c) => format!("replace:{}", c.iter().collect::<String>()),
        Suggestion::InsertAfter(c) => format!("insertafter:{}", c.iter().collect::<String>()),
        Suggestion::Remove => "remove:".to_string(),
    }
}
/// what an integration can see of a lint besides its span: wasm — kind, suggestions, message; harper-ls — the message
fn vis_core(target: &str, l: &Lint) -> String {
    if target == "ls" {
        format!("s:{}", l.message)
    } else {
        format!("w:{}|{:?}|{}", l.lint_kind.to_string_key(), l.suggestions.iter().map(sugg_vis).collect::<Vec<_>>(), l.message)
    }
}
fn vis_wasm(l: &harper_wasm::Lint) -> String {
    format!("w:{}|{:?}|{}", l.lint_kind(), l.suggestions().iter().map(|s| format!("{}:{}", format!("{:?}", s.kind()).to_lowercase(), s.get_replacement_text())).collect::<Vec<_>>(), l.message())
}
fn is_sentinel(l: &Lint) -> bool {
    l.message.starts_with('\u{1}')
}

struct EntryWorld {
    vis: Interner<String>,
    ctxs: Interner<u64>,
    announced_p: std::collections::HashSet<(String, usize)>,
    announced_k: std::collections::HashSet<String>,
}
impl EntryWorld {
    fn new() -> Self {
        EntryWorld { vis: Interner::new(), ctxs: Interner::new(), announced_p: Default::default(), announced_k: Default::default() }
    }
}

enum EntryImpl {
    Wasm { lt: harper_wasm::Linter, last_out: Vec<harper_wasm::Lint> },
    Ls { ds: Box<lsx::document_state::DocumentState>, probe: Arc<Mutex<ProbeState>>, spy: Arc<SpyDict>, cfg: LintGroupConfig, last_lints: Vec<Lint> },
}
struct EntryRun {
    target: String,
    dialect_s: String,
    dialect: Dialect,
    words: Vec<String>,
    mirror: MutableDictionary,
    dict: Dict,
    dictid: usize,
    imp: EntryImpl,
    last: Option<(String, String)>,
    lru: LruSim,
    keyids: Interner<(Vec<char>, usize, usize)>,
    pending_evict: Vec<usize>,
    evictions: u64,
}
fn ls_group(dict: &Dict, dialect: Dialect, cfg: &LintGroupConfig) -> Probed {
    let mut p = mk_group(dict, dialect);
    let mut c = cfg.clone();
    enable_probes(&mut c);
    p.group.config = c;
    p
}
fn clone_ignored(i: &harper_core::IgnoredLints) -> harper_core::IgnoredLints {
    serde_json::from_value(serde_json::to_value(i).unwrap()).unwrap()
}
type DiagKey = (usize, usize, String);
fn diag_keys(src: &[char], ds: &[lsx::tower_lsp::lsp_types::Diagnostic]) -> Vec<DiagKey> {
    ds.iter()
        .map(|d| {
            let sp = lsx::pos_conv::range_to_span(src, d.range);
            (sp.start, sp.end, d.message.clone())
        })
        .collect()
}

impl EntryRun {
    fn dict_name(&self) -> String {
        let mut ws = self.words.clone();
        ws.sort();
        format!("entry|{}|{:?}", self.dialect_s, ws)
    }
    fn new(w: &mut World, ew: &mut EntryWorld, rep: &mut Report, h: &EHistory) -> EntryRun {
        let dialect = dialect_of(&h.dialect);
        let dict = mk_dict(&[]);
        let curated = LintGroupConfig::new_curated();
        rep.case(&format!("X|{}", render_cfg(&curated)), "ok");
        let imp = if h.target == "ls" {
            let mut cfg = LintGroupConfig::default();
            enable_probes(&mut cfg);
            let Probed { group, probe, spy } = ls_group(&dict, dialect, &cfg);
            let ds = lsx::document_state::DocumentState { linter: group, dict: dict.clone(), base_dict: dict.clone(), language_id: Some("plaintext".into()), ..Default::default() };
            EntryImpl::Ls { ds: Box::new(ds), probe, spy, cfg, last_lints: vec![] }
        } else {
            EntryImpl::Wasm { lt: harper_wasm::Linter::new(wasm_dialect(&h.dialect)), last_out: vec![] }
        };
        let mut r = EntryRun { target: h.target.clone(), dialect_s: h.dialect.clone(), dialect, words: vec![], mirror: MutableDictionary::new(), dict, dictid: 0, imp, last: None, lru: LruSim::new(lru_cap()), keyids: Interner::new(), pending_evict: vec![], evictions: 0 };
        r.dictid = w.dicts.id(&r.dict_name());
        let _ = ew;
        match &r.imp {
            EntryImpl::Wasm { lt, .. } => {
                let stored: LintGroupConfig = serde_json::from_str(&lt.get_lint_config_as_json()).unwrap();
                rep.case(&format!("EN w {}", r.dictid), &render_cfg(&stored));
            }
            EntryImpl::Ls { ds, .. } => {
                let line = render_cfg(&ds.linter.config);
                rep.case(&format!("EN s {}|{}", r.dictid, line), &line);
            }
        }
        r
    }
    fn stored(&self) -> LintGroupConfig {
        match &self.imp {
            EntryImpl::Wasm { lt, .. } => serde_json::from_str(&lt.get_lint_config_as_json()).unwrap(),
            EntryImpl::Ls { ds, .. } => ds.linter.config.clone(),
        }
    }
    fn reset_lru(&mut self) {
        self.lru = LruSim::new(lru_cap());
        self.keyids = Interner::new();
        self.pending_evict.clear();
    }
    fn set_cfg(&mut self, w: &mut World, rep: &mut Report, spec: &CfgSpec) {
        let c = build_cfg(spec, &w.all_keys);
        let dictid = self.dictid;
        match &mut self.imp {
            EntryImpl::Wasm { lt, .. } => {
                let _ = lt.set_lint_config_from_json(serde_json::to_string(&c).unwrap());
                let stored: LintGroupConfig = serde_json::from_str(&lt.get_lint_config_as_json()).unwrap();
                rep.case(&format!("EC|{}", render_cfg(&c)), &render_cfg(&stored));
            }
            EntryImpl::Ls { ds, probe, spy, cfg, .. } => {
                // did_change_configuration: doc.linter = LintGroup::new_curated(doc.dict.clone(), dialect).with_lint_config(lint_config)
                let mut c = c;
                enable_probes(&mut c);
                *cfg = c.clone();
                let Probed { group, probe: p2, spy: s2 } = ls_group(&self.dict, self.dialect, &c);
                ds.linter = group;
                *probe = p2;
                *spy = s2;
                let line = render_cfg(&ds.linter.config);
                rep.case(&format!("ER {}|{}", dictid, render_cfg(&c)), &line);
                self.reset_lru();
            }
        }
    }
    fn add_words(&mut self, w: &mut World, rep: &mut Report, ws: &[String]) {
        let before = self.mirror.clone();
        self.mirror.extend_words(ws.iter().map(|x| (x.chars().collect::<harper_core::CharString>(), WordMetadata::default())));
        let changed = self.mirror != before;
        match &mut self.imp {
            EntryImpl::Wasm { lt, .. } => {
                lt.import_words(ws.to_vec());
                self.words = lt.export_words();
            }
            EntryImpl::Ls { .. } => {
                self.words = self.mirror.words_iter().map(|v| v.iter().collect::<String>()).collect();
            }
        }
        if !changed {
            rep.count("entry:words_without_change");
            return;
        }
        self.dict = mk_dict(&self.words);
        self.dictid = w.dicts.id(&self.dict_name());
        let dictid = self.dictid;
        match &mut self.imp {
            EntryImpl::Wasm { lt, .. } => {
                let stored: LintGroupConfig = serde_json::from_str(&lt.get_lint_config_as_json()).unwrap();
                rep.case(&format!("ED {}", dictid), &render_cfg(&stored));
            }
            EntryImpl::Ls { ds, probe, spy, cfg, .. } => {
                // update_document on a changed dictionary: new LintGroup over it, with_lint_config(lint_config)
                let Probed { group, probe: p2, spy: s2 } = ls_group(&self.dict, self.dialect, cfg);
                ds.linter = group;
                ds.dict = self.dict.clone();
                ds.base_dict = self.dict.clone();
                *probe = p2;
                *spy = s2;
                let line = render_cfg(&ds.linter.config);
                rep.case(&format!("ER {}|{}", dictid, render_cfg(cfg)), &line);
                self.reset_lru();
            }
        }
        rep.count("entry:dictionary_rebuilds");
    }
    fn clear_ignored(&mut self, rep: &mut Report) {
        match &mut self.imp {
            EntryImpl::Wasm { lt, .. } => lt.clear_ignored_lints(),
            EntryImpl::Ls { ds, .. } => ds.ignored_lints = harper_core::IgnoredLints::new(),
        }
        rep.case("EK", "ok");
    }
    fn ignore(&mut self, ew: &mut EntryWorld, rep: &mut Report, n: usize) {
        let Some((fe, text)) = self.last.clone() else { return };
        let doc = mk_doc(&fe, &text, &self.dict);
        let hid;
        match &mut self.imp {
            EntryImpl::Wasm { lt, last_out } => {
                if last_out.is_empty() {
                    return;
                }
                let l = &last_out[n % last_out.len()];
                let js = l.to_json();
                let Ok(core) = serde_json::from_value::<Lint>(serde_json::from_str::<Value>(&js).unwrap()["inner"].clone()) else { return };
                hid = ew.ctxs.id(&ctx_hash(&core, &doc));
                let Ok(copy) = harper_wasm::Lint::from_json(js) else { return };
                lt.ignore_lint(text.clone(), copy);
            }
            EntryImpl::Ls { ds, last_lints, .. } => {
                if last_lints.is_empty() {
                    return;
                }
                let l = last_lints[n % last_lints.len()].clone();
                hid = ew.ctxs.id(&ctx_hash(&l, &ds.document));
                ds.ignore_lint(&l);
            }
        }
        rep.case(&format!("EI {hid}"), "ok");
        rep.count("entry:ignore_ops");
    }

    /// one lint step; Ok(Some(what)) = the entry point disagrees with a freshly built one in the same abstract state
    fn lint(&mut self, w: &mut World, ew: &mut EntryWorld, rep: &mut Report, fe: &str, text: &str) -> Result<Option<(String, String)>, String> {
        let dict = self.dict.clone();
        let doc = guarded(|| mk_doc(fe, text, &dict)).map_err(|m| format!("parse panicked: {m}"))?;
        let src: Vec<char> = text.chars().collect();
        let is_ls = self.target == "ls";
        let tchar = if is_ls { "s" } else { "w" };
        // ---- the effective configuration, by the REAL fill_with_curated on the real stored configuration ----
        let stored = self.stored();
        let mut eff = stored.clone();
        eff.fill_with_curated();
        let eff_line = render_cfg(&eff);
        let cfgid = w.cfgs.id(&format!("entry:{eff_line}"));
        let hashid = w.streams.id(&hash_stream(&eff));
        match w.cfg_of_stream.get(&hashid) {
            Some((other, ojs)) if *other != cfgid && ojs != &eff_line && !ojs.starts_with('{') => {
                rep.monitor("cfg_hash:VIOLATED", 1);
                rep.fail("cfg_hash_collision", format!("two different effective configurations make identical calls on the hasher: {ojs} vs {eff_line}"), json!({"kind": "entry", "target": self.target, "dialect": self.dialect_s, "ops": []}));
            }
            Some(_) => {}
            None => {
                w.cfg_of_stream.insert(hashid, (cfgid, eff_line.clone()));
            }
        }
        rep.monitor("cfg_hash:configurations_checked", 1);
        if ew.announced_k.insert(eff_line.clone()) {
            rep.case(&format!("K {cfgid} {hashid}|{eff_line}"), "ok");
        }
        // ---- the shadow: a fresh probed LintGroup, effective configuration, same dictionary: everything uncached ----
        let mut sh = mk_group(&self.dict, self.dialect);
        let mut sc = eff.clone();
        enable_probes(&mut sc);
        sh.group.config = sc;
        let sdoc = doc.clone();
        let (out_s, _, _) = sh.lint(&sdoc).map_err(|m| format!("shadow lint panicked: {m}"))?;
        let Some((pre_s, groups_s)) = split_output(&out_s) else { return Err("probe sentinels missing from the shadow output".into()) };
        let Some((spre, spell_s, spost)) = split_struct(&pre_s) else { return Err("probe spelling markers missing from the shadow output".into()) };
        let keep = |ls: &[Lint]| -> Vec<Lint> { ls.iter().filter(|l| is_ls || !is_sentinel(l)).cloned().collect() };
        // ---- run the entry point ----
        let mut miss_g: Vec<usize> = vec![];
        let mut wmiss_g: Vec<Vec<char>> = vec![];
        let infos;
        let impl_lints: Vec<(usize, usize, usize)>;
        let mut diff: Option<String> = None;
        let mut wasm_core_diff: Option<String> = None;
        match &mut self.imp {
            EntryImpl::Wasm { lt, last_out } => {
                infos = chunk_infos(w, &doc);
                let out = guarded(|| lt.lint(text.to_string(), wasm_lang(fe))).map_err(|m| format!("wasm lint panicked: {m}"))?;
                impl_lints = out.iter().map(|l| (l.span().start, l.span().end, ew.vis.id(&vis_wasm(l)))).collect();
                // oracle: a freshly built Linter in the same abstract state
                let (words, cfg_json, ign, dl) = (lt.export_words(), lt.get_lint_config_as_json(), lt.export_ignored_lints(), wasm_dialect(&self.dialect_s));
                let fresh = guarded(|| {
                    let mut f = harper_wasm::Linter::new(dl);
                    if !words.is_empty() {
                        f.import_words(words);
                    }
                    let _ = f.set_lint_config_from_json(cfg_json);
                    let _ = f.import_ignored_lints(ign);
                    wasm_render(&f.lint(text.to_string(), wasm_lang(fe)))
                })
                .map_err(|m| format!("fresh wasm lint panicked: {m}"))?;
                let a = wasm_render(&out);
                if a != fresh {
                    let (_, d) = explain_diff(&a, &fresh, &self.words, "entry_reused_ne_fresh");
                    diff = Some(format!("harper_wasm::Linter ({fe}) and a freshly built one with the same words, configuration and ignore list disagree: {d}"));
                }
                // oracle: the answer is a function of (text, language, dictionary, configuration, ignore list) — computed
                // from harper-core's public pieces WITHOUT harper-wasm's rebuild path (a fresh harper_wasm::Linter goes
                // through the same import_words -> synchronize_lint_dict as the long-lived one, so a rebuild that is
                // skipped or done over the wrong dictionary makes "reused" and "fresh" agree with each other): a new
                // LintGroup over curated + export_words() with the effective configuration, remove_overlaps, the exported
                // ignore list.  The dictionary is what the Linter itself reports (export_words), not what we fed it.
                if diff.is_none() {
                    let ign_json = lt.export_ignored_lints();
                    let wdict = mk_dict(&lt.export_words());
                    let (effc, dialect) = (eff.clone(), self.dialect);
                    let wdoc = guarded(|| mk_doc(fe, text, &wdict)).map_err(|m| format!("parse panicked: {m}"))?;
                    let core = guarded(|| {
                        let mut g = LintGroup::new_curated(wdict.clone(), dialect);
                        g.config = effc;
                        let mut ls = g.lint(&wdoc);
                        harper_core::remove_overlaps(&mut ls);
                        if let Ok(ig) = serde_json::from_str::<harper_core::IgnoredLints>(&ign_json) {
                            ig.remove_ignored(&mut ls, &wdoc);
                        }
                        ls.iter().map(|l| (l.span.start, l.span.end, vis_core("wasm", l))).collect::<Vec<_>>()
                    })
                    .map_err(|m| format!("core lint panicked: {m}"))?;
                    let got: Vec<(usize, usize, String)> = out.iter().map(|l| (l.span().start, l.span().end, vis_wasm(l))).collect();
                    rep.monitor("wasm_vs_core:lint_steps_compared", 1);
                    if got != core {
                        let only_w: Vec<&(usize, usize, String)> = got.iter().filter(|x| !core.contains(x)).collect();
                        let only_c: Vec<&(usize, usize, String)> = core.iter().filter(|x| !got.contains(x)).collect();
                        wasm_core_diff = Some(format!("harper_wasm::Linter ({fe}) whose dictionary is curated + {:?} answers differently from a LintGroup built over that dictionary with the same effective configuration and ignore list (harper-core only: new_curated, lint, remove_overlaps, remove_ignored): {} vs {} lints; only wasm: {:?}; only core: {:?}", lt.export_words(), got.len(), core.len(), only_w, only_c));
                    }
                }
                *last_out = out;
            }
            EntryImpl::Ls { ds, probe, spy, last_lints, .. } => {
                ds.document = doc.clone();
                infos = chunk_infos(w, &ds.document);
                {
                    let mut s = probe.lock().unwrap();
                    s.misses.clear();
                    s.prev_len = 0;
                    s.prev_ptr = 0;
                }
                spy.log.lock().unwrap().clear();
                let dsr: &mut lsx::document_state::DocumentState = ds;
                let diags = guarded(|| dsr.generate_diagnostics(lsx::config::DiagnosticSeverity::Hint)).map_err(|m| format!("generate_diagnostics panicked: {m}"))?;
                miss_g = std::mem::take(&mut probe.lock().unwrap().misses);
                wmiss_g = std::mem::take(&mut *spy.log.lock().unwrap());
                let keys = diag_keys(&src, &diags);
                impl_lints = keys.iter().map(|(a, b, m)| (*a, *b, ew.vis.id(&format!("s:{m}")))).collect();
                // oracle: a freshly built DocumentState in the same abstract state
                let fg = ls_group(&self.dict, self.dialect, &stored);
                let mut fds = lsx::document_state::DocumentState { document: doc.clone(), linter: fg.group, dict: self.dict.clone(), base_dict: self.dict.clone(), ignored_lints: clone_ignored(&ds.ignored_lints), language_id: Some("plaintext".into()), ..Default::default() };
                let fdiags = guarded(|| fds.generate_diagnostics(lsx::config::DiagnosticSeverity::Hint)).map_err(|m| format!("fresh generate_diagnostics panicked: {m}"))?;
                let fkeys = diag_keys(&src, &fdiags);
                if keys != fkeys {
                    let only_a: Vec<&DiagKey> = keys.iter().filter(|x| !fkeys.contains(x)).collect();
                    let only_b: Vec<&DiagKey> = fkeys.iter().filter(|x| !keys.contains(x)).collect();
                    diff = Some(format!("DocumentState::generate_diagnostics ({fe}) on the long-lived state and on a freshly built one with the same dictionary, configuration and ignore list disagree: {} vs {} diagnostics; only reused: {:?}; only fresh: {:?}", keys.len(), fkeys.len(), only_a, only_b));
                }
                *last_lints = out_s.iter().filter(|l| !is_sentinel(l)).cloned().collect();
            }
        }
        self.last = Some((fe.to_string(), text.to_string()));
        // ---- the case ----
        let mut announce = |ew: &mut EntryWorld, rep: &mut Report, w: &mut World, l: &Lint| -> usize {
            let pid = w.payloads.id(&payload(l));
            if ew.announced_p.insert((tchar.to_string(), pid)) {
                let vid = ew.vis.id(&vis_core(if is_ls { "ls" } else { "wasm" }, l));
                rep.case(&format!("P {tchar} {pid} {vid}"), "ok");
            }
            pid
        };
        let mut line_of = |ew: &mut EntryWorld, rep: &mut Report, w: &mut World, ls: &[Lint], base: usize| -> Option<String> {
            let mut v = vec![];
            for l in ls {
                if l.span.start < base || l.span.end < l.span.start {
                    return None;
                }
                let pid = announce(ew, rep, w, l);
                v.push(format!("{} {} {}", l.span.start - base, l.span.end - base, pid));
            }
            Some(v.join(" "))
        };
        let pre_line = line_of(ew, rep, w, &keep(&spre), 0).unwrap_or_default();
        let post_line = line_of(ew, rep, w, &keep(&spost), 0).unwrap_or_default();
        let word_of = |l: &Lint| -> Vec<char> { src[l.span.start.min(src.len())..l.span.end.min(src.len())].to_vec() };
        let mut wfields = vec![];
        let mut whm = String::new();
        {
            let mut p = 0usize;
            for l in spell_s.iter() {
                let wd = word_of(l);
                let missed = p < wmiss_g.len() && wmiss_g[p] == wd;
                if missed {
                    p += 1;
                }
                whm.push(if missed { 'm' } else { 'h' });
                let pid = w.payloads.id(&payload(l));
                let _ = line_of(ew, rep, w, std::slice::from_ref(l), 0);
                wfields.push(format!("{} {} {}", l.span.start, l.span.end, pid));
            }
        }
        let with_hull: Vec<&ChunkInfo> = infos.iter().filter(|c| c.hull.is_some()).collect();
        if groups_s.len() != with_hull.len() {
            return Err(format!("probe: {} chunk sentinels for {} chunks", groups_s.len(), with_hull.len()));
        }
        let mut fields = vec![];
        let mut hm = String::new();
        let mut gi = 0usize;
        for ci in &infos {
            let Some(hull) = ci.hull else {
                fields.push("-".to_string());
                continue;
            };
            let chars: Vec<char> = src[hull.start.min(src.len())..hull.end.min(src.len())].to_vec();
            let kid = self.keyids.id(&(chars.clone(), hashid, ci.thid));
            let mut evict_before: Vec<String> = vec![];
            if is_ls {
                evict_before = std::mem::take(&mut self.pending_evict).iter().map(|k| k.to_string()).collect();
                let missed = miss_g.contains(&ci.first_tok_start);
                hm.push(if missed { 'M' } else { 'H' });
                if !self.lru.get(kid) {
                    if let Some(old) = self.lru.put(kid) {
                        self.pending_evict.push(old);
                        self.evictions += 1;
                    }
                }
            }
            let Some(known) = line_of(ew, rep, w, &keep(&groups_s[gi]), hull.start) else {
                return Err("a pattern lint starts before its chunk".into());
            };
            fields.push(format!("{} {}:{}:{}:{}", kid, ci.thid, known, evict_before.join(" "), ci.tokens));
            gi += 1;
        }
        // the context hash of every lint LintGroup::lint can return here
        let mut cfields = vec![];
        for l in keep(&out_s).iter() {
            let pid = w.payloads.id(&payload(l));
            cfields.push(format!("{} {} {} {}", l.span.start, l.span.end, pid, ew.ctxs.id(&ctx_hash(l, &doc))));
        }
        let case = format!("EL {tchar}|{}|{}|{}|{}|{}|{}", cps(&src), pre_line, wfields.join(";"), post_line, fields.join(";"), cfields.join(";"));
        let lints = impl_lints.iter().map(|(a, b, v)| format!("{a} {b} {v}")).collect::<Vec<_>>().join(" ");
        let impl_line = if is_ls { format!("{}|{}|{}", lints, hm, if eff.is_rule_enabled("SpellCheck") { whm.clone() } else { String::new() }) } else { lints };
        rep.case(&case, impl_line.trim());
        rep.count(&format!("entry:{}:lint:{fe}", self.target));
        if !impl_lints.is_empty() {
            rep.count(&format!("entry:{}:lint_steps_with_lints", self.target));
        }
        if is_ls {
            rep.count_n("entry:ls:chunk_lookups", hm.len() as u64);
            rep.count_n("entry:ls:chunk_hits", hm.matches('H').count() as u64);
        }
        Ok(diff.map(|d| ("entry_reused_ne_fresh".to_string(), d)).or(wasm_core_diff.map(|d| ("entry_ne_core_same_state".to_string(), d))))
    }
}

fn run_entry(w: &mut World, ew: &mut EntryWorld, rep: &mut Report, h: &EHistory) {
    let mut run = EntryRun::new(w, ew, rep, h);
    for (i, op) in h.ops.iter().enumerate() {
        match op {
            EOp::Cfg(spec) => run.set_cfg(w, rep, spec),
            EOp::Words(ws) => run.add_words(w, rep, ws),
            EOp::ClearIgnored => run.clear_ignored(rep),
            EOp::Ignore(n) => run.ignore(ew, rep, *n),
            EOp::Lint { fe, text } => {
                rep.eval();
                match run.lint(w, ew, rep, fe, text) {
                    Err(m) => {
                        rep.count(&format!("entry:aborted_history({})", m.split(':').next().unwrap_or("")));
                        return;
                    }
                    Ok(None) => {}
                    Ok(Some((class, what))) => {
                        let mut failing = h.clone();
                        failing.ops.truncate(i + 1);
                        rep.fail(&class, what, failing.to_json());
                    }
                }
                rep.nontrivial(&(h.target.clone(), fe.clone(), text.clone(), i));
            }
        }
    }
    rep.count_n("entry:lru_evictions_replayed_by_the_model", run.evictions);
}

fn gen_entry_history(r: &mut Rng, w: &World, target: &str) -> EHistory {
    let n = r.range(4, 12);
    let mut ops = vec![];
    let mut pool = clause_pool(r);
    // words that will be added to the user dictionary in the middle of the history, misspelt and spelt right in the clauses
    let new_words: &[&str] = &["zorbla", "qzxv", "wrod", "Tuesdy", "frobnicate", "harperish"];
    let w1 = r.s(new_words).to_string();
    pool.push(format!("{} {} {}", r.s(gen::COMMON), w1, r.s(gen::COMMON)));
    pool.push(format!("{} {} {}", r.s(gen::COMMON), recase(r, &w1), r.s(gen::TRIGGERS)));
    let mut texts: Vec<String> = vec![];
    let mut cfgs: Vec<CfgSpec> = vec![];
    let mut added = false;
    for _ in 0..n {
        match r.below(10) {
            0 | 1 => {
                let c = if !cfgs.is_empty() && r.chance(1, 2) { r.pick(&cfgs[..]).clone() } else { gen_cfg(r, w) };
                cfgs.push(c.clone());
                ops.push(EOp::Cfg(c));
            }
            2 => ops.push(EOp::Ignore(r.below(6))),
            3 => {
                if r.chance(1, 3) {
                    ops.push(EOp::ClearIgnored)
                } else {
                    ops.push(EOp::Ignore(r.below(6)))
                }
            }
            4 => {
                // a new word; the same word again (no change); or a known word in another casing (a change without a new entry)
                let ws = if !added { vec![w1.clone()] } else { match r.below(3) { 0 => vec![w1.clone()], 1 => vec![recase(r, &w1)], _ => vec![r.s(new_words).to_string()] } };
                added = true;
                ops.push(EOp::Words(ws));
            }
            _ => {
                let text = if !texts.is_empty() && r.chance(1, 2) { r.pick(&texts[..]).clone() } else { text_from_pool(r, &pool) };
                texts.push(text.clone());
                let fe = if target == "wasm" { r.s(&["plain", "markdown"]) } else { r.s(&["plain", "plain", "markdown", "markdown-ilt", "html", "typst", "gitcommit"]) };
                ops.push(EOp::Lint { fe: fe.to_string(), text });
            }
        }
    }
    // every history ends with a document linted before
    if let Some(t) = texts.first() {
        ops.push(EOp::Lint { fe: "plain".into(), text: t.clone() });
    }
    EHistory { target: target.into(), dialect: r.s(&["American", "American", "British", "Canadian", "Australian"]).to_string(), ops }
}


// ------------------------------------------------------------------------------------------------
// SpellCheck.word_cache with the real replacement policy (Model/C05Lru.v): ONE long-lived SpellCheck over a
// spying dictionary (a `fuzzy_match(word, 2, _)` = a miss), document after document; the model (concrete LRU of
// the capacity read from spell_check.rs) must print the same lints and the same hit/miss flag per word.
// Thorough tier: more distinct rejected words than the capacity, early ones revisited: real evictions.
// ------------------------------------------------------------------------------------------------
fn word_cache_cap() -> usize {
    let src = std::fs::read_to_string("/repo/harper-core/src/linting/spell_check.rs").unwrap_or_default();
    src.split("word_cache: LruCache::new(NonZero::new(").nth(1).and_then(|r| r.split(')').next()).and_then(|n| n.replace('_', "").trim().parse().ok()).unwrap_or(10000)
}
fn spell_lints_line(w: &mut World, ls: &[Lint]) -> String {
    ls.iter().map(|l| format!("{} {} {}", l.span.start, l.span.end, w.payloads.id(&payload(l)))).collect::<Vec<_>>().join(" ")
}
fn run_spell(w: &mut World, rep: &mut Report, dialect_s: &str, user_words: &[String], docs: &[String]) {
    use harper_core::linting::SpellCheck;
    let dict = mk_dict(user_words);
    let dialect = dialect_of(dialect_s);
    let spy = Arc::new(SpyDict { inner: dict.clone(), log: Mutex::new(vec![]) });
    let mut reused = SpellCheck::new(spy.clone(), dialect);
    let cap = word_cache_cap();
    rep.case(&format!("SN {cap}"), "ok");
    let dictid = w.dicts.id(&format!("{}|{:?}", dialect_s, user_words));
    let mut sim = LruSim::new(cap);
    let mut ids: Interner<Vec<char>> = Interner::new();
    let (mut lookups, mut hits, mut evictions) = (0u64, 0u64, 0u64);
    for (i, text) in docs.iter().enumerate() {
        let Ok(doc) = guarded(|| mk_doc("plain", text, &dict)) else { return };
        let src: Vec<char> = text.chars().collect();
        spy.log.lock().unwrap().clear();
        let Ok(out) = guarded(|| reused.lint(&doc)) else {
            rep.count("spell:aborted(lint panicked)");
            return;
        };
        let wmiss = std::mem::take(&mut *spy.log.lock().unwrap());
        let mut fresh = SpellCheck::new(dict.clone(), dialect);
        let Ok(out_f) = guarded(|| fresh.lint(&doc)) else { return };
        rep.eval();
        // oracle: the long-lived SpellCheck vs a fresh one
        if out.iter().map(render).ne(out_f.iter().map(render)) {
            let k = out.iter().zip(out_f.iter()).position(|(a, b)| render(a) != render(b)).unwrap_or(0);
            rep.fail(
                "spell_reused_ne_fresh",
                format!("document {i}: the long-lived SpellCheck and a fresh one disagree (first at lint {k}: {:?} vs {:?}; {} vs {} lints)", out.get(k).map(render), out_f.get(k).map(render), out.len(), out_f.len()),
                json!({"kind": "spell", "dialect": dialect_s, "user_words": user_words, "docs": docs[..=i].to_vec()}),
            );
        }
        // spell_fun monitor + the case
        let mut whm = String::new();
        let mut wfields = vec![];
        let mut p = 0usize;
        for (l, lf) in out.iter().zip(out_f.iter()) {
            let wd: Vec<char> = src[l.span.start.min(src.len())..l.span.end.min(src.len())].to_vec();
            let missed = p < wmiss.len() && wmiss[p] == wd;
            if missed {
                p += 1;
            }
            whm.push(if missed { 'm' } else { 'h' });
            let pid = w.payloads.id(&payload(lf));
            match w.spell_table.get(&(dictid, wd.clone())) {
                Some((p0, t0)) if *p0 != pid => {
                    rep.monitor("spell_not_function:VIOLATED", 1);
                    rep.fail("spell_not_function", format!("the lint an uncached SpellCheck builds for the word {:?} differs between two computations with the same dictionary and dialect (first seen in {:?})", wd.iter().collect::<String>(), t0), json!({"kind": "instances", "dialect": dialect_s, "user_words": user_words, "docs": [{"fe": "plain", "text": t0}, {"fe": "plain", "text": text}]}));
                }
                Some(_) => {}
                None => {
                    w.spell_table.insert((dictid, wd.clone()), (pid, text.chars().take(200).collect()));
                }
            }
            wfields.push(format!("{} {} {}", lf.span.start, lf.span.end, pid));
            // bookkeeping only (distribution): how many real evictions the history forces
            let id = ids.id(&wd);
            if !sim.get(id) {
                if sim.put(id).is_some() {
                    evictions += 1;
                }
            }
        }
        lookups += whm.len() as u64;
        hits += whm.matches('h').count() as u64;
        rep.case(&format!("SL|{}|{}", cps(&src), wfields.join(";")), &format!("{}|{}", spell_lints_line(w, &out), whm));
        rep.nontrivial(&("spell", text.clone(), i));
    }
    rep.count_n("spell:word_cache_lookups", lookups);
    rep.count_n("spell:word_cache_hits", hits);
    rep.count_n("spell:word_cache_evictions(real LRU, replayed by the model)", evictions);
    rep.monitor("spell_fun:words_checked", lookups);
}
/// distinct non-words one edit away from a dictionary word (cheap to correct: the first fuzzy search succeeds):
/// the i-th lower-case curated word of 6..10 letters with an `x` inserted after its second letter
fn pseudo_word(i: usize) -> String {
    static WORDS: std::sync::OnceLock<Vec<String>> = std::sync::OnceLock::new();
    let ws = WORDS.get_or_init(|| {
        let d = FstDictionary::curated();
        let mut v: Vec<String> = d.words_iter().filter(|w| (6..=10).contains(&w.len()) && w.iter().all(|c| c.is_ascii_lowercase())).map(|w| w.iter().collect()).collect();
        v.sort();
        v.dedup();
        v
    });
    let base = &ws[(i * 3) % ws.len()];
    format!("{}x{}", &base[..2], &base[2..])
}
/// two distinct non-words of the same length with the same first and last letter (near two different dictionary
/// words): whatever a cache does with "similar" keys, these must not share an entry
fn pseudo_pair(i: usize) -> (String, String) {
    static PAIRS: std::sync::OnceLock<Vec<(String, String)>> = std::sync::OnceLock::new();
    let ps = PAIRS.get_or_init(|| {
        let d = FstDictionary::curated();
        let mut groups: BTreeMap<(usize, char, char), Vec<String>> = BTreeMap::new();
        for w in d.words_iter() {
            if (6..=9).contains(&w.len()) && w.iter().all(|c| c.is_ascii_lowercase()) {
                groups.entry((w.len(), w[0], w[w.len() - 1])).or_default().push(w.iter().collect());
            }
        }
        let mut v = vec![];
        for (_, mut g) in groups {
            g.sort();
            g.dedup();
            let n = g.len();
            if n >= 2 {
                v.push((g[0].clone(), g[n / 2].clone()));
                v.push((g[n - 1].clone(), g[n / 3].clone()));
            }
        }
        v.retain(|(a, b)| a != b);
        v
    });
    let (a, b) = &ps[(i * 7) % ps.len()];
    (format!("{}x{}", &a[..3], &a[3..]), format!("{}x{}", &b[..3], &b[3..]))
}
fn gen_spell_docs(r: &mut Rng, docs: usize, per_doc: usize, revisit_every: usize) -> Vec<String> {
    let mut out = vec![];
    let mk = |d: usize, r: &mut Rng| -> String {
        let mut t = String::new();
        // the last rejected word of a document and the first of the next have the same shape (length, first and
        // last letter): what the cache holds from the previous document must not leak into this one
        if d > 0 {
            t.push_str(&format!("{} ", pseudo_pair(1000 + d - 1).1));
        }
        for k in 0..per_doc {
            let wd = pseudo_word(d * per_doc + k);
            let wd = if k % 7 == 3 { gen::capitalize(&wd) } else { wd };
            t.push_str(&format!("{} {} ", r.s(gen::COMMON), wd));
            if k % 5 == 4 {
                t.push_str(r.s(CASED_MISSPELT));
                t.push(' ');
            }
            if k % 9 == 1 {
                let (a, b) = pseudo_pair(d * 3 + k / 9);
                t.push_str(&format!("{a} {b} {a} "));
            }
            if k % 6 == 2 {
                // misspellings whose nearest candidates belong to different dialects: the cache must hold what is
                // left AFTER the dialect filter
                t.push_str(r.s(&["coluor", "favuor", "centere", "realiise", "honuor", "theatere", "analyise", "flavuor", "neighbuor", "organiise"]));
                t.push(' ');
            }
        }
        t.push_str(&format!("{}.", pseudo_pair(1000 + d).0));
        t
    };
    let first = mk(0, r);
    for d in 0..docs {
        out.push(mk(d, r));
        if revisit_every > 0 && d % revisit_every == revisit_every - 1 {
            out.push(first.clone()); // kept alive by the revisits
        }
    }
    out.push(mk(1, r)); // long evicted (thorough) / still cached (quick)
    out.push(first);
    out
}

// ------------------------------------------------------------------------------------------------
// generators
// ------------------------------------------------------------------------------------------------
const CORE_FES: &[&str] = &["plain", "plain", "plain", "markdown", "markdown", "markdown-ilt", "html", "typst", "gitcommit", "c:rust", "c:python", "lhaskell"];
/// clauses whose characters mean different things to different parsers (markup inside)
const MARKUP_CLAUSES: &[&str] = &[
    "we waited with `baited breath` today",
    "it was a `case and point` really",
    "this is *an other* matter",
    "the <b>an other</b> day",
    "we saw it at [the the](http://ex.com/a_b) place",
    "a _all of the sudden_ it broke",
    "so # nip it in the butt now",
    "in **alot** of cases",
    "he did it on accident `on accident` twice",
    "for all intensive purposes \\[sic\\] it works",
    "> and than he left",
    "it's a `teh` typo",
];
/// misspellings close to proper nouns: their suggestions depend on the casing of the misspelt word, so the
/// spelling cache must keep the casings apart
const CASED_MISSPELT: &[&str] = &["teh", "jhon", "micheal", "londn", "pariss", "amercia", "germny", "mondy", "frane", "eurpe", "chna", "marc", "tuesdy", "novmber", "bosten"];
fn recase(r: &mut Rng, w: &str) -> String {
    match r.below(3) {
        0 => w.to_string(),
        1 => gen::capitalize(w),
        _ => w.to_uppercase(),
    }
}
fn gen_cfg(r: &mut Rng, w: &World) -> CfgSpec {
    let mut set = BTreeMap::new();
    for _ in 0..r.below(8) {
        let k = if r.chance(1, 10) { format!("Unknown{}", r.below(3)) } else { r.pick(&w.all_keys[..]).clone() };
        set.insert(k, match r.below(3) { 0 => Some(true), 1 => Some(false), _ => None });
    }
    CfgSpec { base: r.s(&["curated", "curated", "curated", "all_on", "all_on", "none", "all_off"]).to_string(), set }
}
/// a pool of clauses a history draws from, so that clauses recur at other offsets, under other
/// configurations and in other languages
fn clause_pool(r: &mut Rng) -> Vec<String> {
    let mut pool: Vec<String> = vec![];
    for _ in 0..r.range(3, 7) {
        let c = match r.below(4) {
            0 => gen::clean_sentence(r).trim_end_matches('.').to_lowercase(),
            1 => {
                let c = gen::any_construct(r);
                format!("{} {c} {}", r.s(gen::COMMON), r.s(gen::COMMON))
            }
            2 => format!("{} {} {}", r.s(gen::COMMON), r.s(gen::TRIGGERS), r.s(gen::MISSPELT)),
            _ => gen::sentence(r),
        };
        pool.push(c);
    }
    for _ in 0..r.range(1, 3) {
        pool.push(r.s(MARKUP_CLAUSES).to_string());
    }
    // a family of clauses sharing a long prefix and the whole token structure (kinds, metadata, spans) that differ
    // only in characters far from the start: the casing of a trigger phrase (suggestions copy the casing of the
    // text they replace), or an unknown word against another of the same length — the key must hold ALL the
    // characters of the chunk, the token hash alone does not tell such clauses apart
    if r.chance(1, 2) {
        let mut prefix = String::new();
        while prefix.chars().count() < 26 {
            if !prefix.is_empty() {
                prefix.push(' ');
            }
            prefix.push_str(r.s(gen::COMMON));
        }
        let trig = r.s(&["better then that", "more then that", "could of been", "should of gone", "an other thing", "case and point", "baited breath", "on accident", "alot of them"]);
        for _ in 0..r.range(2, 3) {
            let cased: Vec<String> = trig.split(' ').map(|wd| recase(r, wd)).collect();
            pool.push(format!("{prefix} {}", cased.join(" ")));
        }
        let unk = r.s(&["qzxv", "wrod", "teh"]);
        pool.push(format!("{prefix} {unk} {trig}"));
        let mut other: Vec<char> = unk.chars().collect();
        other.swap(0, 1);
        pool.push(format!("{prefix} {} {trig}", other.iter().collect::<String>()));
    }
    // one misspelling in several casings (the pool is shared by all documents of a history)
    let m = r.s(CASED_MISSPELT);
    for _ in 0..r.range(2, 3) {
        let c = recase(r, m);
        pool.push(format!("{} {c} {}", r.s(gen::COMMON), r.s(gen::COMMON)));
    }
    pool
}
fn text_from_pool(r: &mut Rng, pool: &[String]) -> String {
    let k = r.range(1, 5);
    let mut text = String::new();
    if r.chance(1, 4) {
        text.push_str(r.s(&["Well, ", "  ", "\n", "é𝒜, ", "So: "]));
    }
    for i in 0..k {
        if i > 0 {
            text.push_str(r.s(&[", ", ", ", ". ", "; ", ": ", ".\n\n", ",\n", " \u{2014} ", "! "]));
        }
        let c = r.pick(pool).clone();
        text.push_str(&c);
    }
    text.push_str(r.s(&["", ".", ".", "!", ",", "\n"]));
    text
}
fn gen_history(r: &mut Rng, w: &World, target: &str) -> History {
    let n = r.range(3, 10);
    let mut ops = vec![];
    let mut pool = clause_pool(r);
    // a user dictionary holding more equidistant candidates than SpellCheck shows, and clauses misspelling them:
    // which candidates are offered, in which order, must not depend on the dictionary instance (FC05a)
    let user_words: Vec<String> = if r.chance(1, 5) { vec!["zorbla".to_string(), "zorblb".into(), "zorblc".into(), "zorbld".into()] } else { vec![] };
    if !user_words.is_empty() {
        for _ in 0..r.range(1, 2) {
            pool.push(format!("{} {} {}", r.s(gen::COMMON), r.s(&["zorgle", "zorblx", "Zorbl", "zorblaa", "zorble"]), r.s(gen::COMMON)));
        }
    }
    let mut cfgs: Vec<CfgSpec> = vec![];
    let mut texts: Vec<String> = vec![];
    for _ in 0..n {
        if r.chance(1, 4) {
            // toggle: a new configuration, or back to one used before
            let c = if !cfgs.is_empty() && r.chance(1, 2) { r.pick(&cfgs[..]).clone() } else { gen_cfg(r, w) };
            cfgs.push(c.clone());
            ops.push(Op::Cfg(c));
        } else {
            // a new document from the pool, or one linted before (possibly in another language)
            let text = if !texts.is_empty() && r.chance(1, 3) { r.pick(&texts[..]).clone() } else { text_from_pool(r, &pool) };
            texts.push(text.clone());
            let fe = if target == "wasm" { r.s(&["plain", "markdown"]) } else { r.s(CORE_FES) };
            let text = match fe {
                "html" if r.chance(1, 2) => format!("<p>{text}</p>"),
                "c:rust" => text.lines().map(|l| format!("// {l}")).collect::<Vec<_>>().join("\n"),
                "c:python" => text.lines().map(|l| format!("# {l}")).collect::<Vec<_>>().join("\n"),
                _ => text,
            };
            ops.push(Op::Lint { fe: fe.to_string(), text });
        }
    }
    History { target: target.into(), dialect: r.s(&["American", "American", "British", "Canadian", "Australian"]).to_string(), user_words, ops }
}
/// rule_fun on the REAL rules: the same clause (same characters, same tokens — a closing quote keeps its twin_loc because the
/// opening quote stays at the same token index) in different SURROUNDINGS: directly after an opening quote / bracket, or after
/// another chunk terminator without a space (so the previous chunk ends in a comma, not a quote), followed by a quote, a
/// bracket, a comma, nothing.  A pattern rule that peeks at the source outside its chunk (the character before the match)
/// answers differently for the same cache key: on one long-lived linter the second document gets the first one's cached
/// lints (oracle reused_ne_fresh), and the freshly built linter of every step feeds the rule_fun table with the uncached
/// chunk-relative result of each embedding (oracle rule_not_function with the concrete pair of documents).
fn surround_history(r: &mut Rng, target: &str) -> History {
    let x0 = r.s(&["baited breath", "on accident", "case and point", "could of been", "an other thing", "alot of them", "more then that", "piece of mind", "for all intensive purposes", "wrod teh"]);
    let x: String = if r.chance(1, 4) { x0.split(' ').map(|wd| recase(r, wd)).collect::<Vec<_>>().join(" ") } else { x0.to_string() };
    let p = r.s(&["He wrote", "She said", "They call it", "we waited with", "So"]);
    let s_ = r.s(&[" there.", " again", ".", "", " today, twice."]);
    let filler = r.s(&["no", "well", "yes", "so"]);
    let sep = r.s(&[",", ",", ";", ":"]);
    let mut docs: Vec<String> = vec![
        format!("{p} \"{x}\"{s_}"),
        format!("{p} \"{filler}{sep}{x}\"{s_}"),
        format!("{p} \u{201c}{x}\u{201d}{s_}"),
        format!("{p} \u{201c}{filler}{sep}{x}\u{201d}{s_}"),
        format!("{p} ({x}){s_}"),
        format!("{p} ({filler}{sep}{x}){s_}"),
        format!("{p} [{x}]{s_}"),
        format!("{p} '{x}'{s_}"),
        format!("{p} {filler}{sep}{x},{s_}"),
        format!("{p} \"{x},{s_}"),
        format!("{p} \"{filler}{sep}{x},{s_}"),
        format!("{p}{sep}{x}\"{s_}"),
        format!("{p} {x}{s_}"),
        format!("\"{x}\""),
        format!("\"{filler}{sep}{x}\""),
    ];
    // a random order, a subset, and the first document once more at the end (all hits by then)
    for i in (1..docs.len()).rev() {
        let j = r.below(i + 1);
        docs.swap(i, j);
    }
    docs.truncate(r.range(5, 11));
    let first = docs[0].clone();
    docs.push(first);
    let ops = docs.into_iter().map(|text| Op::Lint { fe: (if r.chance(1, 5) { "markdown" } else { "plain" }).to_string(), text }).collect();
    History { target: target.into(), dialect: r.s(&["American", "British"]).to_string(), user_words: vec![], ops }
}
fn gen_batch(r: &mut Rng, n: usize, with_user_words: bool) -> Batch {
    let pool = clause_pool(r);
    let mut docs = vec![];
    for i in 0..n {
        let mut text = if i % 3 == 0 { gen::any_text(r) } else { text_from_pool(r, &pool) };
        if i % 2 == 0 {
            // misspellings with several equidistant candidates in the user dictionary and in the curated one
            text.push_str(r.s(&[" zorblx zorbl", " Zorblx teh", " wrod zorble", " zorblaa recieve"]));
        }
        docs.push((r.s(&["plain", "plain", "markdown"]).to_string(), text));
    }
    let user_words = if with_user_words { vec!["zorbla".into(), "zorblb".into(), "zorblc".into(), "zorbld".into(), "zorblé".into()] } else { vec![] };
    Batch { dialect: r.s(&["American", "British"]).to_string(), user_words, docs }
}

/// more than 10 000 (the LRU capacity) distinct clauses on one linter, with early documents revisited: some of their
/// clauses are still cached (kept alive by a revisit), others were evicted
fn eviction_history(r: &mut Rng, docs: usize, per_doc: usize) -> History {
    let mut ops = vec![];
    let mk = |d: usize, r: &mut Rng| -> String {
        let mut t = String::new();
        for k in 0..per_doc {
            let _ = r;
            t.push_str(&format!("the {} item{} number {} is better then {}", gen::COMMON[(d * 7 + k) % gen::COMMON.len()], if k % 2 == 0 { "" } else { "s" }, d * per_doc + k, gen::COMMON[(d + k) % gen::COMMON.len()]));
            t.push_str(if k + 1 == per_doc { "." } else { ", " });
        }
        t
    };
    let first = mk(0, r);
    let second = mk(1, r);
    for d in 0..docs {
        let t = mk(d, r);
        ops.push(Op::Lint { fe: if d % 5 == 4 { "markdown".into() } else { "plain".into() }, text: t });
        if d % 60 == 59 {
            ops.push(Op::Lint { fe: "plain".into(), text: first.clone() }); // kept alive
        }
    }
    ops.push(Op::Lint { fe: "plain".into(), text: second }); // long evicted
    ops.push(Op::Lint { fe: "plain".into(), text: first });
    History { target: "core".into(), dialect: "American".into(), user_words: vec![], ops }
}

/// configurations built to feed identical bytes to the hasher (malformed stream: rule names with control bytes)
fn colliding_cfg_history(r: &mut Rng, w: &World) -> History {
    let rule = r.s(&["BaitedBreath", "ThenThan", "CaseInPoint", "AnotherThing", "OnAccident"]).to_string();
    let pre = r.s(&["A", "Aa", "0"]).to_string();
    let _ = w;
    let mut a = BTreeMap::new();
    a.insert(pre.clone(), Some(false));
    a.insert(rule.clone(), Some(true));
    let mut b = BTreeMap::new();
    b.insert(format!("{pre}\u{1}\u{0}{rule}"), Some(true));
    let text = "we waited with baited breath and he is taller then me, in case and point an other thing happened on accident".to_string();
    let (first, second) = if r.chance(1, 2) { (a, b) } else { (b, a) };
    History {
        target: "core".into(),
        dialect: "American".into(),
        user_words: vec![],
        ops: vec![Op::Cfg(CfgSpec { base: "none".into(), set: first }), Op::Lint { fe: "plain".into(), text: text.clone() }, Op::Cfg(CfgSpec { base: "none".into(), set: second }), Op::Lint { fe: "plain".into(), text }],
    }
}

// ---------------------------------------------------------------------------------------------------------
// per-thread state (Model/C05Thread.v): AUTOMATON_BUILDERS through FstDictionary::fuzzy_match, BUFFERS through
// WithinEditDistance (reached by the public SimilarToPhrase)
/// `fuzzy_match(word, d, _)` of the curated FST dictionary: (largest edit distance among the results — the distance of
/// the builder that served the request, for a word with neighbours at every distance —, canonical result list)
fn fuzzy_served(word: &[char], d: u8) -> (String, Vec<(String, u8)>) {
    let dict = FstDictionary::curated();
    let mut res: Vec<(String, u8)> = dict.fuzzy_match(word, d, 1_000_000).into_iter().map(|m| (m.word.iter().collect(), m.edit_distance)).collect();
    res.sort();
    let served = res.iter().map(|x| x.1).max().map(|m| m.to_string()).unwrap_or_else(|| "none".into());
    (served, res)
}
/// the edit distance WithinEditDistance computes between two words that differ (ignoring case): the least k for which
/// the one-word phrase pattern with tolerance k matches (255 = not within 254)
fn wed_distance(source: &str, target: &str) -> u8 {
    use harper_core::patterns::SimilarToPhrase;
    let src: Vec<char> = source.chars().collect();
    let toks = vec![Token::new(Span::new(0, src.len()), harper_core::TokenKind::blank_word())];
    for k in 0..=254u8 {
        if SimilarToPhrase::from_phrase(target, k).matches(&toks, &src) > 0 {
            return k;
        }
    }
    255
}
fn run_tstate(rep: &mut Report, dists: &[u8], pairs: &[(String, String)]) {
    let input = json!({"kind": "tstate", "dists": dists, "pairs": pairs.iter().map(|(a, b)| json!([a, b])).collect::<Vec<_>>()});
    let word: Vec<char> = "cat".chars().collect();
    // ONE freshly spawned thread executes the whole sequence (its builders grow, its buffers get dirty) ...
    let (d2, p2, w2) = (dists.to_vec(), pairs.to_vec(), word.clone());
    let warm = std::thread::spawn(move || guarded(|| (d2.iter().map(|d| fuzzy_served(&w2, *d)).collect::<Vec<_>>(), p2.iter().map(|(a, b)| wed_distance(a, b)).collect::<Vec<_>>()))).join();
    let Ok(Ok((fz, eds))) = warm else {
        rep.fail("tstate_panic", format!("a sequence of fuzzy_match / WithinEditDistance calls panicked on a fresh thread at {}", last_panic_location()), input);
        return;
    };
    rep.case("TN", "ok");
    for (i, d) in dists.iter().enumerate() {
        rep.eval();
        rep.case(&format!("TF {d}"), &fz[i].0);
        rep.count(&format!("tstate:fuzzy_match(max_distance={d})"));
        rep.nontrivial(&("tf", i, dists[..=i].to_vec()));
        // ... and every request is repeated on a thread of its own (the model's `tfresh`)
        let (w3, d3) = (word.clone(), *d);
        let fresh = std::thread::spawn(move || guarded(|| fuzzy_served(&w3, d3))).join();
        match fresh {
            Ok(Ok(f)) if f.1 == fz[i].1 => {}
            Ok(Ok(f)) => {
                let k = f.1.iter().zip(fz[i].1.iter()).position(|(a, b)| a != b).unwrap_or(f.1.len().min(fz[i].1.len()));
                rep.fail("thread_dependent_fuzzy", format!("fuzzy_match(\"cat\", {d}, _) after the requests {:?} on the same thread returns {} results (largest distance {}), on a fresh thread {} (largest distance {}); first difference at {k}: {:?} vs {:?}", &dists[..i], fz[i].1.len(), fz[i].0, f.1.len(), f.0, fz[i].1.get(k), f.1.get(k)), input.clone());
            }
            _ => rep.count("tstate:fresh_thread_panicked"),
        }
    }
    rep.monitor("thread_state:fuzzy_requests_compared_with_a_fresh_thread", dists.len() as u64);
    for (i, (a, b)) in pairs.iter().enumerate() {
        if a.to_lowercase() == b.to_lowercase() {
            continue;
        }
        rep.eval();
        let (la, lb): (Vec<char>, Vec<char>) = (a.to_lowercase().chars().collect(), b.to_lowercase().chars().collect());
        rep.case(&format!("TD|{}|{}", cps(&la), cps(&lb)), &eds[i].to_string());
        rep.count(&format!("tstate:edit_distance(len {}x{})", if la.len() > 254 { ">254".to_string() } else { format!("{}", (la.len() + 7) / 8 * 8) }, if lb.len() > 254 { ">254".to_string() } else { format!("{}", (lb.len() + 7) / 8 * 8) }));
        rep.nontrivial(&("td", a.clone(), b.clone(), i));
        let (a3, b3) = (a.clone(), b.clone());
        match std::thread::spawn(move || guarded(|| wed_distance(&a3, &b3))).join() {
            Ok(Ok(f)) if f == eds[i] => {}
            Ok(Ok(f)) => rep.fail("thread_dependent_edit_distance", format!("WithinEditDistance sees distance {} between {a:?} and {b:?} on a thread that compared {:?} before, {f} on a fresh thread", eds[i], &pairs[..i]), input.clone()),
            _ => rep.count("tstate:fresh_thread_panicked"),
        }
    }
    rep.monitor("thread_state:edit_distances_compared_with_a_fresh_thread", pairs.len() as u64);
}
fn gen_tstate(r: &mut Rng, thorough: bool) -> (Vec<u8>, Vec<(String, String)>) {
    let n = r.range(3, 7);
    let dists: Vec<u8> = (0..n).map(|_| if thorough && r.chance(1, 8) { 4 } else { r.below(4) as u8 }).collect();
    fn letters(r: &mut Rng, n: usize) -> String {
        let mut s = String::new();
        for _ in 0..n {
            let k = if r.chance(1, 2) { 3 } else { 26 };
            let c = (b'a' + r.below(k) as u8) as char;
            s.push(if r.chance(1, 12) { c.to_ascii_uppercase() } else { c });
        }
        s
    }
    let mut pairs = vec![];
    for _ in 0..r.range(6, 14) {
        // lengths jump up and down so that the buffers a call finds are longer / shorter than it needs
        let la = if r.chance(1, 6) { r.range(20, 60) } else { r.range(1, 12) };
        let a = letters(r, la);
        let b = if r.chance(1, 2) {
            // a few edits of a
            let mut v: Vec<char> = a.chars().collect();
            for _ in 0..r.range(1, 4) {
                let i = r.below(v.len().max(1));
                match r.below(3) {
                    0 if !v.is_empty() => { v.remove(i.min(v.len() - 1)); }
                    1 => v.insert(i.min(v.len()), (b'a' + r.below(26) as u8) as char),
                    _ if !v.is_empty() => { let j = i.min(v.len() - 1); v[j] = (b'a' + r.below(26) as u8) as char; }
                    _ => {}
                }
            }
            if v.is_empty() { "z".to_string() } else { v.into_iter().collect() }
        } else {
            let lb = r.range(1, 14);
            letters(r, lb)
        };
        pairs.push((a, b));
    }
    if thorough && r.chance(1, 3) {
        // beyond the u8 rows: edit_distance_long, which leaves BUFFERS alone
        let a: String = letters(r, 260).to_lowercase();
        let mut b = a.clone();
        b.replace_range(100..101, if &a[100..101] == "q" { "r" } else { "q" });
        b.push('s');
        pairs.insert(r.below(pairs.len()), (a, b));
    }
    (dists, pairs)
}

fn run_input(w: &mut World, ew: &mut EntryWorld, rep: &mut Report, v: &Value, out_dir: &str) {
    match v["kind"].as_str() {
        Some("entry") => run_entry(w, ew, rep, &EHistory::from_json(v)),
        Some("spell") => {
            let strs = |x: &Value| -> Vec<String> { x.as_array().map(|a| a.iter().filter_map(|s| s.as_str().map(|s| s.to_string())).collect()).unwrap_or_default() };
            run_spell(w, rep, v["dialect"].as_str().unwrap_or("American"), &strs(&v["user_words"]), &strs(&v["docs"]))
        }
        Some("history") => {
            let h = History::from_json(v);
            if h.target == "wasm" {
                run_wasm(w, rep, &h);
            } else {
                run_core(w, rep, &h);
            }
        }
        Some("tstate") => {
            let dists: Vec<u8> = v["dists"].as_array().map(|a| a.iter().filter_map(|x| x.as_u64().map(|x| x as u8)).collect()).unwrap_or_default();
            let pairs: Vec<(String, String)> = v["pairs"].as_array().map(|a| a.iter().filter_map(|p| Some((p[0].as_str()?.to_string(), p[1].as_str()?.to_string()))).collect()).unwrap_or_default();
            run_tstate(rep, &dists, &pairs)
        }
        Some("threads") => check_threads(rep, &Batch::from_json(v)),
        Some("procs") => check_processes(rep, &Batch::from_json(v), out_dir),
        Some("instances") => check_instances(rep, &Batch::from_json(v)),
        _ => rep.count("corpus:unknown_kind"),
    }
}

fn main() {
    if let Ok(p) = std::env::var("C05_CHILD") {
        child_main(&p);
        return;
    }
    let (args, corpus) = hv::cli();
    let mut rep = Report::new(&args.out);
    rep.rule = "histories of (set-config | lint document in front-end L) on ONE long-lived LintGroup: every Lint step compared with a freshly built linter (spans, kinds, messages, suggestions, priorities, order) and replayed by the extracted cache model (emitted lints + hit/miss per chunk, hits observed through a probe rule); documents draw clauses from a per-history pool so that clauses recur at other offsets, in other front-ends (plain, Markdown x2, HTML, Typst, git-commit, Rust/Python comments, literate Haskell), under toggled and re-toggled configurations; one history with > 10 000 distinct clauses (LRU eviction, replayed through an LRU simulation); configurations built to collide in the hasher input (malformed stream); the same histories on harper_wasm::Linter (plain + Markdown on one instance); the same documents on 8 threads (independent linters, and one linter handed round), in 3 child processes and on 5 + 3 linters built the same way on one thread (LintGroup, harper_wasm::Linter), with a user dictionary holding more equidistant candidates than are shown. non-trivial = distinct (front-end, text, configuration, position in history)".into();
    let mut w = World::new();
    let mut ew = EntryWorld::new();
    for c in &corpus {
        run_input(&mut w, &mut ew, &mut rep, c, &args.out);
    }
    if args.replay.is_some() {
        rep.finish();
        return;
    }
    let mut r = Rng::new(args.seed);
    for _ in 0..args.scale(160, 900) {
        let h = gen_history(&mut r, &w, "core");
        run_core(&mut w, &mut rep, &h);
    }
    for _ in 0..args.scale(3, 12) {
        let h = colliding_cfg_history(&mut r, &w);
        run_core(&mut w, &mut rep, &h);
    }
    // the same clause in different surroundings (rule_fun on the real rules; see surround_history)
    for i in 0..args.scale(16, 120) {
        if i % 4 == 3 {
            let h = surround_history(&mut r, "wasm");
            run_wasm(&mut w, &mut rep, &h);
        } else {
            let h = surround_history(&mut r, "core");
            run_core(&mut w, &mut rep, &h);
        }
        rep.count("histories:same_clause_in_different_surroundings");
    }
    for _ in 0..args.scale(50, 300) {
        let h = gen_history(&mut r, &w, "wasm");
        run_wasm(&mut w, &mut rep, &h);
    }
    for i in 0..args.scale(40, 240) {
        let h = gen_entry_history(&mut r, &w, if i % 2 == 0 { "wasm" } else { "ls" });
        run_entry(&mut w, &mut ew, &mut rep, &h);
    }
    {
        // SpellCheck.word_cache over the concrete LRU: quick — hits and promotions; thorough — more distinct
        // rejected words than the capacity (real evictions), early documents revisited
        let docs = if args.thorough() { gen_spell_docs(&mut r, 116, 90, 20) } else { gen_spell_docs(&mut r, 6, 12, 3) };
        run_spell(&mut w, &mut rep, r.s(&["American", "British"]), &[], &docs);
    }
    if args.thorough() {
        // > 10 000 distinct clauses on one linter (LruCache capacity): evictions happen in the implementation
        // and are replayed by the model through the LRU simulation
        let h = eviction_history(&mut r, 400, 40);
        run_core(&mut w, &mut rep, &h);
    }
    for _ in 0..args.scale(4, 40) {
        let (dists, pairs) = gen_tstate(&mut r, args.thorough());
        run_tstate(&mut rep, &dists, &pairs);
    }
    for i in 0..args.scale(2, 12) {
        let b = gen_batch(&mut r, args.scale(12, 40), i % 2 == 1);
        check_threads(&mut rep, &b);
    }
    for i in 0..args.scale(2, 6) {
        let b = gen_batch(&mut r, args.scale(12, 40), i % 2 == 1);
        check_processes(&mut rep, &b, &args.out);
    }
    for i in 0..args.scale(2, 6) {
        let b = gen_batch(&mut r, args.scale(8, 30), i % 2 == 0);
        check_instances(&mut rep, &b);
    }
    rep.extra.insert("distinct_chunk_triples_observed".into(), json!(w.table.len()));
    rep.extra.insert("distinct_configurations".into(), json!(w.cfgs.map.len()));
    rep.extra.insert("distinct_token_hash_inputs".into(), json!(w.tok_streams.map.len()));
    rep.count_n("chunks_whose_pattern_lints_depend_on_the_tokenisation(same characters, same configuration)", w.chunk_fun_unused);
    rep.finish();
}
