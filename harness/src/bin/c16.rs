//! C16 — the JavaScript-facing linter API (harper_wasm::Linter, compiled natively) is self-consistent.
//!
//! Correspondence: random call histories are run on the real `harper_wasm::Linter`; for every call one
//! case line is written for the extracted model (Model/Wasm.v `step`), which keeps its own state across
//! the lines of a history.  What the model treats as Section variables is supplied on the case line from
//! harper_core's public API: the raw lints of `LintGroup::lint` (with the context hash of each) for every
//! candidate user dictionary, the WordId of every imported word, the curated configuration.  The model
//! must then predict the API's answer: the returned lints are compared as JSON text, byte for byte, with
//! `Lint::to_json`.  Separate J*/P* lines compare the JSON printers and parsers on synthetic values.
//!
//! Search oracle = the property text evaluated on the real API (see `oracle_*`).
use harper_core::linting::{Lint as CLint, LintGroup, LintGroupConfig, LintKind, Linter as _, Suggestion as CSug};
use harper_core::language_detection::is_doc_likely_english;
use harper_core::parsers::{IsolateEnglish, Markdown, Parser, PlainEnglish};
use harper_core::{Dictionary, Document, FstDictionary, IgnoredLints, Lrc, MergedDictionary, MutableDictionary, Punctuation, Span, TokenKind, WordId, WordMetadata};
use harper_wasm::{Dialect as WD, Language, Lint as WLint, Linter as WL, Span as WSpan, Suggestion as WSug};
use hv::common::*;
use hv::gen;
use serde_json::{json, Value};
use std::collections::{BTreeMap, BTreeSet, HashMap};
use std::hash::{DefaultHasher, Hash, Hasher};
use std::sync::Arc;

// ---------------------------------------------------------------------------------------------
// encodings shared with ocaml/c16_main.ml
// ---------------------------------------------------------------------------------------------
const KIND_NAMES: [&str; 10] = ["Spelling", "Capitalization", "Style", "Formatting", "Repetition", "Enhancement", "Readability", "WordChoice", "Miscellaneous", "Punctuation"];
const UNKNOWN_KEYS: [&str; 3] = ["AAANotARule", "Nope", "ZzzUnknownRule"];

fn kind_index(k: &LintKind) -> usize {
    let name = serde_json::to_value(k).unwrap().as_str().unwrap().to_string();
    KIND_NAMES.iter().position(|n| *n == name).unwrap_or(99)
}
fn enc_text(s: &[char]) -> String {
    let mut out = s.len().to_string();
    for c in s {
        out.push(' ');
        out.push_str(&(*c as u32).to_string());
    }
    out
}
fn enc_str(s: &str) -> String {
    enc_text(&chars(s))
}
fn enc_sug(s: &CSug) -> String {
    match s {
        CSug::ReplaceWith(cs) => format!("0 {}", enc_text(cs)),
        CSug::InsertAfter(cs) => format!("1 {}", enc_text(cs)),
        CSug::Remove => "2".to_string(),
    }
}
fn enc_rlint(l: &CLint) -> String {
    let mut out = format!("{} {} {} {} {} {}", l.span.start, l.span.end, kind_index(&l.lint_kind), l.priority, enc_str(&l.message), l.suggestions.len());
    for s in &l.suggestions {
        out.push(' ');
        out.push_str(&enc_sug(s));
    }
    out
}
fn enc_wlint(inner: &CLint, problem: &str, md: bool) -> String {
    format!("{} {} {}", enc_rlint(inner), enc_str(problem), md as u8)
}
fn lang_of(md: bool) -> Language {
    if md { Language::Markdown } else { Language::Plain }
}
fn wd_of(d: usize) -> WD {
    match d % 4 {
        0 => WD::American,
        1 => WD::British,
        2 => WD::Australian,
        _ => WD::Canadian,
    }
}
fn wd_index(d: WD) -> usize {
    match d {
        WD::American => 0,
        WD::British => 1,
        WD::Australian => 2,
        WD::Canadian => 3,
    }
}

/// (inner lint, problem text, is markdown) out of the JSON text of a wasm Lint (its fields are private).
fn split_wlint(j: &str) -> (CLint, String, bool) {
    let v: Value = serde_json::from_str(j).unwrap_or(Value::Null);
    let inner: CLint = serde_json::from_value(v["inner"].clone()).unwrap_or_default();
    (inner, v["problem_text"].as_str().unwrap_or("").to_string(), v["language"].as_str() == Some("Markdown"))
}
/// "Lints ... survive their JSON round trip unchanged": through from_json(to_json(l)) every accessor
/// and the JSON text itself must be the same.  Returns a description of the first difference.
fn roundtrip_defect(l: &WLint) -> Option<String> {
    let j = l.to_json();
    let back = match WLint::from_json(j.clone()) {
        Ok(b) => b,
        Err(e) => return Some(format!("from_json refuses the output of to_json ({e}): {j}")),
    };
    let sugs = |x: &WLint| x.suggestions().iter().map(|s| (s.kind() as usize, s.get_replacement_text(), s.to_json())).collect::<Vec<_>>();
    let diff = if back.get_problem_text() != l.get_problem_text() {
        "problem text"
    } else if (back.span().start, back.span().end) != (l.span().start, l.span().end) {
        "span"
    } else if back.message() != l.message() {
        "message"
    } else if back.lint_kind() != l.lint_kind() || back.lint_kind_pretty() != l.lint_kind_pretty() {
        "lint kind"
    } else if sugs(&back) != sugs(l) {
        "suggestions"
    } else if back.to_json() != j {
        "JSON text"
    } else {
        return None;
    };
    Some(format!("the {diff} of a lint changed in from_json(to_json(..)): {j}"))
}
fn wlint_json(inner: &CLint, problem: &str, md: bool) -> String {
    json!({"inner": inner, "problem_text": problem, "language": if md {"Markdown"} else {"Plain"}}).to_string()
}

/// rule names (curated + a few unknown ones) numbered in name order: the model's config keys
struct Keys {
    names: Vec<String>,
    curated: String,
    /// the rule descriptions of a new linter as the driver prints them (key id:code of the text, in key order)
    descriptions: String,
}
/// get_lint_descriptions_as_json as `id:code ...` (a key outside the universe shows as `?name`)
fn descr_line(keys: &Keys, j: &str) -> String {
    let Ok(m) = serde_json::from_str::<BTreeMap<String, String>>(j) else { return "!".into() };
    m.iter()
        .map(|(k, d)| match keys.names.binary_search(k) {
            Ok(i) => format!("{i}:{}", code62(d) % 1_000_000_007),
            Err(_) => format!("?{k}"),
        })
        .collect::<Vec<_>>()
        .join(" ")
}
fn bytes_dec(b: &[u8]) -> String {
    b.iter().map(|x| x.to_string()).collect::<Vec<_>>().join(" ")
}
impl Keys {
    fn new() -> Self {
        let cur = harper_wasm::get_default_lint_config_as_json();
        let m: BTreeMap<String, Option<bool>> = serde_json::from_str(&cur).unwrap();
        let mut names: BTreeSet<String> = m.keys().cloned().collect();
        for u in UNKNOWN_KEYS {
            names.insert(u.to_string());
        }
        let mut k = Keys { names: names.into_iter().collect(), curated: String::new(), descriptions: String::new() };
        k.curated = k.cfgstring(&cur);
        k.descriptions = descr_line(&k, &WL::new(WD::American).get_lint_descriptions_as_json());
        k
    }
    /// t/f/n per key of the universe, '-' when the JSON map does not mention it; a key outside the
    /// universe makes the string unequal to anything the model can print
    fn cfgstring(&self, cfg_json: &str) -> String {
        let Ok(m) = serde_json::from_str::<BTreeMap<String, Option<bool>>>(cfg_json) else { return "!".into() };
        let mut out: Vec<char> = vec!['-'; self.names.len()];
        for (k, v) in &m {
            match self.names.binary_search(k) {
                Ok(i) => out[i] = match v { Some(true) => 't', Some(false) => 'f', None => 'n' },
                Err(_) => out.push('?'),
            }
        }
        out.into_iter().collect()
    }
}

#[derive(Default)]
struct Intern {
    map: HashMap<u64, usize>,
}
impl Intern {
    fn id(&mut self, h: u64) -> usize {
        let n = self.map.len() + 1;
        *self.map.entry(h).or_insert(n)
    }
}

// ---------------------------------------------------------------------------------------------
// the mirror: harper_core's public API only; supplies what the model leaves abstract
// ---------------------------------------------------------------------------------------------
fn merged(user: &MutableDictionary) -> Arc<MergedDictionary> {
    let mut d = MergedDictionary::new();
    d.add_dictionary(FstDictionary::curated());
    d.add_dictionary(Arc::new(user.clone()));
    Arc::new(d)
}
fn dict_words(d: &MutableDictionary) -> Vec<String> {
    let mut v: Vec<String> = d.words_iter().map(|w| w.iter().collect()).collect();
    v.sort();
    v
}
fn make_doc(text: &str, md: bool, dict: &Arc<MergedDictionary>) -> Document {
    let source: Vec<char> = text.chars().collect();
    let parser: Box<dyn Parser> = if md { Box::new(Markdown::default()) } else { Box::new(PlainEnglish) };
    Document::new_from_vec(Lrc::new(source), &parser, dict)
}
fn ctx_hash(l: &CLint, doc: &Document) -> u64 {
    let mut ig = IgnoredLints::new();
    ig.ignore_lint(l, doc);
    serde_json::to_value(&ig).unwrap()["context_hashes"][0].as_u64().unwrap()
}
fn word_id(w: &str) -> u64 {
    let cs: Vec<char> = w.chars().collect();
    serde_json::to_value(WordId::from_word_chars(&cs)).unwrap()["hash"].as_u64().unwrap()
}

struct Mirror {
    dialect: harper_core::Dialect,
    user: MutableDictionary,
    synced: MutableDictionary,
    dict_a: Arc<MergedDictionary>,
    group_a: LintGroup,
}
/// one candidate lint dictionary with the raw lints (and context hashes) it yields
struct Alt {
    words: Vec<String>,
    raw: Vec<(CLint, u64)>,
}
impl Mirror {
    fn new(d: WD) -> Self {
        let dialect: harper_core::Dialect = d.into();
        let user = MutableDictionary::new();
        let dict_a = merged(&user);
        Mirror { dialect, synced: user.clone(), user, group_a: LintGroup::new_curated(dict_a.clone(), dialect), dict_a }
    }
    /// candidate A: the dictionary at the last time the user dictionary CHANGED (kept with its LintGroup, so
    /// its chunk cache has the same history as the API's: that is when the API rebuilds its own); candidate
    /// B: the current user dictionary should it ever differ (it cannot, as long as the mirror follows the
    /// API's rule; kept so that a linter that is not re-synchronised shows up as "the model asks for a
    /// dictionary the implementation does not lint with").  Which one the API uses is for the model to say.
    fn import_words(&mut self, ws: &[String]) {
        let before = self.user.clone();
        self.user.extend_words(ws.iter().map(|w| (w.chars().collect::<Vec<char>>(), WordMetadata::default())));
        if self.user != before {
            self.synced = self.user.clone();
            self.dict_a = merged(&self.synced);
            self.group_a = LintGroup::new_curated(self.dict_a.clone(), self.dialect);
        }
    }
    fn lint_alts(&mut self, text: &str, md: bool, eff: &LintGroupConfig) -> Result<Vec<Alt>, String> {
        let mut out = vec![];
        let wa = dict_words(&self.synced);
        let wb = dict_words(&self.user);
        let (ga, da) = (&mut self.group_a, &self.dict_a);
        let raw = guarded(|| {
            let doc = make_doc(text, md, da);
            ga.config = eff.clone();
            let raw = ga.lint(&doc);
            raw.into_iter().map(|l| { let h = ctx_hash(&l, &doc); (l, h) }).collect::<Vec<_>>()
        })?;
        out.push(Alt { words: wa.clone(), raw });
        if wa != wb {
            let db = merged(&self.user);
            let dialect = self.dialect;
            let raw = guarded(|| {
                let mut gb = LintGroup::new_curated(db.clone(), dialect);
                let doc = make_doc(text, md, &db);
                gb.config = eff.clone();
                let raw = gb.lint(&doc);
                raw.into_iter().map(|l| { let h = ctx_hash(&l, &doc); (l, h) }).collect::<Vec<_>>()
            })?;
            out.push(Alt { words: wb, raw });
        }
        Ok(out)
    }
    /// the context hash of one lint on (text, md) under each candidate dictionary
    fn ctx_alts(&self, l: &CLint, text: &str, md: bool) -> Result<Vec<Alt>, String> {
        let mut out = vec![];
        let wa = dict_words(&self.synced);
        let wb = dict_words(&self.user);
        let da = &self.dict_a;
        let h = guarded(|| ctx_hash(l, &make_doc(text, md, da)))?;
        out.push(Alt { words: wa.clone(), raw: vec![(l.clone(), h)] });
        if wa != wb {
            let db = merged(&self.user);
            let h = guarded(|| ctx_hash(l, &make_doc(text, md, &db)))?;
            out.push(Alt { words: wb, raw: vec![(l.clone(), h)] });
        }
        Ok(out)
    }
    /// monitor of the premise `ctx_ignores_dict` (C16_ignore_persistent): the context hash of each lint under
    /// the current lint dictionary equals its context hash under a document parsed WITHOUT the user's words.
    /// Returns (lints checked, description of the first lint whose hash differs).
    fn ctx_dict_dependence(&self, text: &str, md: bool, raw: &[(CLint, u64)]) -> (u64, Option<String>) {
        if raw.is_empty() || self.user.word_count() == 0 {
            return (0, None);
        }
        let empty = merged(&MutableDictionary::new());
        let Ok(hs) = guarded(|| {
            let doc = make_doc(text, md, &empty);
            raw.iter().map(|(l, _)| ctx_hash(l, &doc)).collect::<Vec<u64>>()
        }) else {
            return (0, None);
        };
        let bad = raw.iter().zip(&hs).find(|((_, h), h0)| h != *h0).map(|((l, _), _)| format!("{:?} at [{},{})", l.message, l.span.start, l.span.end));
        (raw.len() as u64, bad)
    }
    /// raw lints from a LintGroup without history (for the "raw lints are a function" monitor)
    fn fresh_raw(&self, text: &str, md: bool, eff: &LintGroupConfig) -> Result<Vec<CLint>, String> {
        let da = self.dict_a.clone();
        let dialect = self.dialect;
        guarded(|| {
            let mut g = LintGroup::new_curated(da.clone(), dialect);
            g.config = eff.clone();
            g.lint(&make_doc(text, md, &da))
        })
    }
}
fn enc_alts(alts: &[Alt], intern: &mut Intern) -> String {
    let mut out = alts.len().to_string();
    for a in alts {
        out.push_str(&format!(" {}", a.words.len()));
        for w in &a.words {
            out.push(' ');
            out.push_str(&enc_str(w));
        }
        out.push_str(&format!(" {}", a.raw.len()));
        for (l, h) in &a.raw {
            out.push_str(&format!(" {} {}", enc_rlint(l), intern.id(*h)));
        }
    }
    out
}

// ---------------------------------------------------------------------------------------------
// histories
// ---------------------------------------------------------------------------------------------
#[derive(Clone, Debug)]
enum Op {
    Lint { text: String, md: bool },
    /// apply suggestion `sug` of lint `lint` of the last lint call (indices modulo what is there;
    /// a lint without suggestions gets a synthetic Remove) to `text` (default: the linted text)
    Apply { lint: usize, sug: usize, text: Option<String> },
    /// malformed stream: a synthetic lint, possibly outside the text
    ApplySynth { text: String, start: usize, end: usize, kind: usize, cs: String },
    Ignore { lint: usize, text: Option<String> },
    ExportIgnored,
    ClearIgnored,
    /// 0: import the last export; 1: import a truncated copy (must be refused)
    ImportIgnored { which: usize },
    IgnoredRoundtrip,
    ImportWords { words: Vec<String> },
    ExportWords,
    WordsRoundtrip,
    SetConfig { json: String, bad: bool },
    GetConfig,
    Stats,
    Dialect,
    /// the exports next to the state machine (Model/C16Api.v)
    TitleCase { text: String },
    LikelyEnglish { text: String },
    IsolateEnglish { text: String },
    DefaultConfig,
    /// import_stats_file of this linter's own generate_stats_file (bad: with a broken last line); variant 1: CRLF line
    /// ends, 2: no newline after the last record, 3: the file of ANOTHER linter that applied a suggestion to "teh cat"
    ImportStats { bad: bool, variant: usize },
    /// summarize_stats(start, end) with the bounds given relative to the oldest record's clock (None = no bound)
    Summarize { start_off: Option<i64>, end_off: Option<i64> },
    /// get_lint_descriptions_as_json
    Descriptions,
}
fn op_json(o: &Op) -> Value {
    match o {
        Op::Lint { text, md } => json!({"op": "lint", "text": text, "md": md}),
        Op::Apply { lint, sug, text } => json!({"op": "apply", "lint": lint, "sug": sug, "text": text}),
        Op::ApplySynth { text, start, end, kind, cs } => json!({"op": "apply_synth", "text": text, "start": start, "end": end, "kind": kind, "cs": cs}),
        Op::Ignore { lint, text } => json!({"op": "ignore", "lint": lint, "text": text}),
        Op::ExportIgnored => json!({"op": "export_ignored"}),
        Op::ClearIgnored => json!({"op": "clear_ignored"}),
        Op::ImportIgnored { which } => json!({"op": "import_ignored", "which": which}),
        Op::IgnoredRoundtrip => json!({"op": "ignored_roundtrip"}),
        Op::ImportWords { words } => json!({"op": "import_words", "words": words}),
        Op::ExportWords => json!({"op": "export_words"}),
        Op::WordsRoundtrip => json!({"op": "words_roundtrip"}),
        Op::SetConfig { json: j, bad } => json!({"op": "set_config", "json": j, "bad": bad}),
        Op::GetConfig => json!({"op": "get_config"}),
        Op::Stats => json!({"op": "stats"}),
        Op::Dialect => json!({"op": "dialect"}),
        Op::TitleCase { text } => json!({"op": "title_case", "text": text}),
        Op::LikelyEnglish { text } => json!({"op": "likely_english", "text": text}),
        Op::IsolateEnglish { text } => json!({"op": "isolate_english", "text": text}),
        Op::DefaultConfig => json!({"op": "default_config"}),
        Op::ImportStats { bad, variant } => json!({"op": "import_stats", "bad": bad, "variant": variant}),
        Op::Summarize { start_off, end_off } => json!({"op": "summarize", "start_off": start_off, "end_off": end_off}),
        Op::Descriptions => json!({"op": "descriptions"}),
    }
}
fn op_of(v: &Value) -> Option<Op> {
    let u = |k: &str| v[k].as_u64().unwrap_or(0) as usize;
    let s = |k: &str| v[k].as_str().unwrap_or("").to_string();
    let os = |k: &str| v[k].as_str().map(|x| x.to_string());
    Some(match v["op"].as_str()? {
        "lint" => Op::Lint { text: s("text"), md: v["md"].as_bool().unwrap_or(false) },
        "apply" => Op::Apply { lint: u("lint"), sug: u("sug"), text: os("text") },
        "apply_synth" => Op::ApplySynth { text: s("text"), start: u("start"), end: u("end"), kind: u("kind"), cs: s("cs") },
        "ignore" => Op::Ignore { lint: u("lint"), text: os("text") },
        "export_ignored" => Op::ExportIgnored,
        "clear_ignored" => Op::ClearIgnored,
        "import_ignored" => Op::ImportIgnored { which: u("which") },
        "ignored_roundtrip" => Op::IgnoredRoundtrip,
        "import_words" => Op::ImportWords { words: v["words"].as_array().map(|a| a.iter().filter_map(|x| x.as_str().map(|y| y.to_string())).collect()).unwrap_or_default() },
        "export_words" => Op::ExportWords,
        "words_roundtrip" => Op::WordsRoundtrip,
        "set_config" => Op::SetConfig { json: s("json"), bad: v["bad"].as_bool().unwrap_or(false) },
        "get_config" => Op::GetConfig,
        "stats" => Op::Stats,
        "dialect" => Op::Dialect,
        "title_case" => Op::TitleCase { text: s("text") },
        "likely_english" => Op::LikelyEnglish { text: s("text") },
        "isolate_english" => Op::IsolateEnglish { text: s("text") },
        "default_config" => Op::DefaultConfig,
        "import_stats" => Op::ImportStats { bad: v["bad"].as_bool().unwrap_or(false), variant: v["variant"].as_u64().unwrap_or(0) as usize },
        "summarize" => Op::Summarize { start_off: v["start_off"].as_i64(), end_off: v["end_off"].as_i64() },
        "descriptions" => Op::Descriptions,
        _ => return None,
    })
}

struct LastLint {
    text: String,
    md: bool,
    jsons: Vec<String>,
    /// context hash of each returned lint (looked up among the raw lints of candidate A)
    hashes: Vec<Option<u64>>,
}

struct Hist<'a> {
    rep: &'a mut Report,
    keys: &'a Keys,
    intern: &'a mut Intern,
    input: Value,
    dialect: usize,
    api: WL,
    mirror: Mirror,
    last: Option<LastLint>,
    last_export: Option<String>,
    /// (text, md, lint json, context hash when ignored, what happened since): lints the user ignored and
    /// that must stay away
    ignored: Vec<(String, bool, String, Option<u64>, Vec<&'static str>)>,
    /// the harness saw an import_words that changed the exported words without changing their number
    recased_since_growth: bool,
    stats_expected: usize,
    dead: bool,
    check_fn: bool,
}

fn splice(kind: usize, cs: &[char], a: usize, b: usize, src: &[char]) -> Vec<char> {
    let mut out: Vec<char> = src[..a].to_vec();
    match kind {
        0 => out.extend(cs),
        1 => {
            out.extend(&src[a..b]);
            out.extend(cs);
        }
        _ => {}
    }
    out.extend(&src[b..]);
    out
}
fn sug_parts(s: &CSug) -> (usize, Vec<char>) {
    match s {
        CSug::ReplaceWith(c) => (0, c.clone()),
        CSug::InsertAfter(c) => (1, c.clone()),
        CSug::Remove => (2, vec![]),
    }
}
fn bucket(n: usize) -> &'static str {
    match n {
        0 => "0",
        1 => "1",
        2..=3 => "2-3",
        4..=7 => "4-7",
        8..=15 => "8-15",
        _ => "16+",
    }
}

impl<'a> Hist<'a> {
    fn fail(&mut self, class: &str, what: String) {
        let inp = self.input.clone();
        self.rep.fail(class, what, inp);
    }
    fn note_event(&mut self, e: &'static str) {
        for i in self.ignored.iter_mut() {
            if i.4.len() < 6 {
                i.4.push(e);
            }
        }
    }

    /// lint through the API + mirror + model case; returns the JSON texts of the returned lints
    fn do_lint(&mut self, text: &str, md: bool) -> Option<Vec<String>> {
        let cfg_json = self.api.get_lint_config_as_json();
        let Ok(cfg) = serde_json::from_str::<LintGroupConfig>(&cfg_json) else {
            self.fail("config_unreadable", "get_lint_config_as_json is not a LintGroupConfig".into());
            return None;
        };
        let mut eff = cfg.clone();
        eff.fill_with_curated();
        let effstr = self.keys.cfgstring(&serde_json::to_string(&eff).unwrap());
        let alts = match self.mirror.lint_alts(text, md, &eff) {
            Ok(a) => a,
            Err(_) => {
                self.rep.count("skipped:document_or_rule_panics(C01's business)");
                return None;
            }
        };
        if self.check_fn {
            // monitor of the Section hypothesis "raw lints are a function of (text, language, config, dictionary)"
            if let Ok(fresh) = self.mirror.fresh_raw(text, md, &eff) {
                self.rep.monitor("raw_lints_function_of_inputs:checked", 1);
                let a: Vec<&CLint> = alts[0].raw.iter().map(|x| &x.0).collect();
                if a.len() != fresh.len() || a.iter().zip(&fresh).any(|(x, y)| **x != *y) {
                    self.rep.monitor("raw_lints_function_of_inputs:VIOLATED", 1);
                    self.fail("raw_lints_depend_on_history", format!("LintGroup::lint on {:?} ({}) differs between a linter with history and a fresh one: {} vs {} lints", text, if md { "Markdown" } else { "Plain" }, a.len(), fresh.len()));
                }
            }
        }
        {
            // monitor of the premise "the context of a lint does not depend on the user dictionary"
            let (n, bad) = self.mirror.ctx_dict_dependence(text, md, &alts[0].raw);
            if n > 0 {
                self.rep.monitor("ctx_ignores_dict:checked", n);
            }
            if let Some(b) = bad {
                self.rep.monitor("ctx_ignores_dict:VIOLATED", 1);
                self.fail("context_depends_on_dictionary", format!("the ignore-context hash of lint {b} on {:?} ({}) differs between the document parsed with the user's words {:?} and without them: adding a word to the dictionary can bring an ignored lint back", text, if md { "Markdown" } else { "Plain" }, dict_words(&self.mirror.user)));
            }
        }
        if self.mirror.user.word_count() > 0 && !alts[0].raw.is_empty() {
            // the same lints through the Document model of Model/C16Ctx.v: with the user's words and without
            let dicts = vec![dict_words(&self.mirror.synced), vec![]];
            let items: Vec<(CLint, usize)> = alts[0].raw.iter().take(12).flat_map(|(l, _)| [(l.clone(), 0usize), (l.clone(), 1usize)]).collect();
            dc_case(self.rep, text, md, &dicts, &items, "history");
        }
        let api = &mut self.api;
        let r = guarded(|| api.lint(text.to_string(), lang_of(md)));
        let case = format!("L {} | {} | {} | {}", md as u8, cps(&chars(text)), effstr, enc_alts(&alts, self.intern));
        let lints = match r {
            Ok(l) => l,
            Err(m) => {
                self.rep.case(&case, "P");
                self.fail("lint_panicked", format!("Linter::lint panicked although linting the same document with harper_core did not: {m}"));
                self.dead = true;
                return None;
            }
        };
        let jsons: Vec<String> = lints.iter().map(|l| l.to_json()).collect();
        let mut impl_line = "OK".to_string();
        for j in &jsons {
            impl_line.push('\t');
            impl_line.push_str(j);
        }
        self.rep.case(&case, &impl_line);
        self.rep.eval();
        // the overlay of the curated configuration must be undone
        if self.api.get_lint_config_as_json() != cfg_json {
            self.fail("config_changed_by_lint", "get_lint_config_as_json differs before and after lint".into());
        }
        // ---- property oracle: JSON round trip of what was returned ----
        for l in &lints {
            if let Some(d) = roundtrip_defect(l) {
                self.fail("json_roundtrip", d);
                break;
            }
        }
        // ---- property oracle: in bounds, problem text, no overlap ----
        let src: Vec<char> = text.chars().collect();
        let mut spans: Vec<(usize, usize)> = vec![];
        for l in &lints {
            let sp = l.span();
            let (a, b) = (sp.start, sp.end);
            if !(a <= b && b <= src.len()) {
                self.fail("lint_out_of_bounds", format!("lint [{a},{b}) \"{}\" lies outside the text of {} characters", l.message(), src.len()));
                continue;
            }
            let want: String = src[a..b].iter().collect();
            if l.get_problem_text() != want {
                self.fail("problem_text", format!("lint [{a},{b}) carries problem text {:?}, the text has {:?} there", l.get_problem_text(), want));
            }
            spans.push((a, b));
        }
        for i in 0..spans.len() {
            for j in (i + 1)..spans.len() {
                let (a, b) = (spans[i], spans[j]);
                if a.0.max(b.0) < a.1.min(b.1) {
                    self.fail("lints_overlap", format!("returned lints [{},{}) and [{},{}) share a character", a.0, a.1, b.0, b.1));
                }
            }
        }
        // ---- ignored lints stay away ----
        let mut returned = vec![];
        for (t, m, j, h, ev) in &self.ignored {
            if t == text && *m == md && jsons.contains(j) {
                returned.push((j.clone(), *h, ev.clone()));
            }
        }
        for (j, h_then, ev) in returned {
            let (inner, pt, _) = split_wlint(&j);
            // its context hash now, under the dictionary the API lints with (every candidate is searched)
            let h_now: Vec<u64> = alts.iter().filter_map(|a| a.raw.iter().find(|(l, _)| *l == inner).map(|(_, h)| *h)).collect();
            let changed = h_then.is_some() && !h_now.is_empty() && !h_now.contains(&h_then.unwrap());
            if changed && ev.contains(&"import_words") {
                self.fail("ignored_lint_returned", format!("lint {:?} on {:?} was ignored and is reported again: its context hash changed after import_words (the context depends on the user dictionary: a word next to the lint became a dictionary word); calls since the ignore: [{}]", inner.message, pt, ev.join(", ")));
            } else {
                self.fail("ignored_lint_returned", format!("lint {:?} on {:?} was ignored and is reported again with {} context hash; calls since the ignore: [{}]", inner.message, pt, if changed { "a changed" } else { "an unchanged" }, ev.join(", ")));
            }
        }
        // distribution
        let raw_n = alts[0].raw.len();
        self.rep.count(&format!("lint:raw_lints:{}", bucket(raw_n)));
        self.rep.count(&format!("lint:returned:{}", bucket(jsons.len())));
        if raw_n > jsons.len() {
            self.rep.count("lint:some_raw_lint_removed(overlap or ignored)");
        }
        if alts.len() > 1 {
            self.rep.count("lint:user_dictionary_differs_from_lint_dictionary");
        }
        self.rep.count(if md { "lint:markdown" } else { "lint:plain" });
        if !jsons.is_empty() {
            self.rep.nontrivial(&(text.to_string(), md, jsons.clone()));
        }
        if self.rep.samples.len() < 4 && jsons.len() >= 2 {
            self.rep.sample(json!({"text": text, "markdown": md, "returned": jsons.len(), "raw": raw_n, "first": jsons[0]}));
        }
        let hashes = jsons
            .iter()
            .map(|j| {
                let (inner, _, _) = split_wlint(j);
                alts[0].raw.iter().find(|(l, _)| *l == inner).map(|(_, h)| *h)
            })
            .collect();
        self.last = Some(LastLint { text: text.to_string(), md, jsons: jsons.clone(), hashes });
        Some(jsons)
    }

    fn do_apply(&mut self, text: &str, lint_json: &str, sug: &CSug, oracle: bool) {
        let (inner, pt, md) = split_wlint(lint_json);
        let Ok(wl) = WLint::from_json(lint_json.to_string()) else {
            self.fail("json_roundtrip", format!("Lint::from_json refuses the output of to_json: {lint_json}"));
            return;
        };
        let Ok(ws) = WSug::from_json(json!({ "inner": sug }).to_string()) else {
            self.fail("json_roundtrip", "Suggestion::from_json refuses a serialised suggestion".into());
            return;
        };
        // pre-flight: the API re-parses the text; a parser panic is C01's business
        if guarded(|| make_doc(text, md, &self.mirror.dict_a)).is_err() {
            self.rep.count("skipped:document_or_rule_panics(C01's business)");
            return;
        }
        let before = self.api.generate_stats_file().lines().count();
        let api = &mut self.api;
        let r = guarded(|| api.apply_suggestion(text.to_string(), &wl, &ws));
        // the record the call pushed (clock, uuid, fat tokens): what the model's env / fat_context answer with
        let after = self.api.generate_stats_file();
        let pushed = if after.lines().count() == before + 1 { after.lines().last().map(|l| bytes_dec(l.as_bytes())).unwrap_or_else(|| "-".into()) } else { "-".into() };
        let case = format!("A {} | {} | {} | {}", cps(&chars(text)), enc_wlint(&inner, &pt, md), enc_sug(sug), pushed);
        // the record just pushed carries the kind of the applied lint (Model/C16Stats.v record_now)
        if after.lines().count() == before + 1 {
            let v: Value = after.lines().last().and_then(|l| serde_json::from_str(l).ok()).unwrap_or(Value::Null);
            let want = KIND_NAMES.get(kind_index(&inner.lint_kind)).copied().unwrap_or("?");
            if v["kind"]["Lint"]["kind"].as_str() != Some(want) {
                self.fail("stats_record_kind", format!("apply_suggestion of a {want} lint recorded {}", v["kind"]));
            }
        } else if r.is_ok() {
            self.fail("stats_record_count", format!("apply_suggestion pushed {} records", after.lines().count() as i64 - before as i64));
        }
        self.stats_expected += 1;
        self.rep.eval();
        let src: Vec<char> = text.chars().collect();
        let (a, b) = (inner.span.start, inner.span.end);
        let inside = a <= b && b <= src.len();
        match r {
            Ok(Ok(t)) => {
                self.rep.case(&case, format!("T {}", cps(&chars(&t))).trim());
                if inside {
                    let (k, cs) = sug_parts(sug);
                    let want: String = splice(k, &cs, a, b, &src).into_iter().collect();
                    if t != want {
                        self.fail("apply_not_local", format!("apply_suggestion({}) on [{a},{b}) of {:?} gave {:?}, the splice is {:?}", sug, text, t, want));
                    }
                    self.rep.count(&format!("apply:{}", ["replace", "insert_after", "remove"][k]));
                } else {
                    self.rep.count("apply:span_outside_text(malformed stream)");
                }
            }
            Ok(Err(e)) => {
                self.rep.case(&case, "E");
                if inside && oracle {
                    self.fail("apply_refused", format!("apply_suggestion returned Err({e}) for a lint of this text"));
                }
            }
            Err(m) => {
                self.rep.case(&case, "P");
                if inside {
                    self.fail("apply_panicked", format!("apply_suggestion panicked on a span inside the text: {m}"));
                }
                self.rep.count("apply:panicked");
            }
        }
        self.do_stats(true);
    }

    fn do_stats(&mut self, oracle: bool) {
        let file = self.api.generate_stats_file();
        let mut kinds = vec![];
        for line in file.lines() {
            let Ok(v) = serde_json::from_str::<Value>(line) else {
                self.fail("stats_unreadable", format!("a line of generate_stats_file is not JSON: {line}"));
                return;
            };
            let name = v["kind"]["Lint"]["kind"].as_str().unwrap_or("?").to_string();
            kinds.push(KIND_NAMES.iter().position(|n| *n == name).unwrap_or(99));
        }
        // the whole file, byte for byte, against the model's Stats::write over C19's concrete Record
        self.rep.case("S", format!("F {}", file.replace('\n', "\t")).trim());
        self.rep.count(&format!("stats_file:records:{}", bucket(kinds.len())));
        if oracle && kinds.len() != self.stats_expected {
            self.fail("stats_record_count", format!("{} statistics records after {} apply_suggestion calls", kinds.len(), self.stats_expected));
        }
    }

    fn do_export_ignored(&mut self) -> String {
        let s = self.api.export_ignored_lints();
        let mut ids: Vec<usize> = hashes_of(&s).into_iter().map(|h| self.intern.id(h)).collect();
        ids.sort();
        self.rep.case("XI", ids.iter().map(|i| i.to_string()).collect::<Vec<_>>().join(" ").trim());
        s
    }
    fn do_clear_ignored(&mut self) {
        self.api.clear_ignored_lints();
        self.rep.case("CI", "ok");
        self.ignored.clear();
    }
    fn do_import_ignored(&mut self, real: &str, truncated: bool) {
        let ids: Vec<String> = hashes_of(real).into_iter().map(|h| self.intern.id(h).to_string()).collect();
        let mut model_json = format!("{{\"context_hashes\":[{}]}}", ids.join(","));
        let mut real = real.to_string();
        if truncated {
            model_json.pop();
            real.pop();
        }
        let r = self.api.import_ignored_lints(real);
        self.rep.case(&format!("MI {}", cps(&chars(&model_json))), if r.is_ok() { "ok" } else { "err" });
        if truncated && r.is_ok() {
            self.fail("import_accepts_garbage", "import_ignored_lints accepted a truncated JSON text".into());
        }
    }

    fn run_op(&mut self, op: &Op) {
        match op {
            Op::Lint { text, md } => {
                self.do_lint(text, *md);
            }
            Op::Apply { lint, sug, text } => {
                let Some(last) = &self.last else { return };
                if last.jsons.is_empty() {
                    return;
                }
                let j = last.jsons[lint % last.jsons.len()].clone();
                let (inner, _, _) = split_wlint(&j);
                let s = if inner.suggestions.is_empty() { CSug::Remove } else { inner.suggestions[sug % inner.suggestions.len()].clone() };
                let drift = text.is_some() && text.as_deref() != Some(last.text.as_str());
                let t = text.clone().unwrap_or_else(|| last.text.clone());
                if drift {
                    self.rep.count("apply:text_differs_from_linted_text");
                }
                self.do_apply(&t, &j, &s, !drift);
            }
            Op::ApplySynth { text, start, end, kind, cs } => {
                let cs: Vec<char> = cs.chars().collect();
                let s = match kind % 3 {
                    0 => CSug::ReplaceWith(cs),
                    1 => CSug::InsertAfter(cs),
                    _ => CSug::Remove,
                };
                let inner = CLint { span: Span { start: *start, end: *end }, message: "synthetic".into(), ..Default::default() };
                let j = wlint_json(&inner, "", false);
                self.do_apply(text, &j, &s, false);
            }
            Op::Ignore { lint, text } => {
                // a fresh baseline: configuration or dictionary may have changed since the last lint call
                let Some(prev) = &self.last else { return };
                let (pt_, pm_) = (prev.text.clone(), prev.md);
                if self.do_lint(&pt_, pm_).is_none() {
                    return;
                }
                let Some(last) = &self.last else { return };
                if last.jsons.is_empty() {
                    return;
                }
                let k = lint % last.jsons.len();
                let j = last.jsons[k].clone();
                let h_l = last.hashes[k];
                let (ltext, lmd, before, before_h) = (last.text.clone(), last.md, last.jsons.clone(), last.hashes.clone());
                let drift = text.is_some() && text.as_deref() != Some(ltext.as_str());
                let t = text.clone().unwrap_or_else(|| ltext.clone());
                let (inner, pt, md) = split_wlint(&j);
                let alts = match self.mirror.ctx_alts(&inner, &t, md) {
                    Ok(a) => a,
                    Err(_) => {
                        self.rep.count("skipped:document_or_rule_panics(C01's business)");
                        return;
                    }
                };
                let Ok(wl) = WLint::from_json(j.clone()) else {
                    self.fail("json_roundtrip", format!("Lint::from_json refuses the output of to_json: {j}"));
                    return;
                };
                let api = &mut self.api;
                let r = guarded(|| api.ignore_lint(t.clone(), wl));
                let case = format!("I {} | {} | {}", cps(&chars(&t)), enc_wlint(&inner, &pt, md), enc_alts(&alts, self.intern));
                if r.is_err() {
                    self.rep.case(&case, "P");
                    self.fail("ignore_panicked", "ignore_lint panicked".into());
                    self.dead = true;
                    return;
                }
                self.rep.case(&case, "ok");
                self.rep.eval();
                if drift {
                    self.rep.count("ignore:text_differs_from_linted_text");
                    return;
                }
                self.rep.count("ignore:on_linted_text");
                // ---- property oracle: the same text again = the earlier results minus that lint ----
                let Some(after) = self.do_lint(&ltext, lmd) else { return };
                if after.contains(&j) {
                    self.fail("ignore_not_removed", format!("lint {:?} on {:?} is still reported right after ignore_lint", inner.message, pt));
                }
                for a in &after {
                    if !before.contains(a) {
                        let (x, xp, _) = split_wlint(a);
                        self.fail("ignore_added_lint", format!("after ignoring {:?} on {:?} a lint that was not reported before appears: {:?} on {:?}", inner.message, pt, x.message, xp));
                    }
                }
                for (i, b) in before.iter().enumerate() {
                    if *b != j && !after.contains(b) {
                        if h_l.is_some() && before_h[i] == h_l {
                            self.rep.count("ignore:twin_with_equal_context_removed_too(C14's business)");
                        } else {
                            let (x, xp, _) = split_wlint(b);
                            self.fail("ignore_removed_other", format!("ignoring {:?} on {:?} also removed {:?} on {:?}, whose context differs", inner.message, pt, x.message, xp));
                        }
                    }
                }
                self.ignored.push((ltext, lmd, j, h_l, vec![]));
            }
            Op::ExportIgnored => {
                let s = self.do_export_ignored();
                self.last_export = Some(s);
            }
            Op::ClearIgnored => self.do_clear_ignored(),
            Op::ImportIgnored { which } => {
                let Some(s) = self.last_export.clone() else { return };
                self.do_import_ignored(&s, *which == 1);
            }
            Op::IgnoredRoundtrip => {
                let Some(last) = &self.last else { return };
                let (t, md) = (last.text.clone(), last.md);
                let Some(before) = self.do_lint(&t, md) else { return };
                let keep = self.ignored.clone();
                let x = self.do_export_ignored();
                self.do_clear_ignored();
                self.do_import_ignored(&x, false);
                self.ignored = keep;
                let Some(after) = self.do_lint(&t, md) else { return };
                self.rep.count("roundtrip:ignored");
                if before != after {
                    self.fail("ignored_roundtrip", format!("export, clear, import of the ignore list changed the lints of {:?}: {} before, {} after", t, before.len(), after.len()));
                }
                let mut a = hashes_of(&x);
                let mut b = hashes_of(&self.api.export_ignored_lints());
                a.sort();
                b.sort();
                if a != b {
                    self.fail("ignored_roundtrip", "the ignore list exported after export/clear/import differs from the first export".into());
                }
            }
            Op::ImportWords { words } => {
                let before = {
                    let mut w = self.api.export_words();
                    w.sort();
                    w
                };
                let mut line = format!("W {}", words.len());
                for w in words {
                    let id = self.intern.id(word_id(w));
                    line.push_str(&format!(" {} {}", id, enc_str(w)));
                }
                let cfg_before = explicit_choices(&self.api.get_lint_config_as_json());
                let api = &mut self.api;
                let ws = words.clone();
                if guarded(|| api.import_words(ws)).is_err() {
                    self.rep.case(&line, "P");
                    self.fail("import_words_panicked", "import_words panicked".into());
                    self.dead = true;
                    return;
                }
                self.rep.case(&line, "ok");
                self.rep.eval();
                // ---- oracle (C16_import_words_keeps_config on the real API): the rebuild of the LintGroup inside
                // import_words keeps every explicit choice of the configuration ----
                let cfg_after = explicit_choices(&self.api.get_lint_config_as_json());
                if cfg_before.is_some() && cfg_after != cfg_before {
                    self.fail("import_words_changed_config", format!("import_words({:?}) changed the explicit choices of get_lint_config_as_json ({} before, {} after)", words, cfg_before.as_ref().map(|m| m.len()).unwrap_or(0), cfg_after.as_ref().map(|m| m.len()).unwrap_or(0)));
                }
                self.mirror.import_words(words);
                let after = {
                    let mut w = self.api.export_words();
                    w.sort();
                    w
                };
                if after.len() > before.len() {
                    self.recased_since_growth = false;
                    self.rep.count("import_words:count_grew");
                } else if after != before {
                    self.recased_since_growth = true;
                    self.rep.count("import_words:respelling_only");
                } else {
                    self.rep.count("import_words:no_change");
                }
                self.note_event("import_words");
            }
            Op::ExportWords => {
                let mut w = self.api.export_words();
                w.sort();
                let line = w.iter().map(|x| cps(&chars(x))).collect::<Vec<_>>().join(" ; ");
                self.rep.case("XW", line.trim());
            }
            Op::WordsRoundtrip => self.oracle_words_roundtrip(),
            Op::SetConfig { json: j, bad } => {
                let before_cfg = self.api.get_lint_config_as_json();
                let r = self.api.set_lint_config_from_json(j.clone());
                let case = if *bad { "SC !".to_string() } else { format!("SC {}", self.keys.cfgstring(j)) };
                self.rep.case(&case, if r.is_ok() { "ok" } else { "err" });
                self.rep.count(if *bad { "set_config:malformed" } else { "set_config:valid" });
                self.note_event("set_config");
                // ---- oracle (C16_set_config_replaces on the real API; the clause itself is C11's "rules the user
                // has not mentioned take their curated defaults"): what get_lint_config_as_json reports as explicit
                // choices afterwards is exactly what was set; a refused text changes nothing ----
                let after = self.api.get_lint_config_as_json();
                let explicit = explicit_choices;
                match (r.is_ok(), explicit(j), explicit(&after)) {
                    (true, Some(want), Some(got)) => {
                        self.rep.eval();
                        if want != got {
                            let d: Vec<String> = got.iter().filter(|(k, v)| want.get(*k) != Some(*v)).map(|(k, v)| format!("{k}={v} kept")).chain(want.iter().filter(|(k, v)| got.get(*k) != Some(*v)).map(|(k, v)| format!("{k}={v} not taken"))).take(4).collect();
                            self.fail("set_config_not_replaced", format!("after set_lint_config_from_json({}) get_lint_config_as_json reports other explicit choices than were set ({}): a rule left unset by the new configuration does not return to its default", if j.len() > 120 { "…" } else { j.as_str() }, d.join(", ")));
                        }
                    }
                    (false, _, _) => {
                        if after != before_cfg {
                            self.fail("set_config_err_changed_config", "set_lint_config_from_json returned Err and changed the configuration".into());
                        }
                    }
                    _ => {}
                }
                self.run_op(&Op::GetConfig);
            }
            Op::GetConfig => {
                let c = self.api.get_lint_config_as_json();
                let s = self.keys.cfgstring(&c);
                self.rep.case("GC", &s);
            }
            Op::Stats => self.do_stats(true),
            Op::TitleCase { text } => {
                // to_title_case = make_title_case_str(text, PlainEnglish, curated dictionary): the mirror computes
                // the composition on harper_core, the model passes it through xstep, the API must agree
                let t = text.clone();
                let Ok(mine) = guarded(|| harper_core::make_title_case_str(&t, &PlainEnglish, &FstDictionary::curated())) else {
                    self.rep.count("api:title_case:core_panicked(skipped)");
                    return;
                };
                let t = text.clone();
                let got = guarded(|| harper_wasm::to_title_case(t));
                self.rep.case(&format!("TT {} | {}", cps(&chars(text)), cps(&chars(&mine))), &match &got { Ok(g) => format!("T {}", cps(&chars(g))).trim().to_string(), Err(_) => "P".into() });
                self.rep.count("api:title_case");
                if got.as_ref().ok() != Some(&mine) {
                    self.fail("title_case_composition", format!("to_title_case({:?}) = {:?}, make_title_case_str with PlainEnglish and the curated dictionary = {:?}", text, got, mine));
                }
            }
            Op::LikelyEnglish { text } | Op::IsolateEnglish { text } => {
                let isolate = matches!(op, Op::IsolateEnglish { .. });
                let mut cands: Vec<(Vec<String>, Arc<MergedDictionary>)> = vec![(dict_words(&self.mirror.synced), self.mirror.dict_a.clone())];
                if dict_words(&self.mirror.synced) != dict_words(&self.mirror.user) {
                    cands.push((dict_words(&self.mirror.user), merged(&self.mirror.user)));
                }
                let mut enc = cands.len().to_string();
                for (ws, d) in &cands {
                    let (t, d2) = (text.clone(), d.clone());
                    let r = guarded(move || {
                        if isolate {
                            Document::new(&t, &IsolateEnglish::new(Box::new(PlainEnglish), d2.clone()), &d2).to_string()
                        } else {
                            (is_doc_likely_english(&Document::new_plain_english(&t, &d2), &d2) as u8).to_string()
                        }
                    });
                    let Ok(v) = r else {
                        self.rep.count("api:english:core_panicked(skipped)");
                        return;
                    };
                    enc.push_str(&format!(" {}", ws.len()));
                    for w in ws {
                        enc.push_str(&format!(" {}", enc_str(w)));
                    }
                    enc.push_str(&format!(" {}", if isolate { enc_str(&v) } else { v }));
                }
                let t = text.clone();
                let api = &self.api;
                let got = guarded(|| if isolate { api.isolate_english(t) } else { (api.is_likely_english(t) as u8).to_string() });
                let impl_line = match &got {
                    Ok(g) if isolate => format!("T {}", cps(&chars(g))).trim().to_string(),
                    Ok(g) => format!("b {g}"),
                    Err(_) => "P".into(),
                };
                self.rep.case(&format!("{} {} | {}", if isolate { "IE" } else { "LE" }, cps(&chars(text)), enc), &impl_line);
                self.rep.count(if isolate { "api:isolate_english" } else { "api:is_likely_english" });
            }
            Op::DefaultConfig => {
                let c = harper_wasm::get_default_lint_config_as_json();
                let s = self.keys.cfgstring(&c);
                self.rep.case("DCFG", &s);
                self.rep.count("api:default_config");
                // on the real API: handing the default configuration to a NEW linter changes no answer (C16_default_config)
                if let Some(l) = &self.last {
                    let (t, md) = (l.text.clone(), l.md);
                    let d = wd_of(self.dialect);
                    let r = guarded(|| {
                        let mut a = WL::new(d);
                        let mut b = WL::new(d);
                        let _ = b.set_lint_config_from_json(harper_wasm::get_default_lint_config_as_json());
                        let ja: Vec<String> = a.lint(t.clone(), lang_of(md)).iter().map(|x| x.to_json()).collect();
                        let jb: Vec<String> = b.lint(t.clone(), lang_of(md)).iter().map(|x| x.to_json()).collect();
                        (ja, jb)
                    });
                    if let Ok((ja, jb)) = r {
                        if ja != jb {
                            self.fail("default_config_not_default", format!("a new linter and a new linter given get_default_lint_config_as_json lint {:?} differently: {} vs {} lints", l.text, ja.len(), jb.len()));
                        }
                    }
                }
            }
            Op::ImportStats { bad, variant } => {
                let own = self.api.generate_stats_file();
                if own.len() > 200_000 {
                    // repeated imports of the own file double it: keep the case lines (the file as decimal bytes) bounded
                    self.rep.count("skipped:import_stats(own file > 200 kB)");
                    return;
                }
                // the file handed over: this linter's own, or (variant 3) that of another linter
                let file = if *variant == 3 {
                    let d = wd_of(self.dialect);
                    guarded(|| {
                        let mut other = WL::new(d);
                        let t = "I saw teh cat, $5 and 3.50 dollars.".to_string();
                        let ls = other.lint(t.clone(), Language::Plain);
                        if let Some(l) = ls.first() {
                            if let Some(sg) = l.suggestions().first() {
                                let _ = other.apply_suggestion(t, l, sg);
                            }
                        }
                        other.generate_stats_file()
                    })
                    .unwrap_or_default()
                } else {
                    own.clone()
                };
                // variant 4: this linter's own records with the clock of record i moved i seconds on (distinct clocks,
                // so that the windows of summarize_stats cut through the records)
                let file = if *variant == 4 {
                    file.lines()
                        .enumerate()
                        .map(|(i, l)| {
                            let Some(p) = l.rfind(",\"when\":") else { return format!("{l}\n") };
                            let q = p + 8;
                            let e = l[q..].find(',').map(|x| q + x).unwrap_or(l.len());
                            match l[q..e].parse::<i64>() {
                                Ok(w) => format!("{}{}{}\n", &l[..q], w + i as i64, &l[e..]),
                                Err(_) => format!("{l}\n"),
                            }
                        })
                        .collect::<String>()
                } else {
                    file
                };
                let n = file.lines().count();
                let mut given = match *variant {
                    1 => file.replace('\n', "\r\n"),
                    2 => file.trim_end_matches('\n').to_string(),
                    _ => file.clone(),
                };
                if *bad {
                    given.push_str("{\"kind\":{\"Lint\":\n");
                }
                let r = self.api.import_stats_file(given.clone());
                self.rep.case(format!("IS {}", bytes_dec(given.as_bytes())).trim(), if r.is_ok() { "ok" } else { "err" });
                self.rep.count(&format!("api:import_stats:{}{}", ["own", "crlf", "no_final_newline", "other_linter", "own_clocks_spread"][*variant % 5], if *bad { ":broken" } else { "" }));
                self.rep.monitor("stats_roundtrip:records_checked", n as u64);
                if r.is_ok() == *bad {
                    self.fail("stats_file_roundtrip", format!("import_stats_file {} a file that is {}", if r.is_ok() { "accepted" } else { "refused" }, if *bad { "broken in its last line" } else { "a linter's generate_stats_file" }));
                }
                if r.is_ok() {
                    self.stats_expected += n;
                    // the property on the real code (C16_stats_file_roundtrip): the importing linter writes its own
                    // file followed by the imported one, byte for byte.  This is also the monitor of what the theorem
                    // still assumes (float_rt; records are Rust values with finite Numbers).
                    let again = self.api.generate_stats_file();
                    if again != format!("{own}{file}") {
                        self.rep.monitor("stats_roundtrip:VIOLATED", 1);
                        self.fail("stats_file_roundtrip", format!("after importing a {n}-record statistics file the linter does not write its own records followed by the imported ones: {} bytes vs {} + {}", again.len(), own.len(), file.len()));
                    }
                }
                self.do_stats(false);
            }
            Op::Summarize { start_off, end_off } => {
                // summarize_stats returns a JsValue (aborts natively): the mirror runs its body (pinned by
                // C16_api_bodies) on the records of generate_stats_file with harper_stats itself
                let file = self.api.generate_stats_file();
                let Ok(mut stats) = harper_stats::Stats::read(&mut std::io::Cursor::new(file.as_bytes())) else {
                    self.fail("stats_unreadable", "Stats::read refuses generate_stats_file".into());
                    return;
                };
                let base = stats.records.iter().map(|r| r.when).min().unwrap_or(0);
                let (a, b) = (start_off.map(|o| base + o), end_off.map(|o| base + o));
                if let Some(a) = a {
                    stats.records.retain(|i| i.when > a);
                }
                if let Some(b) = b {
                    stats.records.retain(|i| i.when < b);
                }
                let kept = stats.records.len();
                let sm = stats.summarize();
                let mut counts: Vec<(usize, u32)> = sm.lint_counts.iter().map(|(k, c)| (kind_index(k), *c)).collect();
                counts.sort();
                let mut missp: Vec<(Vec<u32>, u32)> = sm.misspelled.iter().map(|(w, c)| (w.chars().map(|x| x as u32).collect(), *c)).collect();
                missp.sort();
                let cfg_n = serde_json::to_value(&sm.final_config).ok().and_then(|v| v.as_object().map(|o| o.len())).unwrap_or(0);
                let line = format!(
                    "{} | {} | {} | {}",
                    sm.total_applied,
                    counts.iter().map(|(k, c)| format!("{k}:{c}")).collect::<Vec<_>>().join(" "),
                    missp.iter().map(|(w, c)| format!("{} :{c}", w.iter().map(|x| x.to_string()).collect::<Vec<_>>().join(" "))).collect::<Vec<_>>().join(" ; "),
                    cfg_n
                );
                let o = |x: Option<i64>| x.map(|v| v.to_string()).unwrap_or_else(|| "-".into());
                self.rep.case(&format!("SUM {} {}", o(a), o(b)), &line);
                self.rep.count(&format!("api:summarize_stats(mirror):kept_{}_of_{}", bucket(kept), bucket(file.lines().count())));
                if a.is_none() && b.is_none() && sm.total_applied as usize != self.stats_expected {
                    self.fail("stats_record_count", format!("the unbounded summary counts {} applied lints, the linter holds {} records", sm.total_applied, self.stats_expected));
                }
            }
            Op::Descriptions => {
                let j = self.api.get_lint_descriptions_as_json();
                let line = descr_line(self.keys, &j);
                self.rep.case("LD", &line);
                self.rep.count("api:lint_descriptions");
                if line != self.keys.descriptions {
                    self.fail("descriptions_changed", "get_lint_descriptions_as_json differs from the descriptions of a new linter".into());
                }
            }
            Op::Dialect => {
                let d = wd_index(self.api.get_dialect());
                self.rep.case("D", &d.to_string());
                if d != self.dialect {
                    self.fail("dialect", "get_dialect differs from the dialect the linter was built with".into());
                }
            }
        }
    }

    /// "exporting then importing the custom words restores the same behaviour": a second linter that
    /// receives this linter's configuration, ignore list and exported words must lint like this one.
    fn oracle_words_roundtrip(&mut self) {
        let mut ws = self.api.export_words();
        ws.sort();
        let cfg = self.api.get_lint_config_as_json();
        let ign = self.api.export_ignored_lints();
        let mut fresh = WL::new(wd_of(self.dialect));
        let _ = fresh.set_lint_config_from_json(cfg);
        let _ = fresh.import_ignored_lints(ign);
        fresh.import_words(ws.clone());
        let mut back = fresh.export_words();
        back.sort();
        if back != ws {
            self.fail("words_roundtrip_words", format!("export_words of the second linter {:?} differs from what was imported {:?}", back, ws));
        }
        let mut probes: Vec<(String, bool)> = vec![];
        if let Some(l) = &self.last {
            probes.push((l.text.clone(), l.md));
        }
        if !ws.is_empty() {
            let mut p = String::new();
            for w in ws.iter().take(6) {
                p.push_str(&format!("We {} it. We {} it. We {} it. ", w, w.to_lowercase(), gen::capitalize(&w.to_lowercase())));
            }
            probes.push((p, false));
        }
        self.rep.count("roundtrip:words");
        for (t, md) in probes {
            let Some(mine) = self.do_lint(&t, md) else { continue };
            let Ok(theirs) = guarded(|| fresh.lint(t.clone(), lang_of(md))) else { continue };
            let theirs: Vec<String> = theirs.iter().map(|l| l.to_json()).collect();
            if mine != theirs {
                let diff: Vec<String> = mine.iter().filter(|x| !theirs.contains(x)).chain(theirs.iter().filter(|x| !mine.contains(x))).map(|j| split_wlint(j).1).collect();
                let why = if self.recased_since_growth {
                    "the last import_words only respelt known words (same word count): was this linter re-synchronised?"
                } else {
                    "no respelling-only import_words preceded"
                };
                self.fail("words_roundtrip", format!("a second linter given the exported words {:?} lints {:?} differently ({} vs {} lints; differing on {:?}); {}", ws, t, mine.len(), theirs.len(), diff, why));
                return;
            }
        }
    }
}

/// the explicit (non-null) choices of a configuration JSON text
fn explicit_choices(j: &str) -> Option<BTreeMap<String, bool>> {
    serde_json::from_str::<BTreeMap<String, Option<bool>>>(j).ok().map(|m| m.into_iter().filter_map(|(k, v)| v.map(|b| (k, b))).collect())
}

fn hashes_of(export: &str) -> Vec<u64> {
    let v: Value = serde_json::from_str(export).unwrap_or(Value::Null);
    v["context_hashes"].as_array().map(|a| a.iter().filter_map(|x| x.as_u64()).collect()).unwrap_or_default()
}

fn run_history(rep: &mut Report, keys: &Keys, intern: &mut Intern, dialect: usize, ops: &[Op], origin: &str, check_fn: bool) {
    let input = json!({"kind": "history", "dialect": dialect, "ops": ops.iter().map(op_json).collect::<Vec<_>>(), "origin": origin});
    rep.case(&format!("N {dialect}"), "ok");
    let d = wd_of(dialect);
    let mut h = Hist {
        rep,
        keys,
        intern,
        input,
        dialect,
        api: WL::new(d),
        mirror: Mirror::new(d),
        last: None,
        last_export: None,
        ignored: vec![],
        recased_since_growth: false,
        stats_expected: 0,
        dead: false,
        check_fn,
    };
    for op in ops {
        if h.dead {
            break;
        }
        h.run_op(op);
        let name = op_json(op)["op"].as_str().unwrap().to_string();
        h.rep.count(&format!("op:{name}"));
    }
    h.rep.count(&format!("history:dialect:{}", ["American", "British", "Australian", "Canadian"][dialect % 4]));
}

// ---------------------------------------------------------------------------------------------
// JSON: printers and parsers on synthetic values
// ---------------------------------------------------------------------------------------------
fn check_json_lint(rep: &mut Report, inner: &CLint, problem: &str, md: bool, origin: &str) {
    rep.eval();
    let inp = json!({"kind": "json", "lint": inner, "problem_text": problem, "md": md, "origin": origin});
    let built = wlint_json(inner, problem, md);
    let Ok(w) = WLint::from_json(built.clone()) else {
        rep.fail("json_roundtrip", format!("Lint::from_json refuses {built}"), inp);
        return;
    };
    let j = w.to_json();
    rep.case(&format!("JL {}", enc_wlint(inner, problem, md)), &j);
    if w.get_problem_text() != problem || w.message() != inner.message {
        rep.fail("json_roundtrip", format!("Lint::from_json lost a field of {built}"), inp.clone());
    }
    // ---- property oracle: the round trip changes nothing ----
    match WLint::from_json(j.clone()) {
        Ok(w2) => {
            let sp = (w2.span().start, w2.span().end);
            let sugs: Vec<(usize, String)> = w2.suggestions().iter().map(|s| (s.kind() as usize, s.get_replacement_text())).collect();
            let want: Vec<(usize, String)> = inner
                .suggestions
                .iter()
                .map(|s| match s {
                    CSug::ReplaceWith(c) => (0usize, c.iter().collect::<String>()),
                    CSug::Remove => (1, String::new()),
                    CSug::InsertAfter(c) => (2, c.iter().collect::<String>()),
                })
                .collect();
            if w2.to_json() != j || sp != (inner.span.start, inner.span.end) || w2.message() != inner.message || w2.get_problem_text() != problem || sugs != want || w2.lint_kind() != inner.lint_kind.to_string_key() {
                rep.fail("json_roundtrip", format!("a Lint changed in its JSON round trip: {j}"), inp.clone());
            }
        }
        Err(e) => rep.fail("json_roundtrip", format!("Lint::from_json refuses the output of to_json ({e}): {j}"), inp.clone()),
    }
    // parser: the canonical text and its proper prefixes
    let jc = chars(&j);
    rep.case(&format!("PL {}", cps(&jc)), &j);
    let cut = (inner.message.len() * 7 + problem.len() * 3 + 1) % jc.len().max(1);
    let pre: String = jc[..cut].iter().collect();
    rep.case(&format!("PL {}", cps(&jc[..cut])), &WLint::from_json(pre).map(|w| w.to_json()).unwrap_or_else(|_| "none".into()));
    // span and suggestions on their own
    let sj = WSpan::new(inner.span.start, inner.span.end).to_json();
    rep.case(&format!("JS {} {}", inner.span.start, inner.span.end), &sj);
    rep.case(&format!("PS {}", cps(&chars(&sj))), &WSpan::from_json(sj.clone()).map(|s| s.to_json()).unwrap_or_else(|_| "none".into()));
    for s in &inner.suggestions {
        let built = json!({ "inner": s }).to_string();
        match WSug::from_json(built) {
            Ok(ws) => {
                let gj = ws.to_json();
                rep.case(&format!("JG {}", enc_sug(s)), &gj);
                rep.case(&format!("PG {}", cps(&chars(&gj))), &WSug::from_json(gj.clone()).map(|x| x.to_json()).unwrap_or_else(|_| "none".into()));
                let gc = chars(&gj);
                let pre: String = gc[..gc.len() - 1].iter().collect();
                rep.case(&format!("PG {}", cps(&gc[..gc.len() - 1])), &WSug::from_json(pre).map(|x| x.to_json()).unwrap_or_else(|_| "none".into()));
            }
            Err(e) => rep.fail("json_roundtrip", format!("Suggestion::from_json refuses a serialised suggestion: {e}"), inp.clone()),
        }
    }
    rep.count("json:lint");
    if inner.message.chars().any(|c| (c as u32) < 0x20 || c == '"' || c == '\\') || problem.chars().any(|c| (c as u32) < 0x20 || c == '"' || c == '\\') {
        rep.count("json:lint_with_escapes");
        rep.nontrivial(&j);
    }
}

fn check_json_hashes(rep: &mut Report, hs: &[u64]) {
    // IgnoredLints serialises a hash set: build it through the API so that the order is the real one
    let built = format!("{{\"context_hashes\":[{}]}}", hs.iter().map(|h| h.to_string()).collect::<Vec<_>>().join(","));
    let mut l = IgnoredLints::new();
    if let Ok(x) = serde_json::from_str::<IgnoredLints>(&built) {
        l.append(x);
    }
    let j = serde_json::to_string(&l).unwrap();
    let order = hashes_of(&j);
    rep.case(&format!("JH {}", order.iter().map(|h| h.to_string()).collect::<Vec<_>>().join(" ")), &j);
    rep.case(&format!("PH {}", cps(&chars(&j))), &j);
    rep.count("json:ignore_list");
}

const NASTY: &[&str] = &["\"", "\\", "\n", "\r", "\t", "\u{8}", "\u{c}", "\u{0}", "\u{1}", "\u{1f}", "\u{7f}", "/", "é", "😀", "\u{2028}", "\u{85}", "\u{10FFFF}", "a", "Z", " ", "“", "\\u0041", "]", "}", ",", ":"];

fn random_string(r: &mut Rng, max: usize) -> String {
    let n = r.below(max + 1);
    let mut s = String::new();
    for _ in 0..n {
        if r.chance(1, 2) {
            s.push_str(r.s(NASTY));
        } else {
            s.push_str(&gen::malformed(r, 2));
        }
    }
    s
}
fn random_sug(r: &mut Rng) -> CSug {
    match r.below(5) {
        0 => CSug::Remove,
        1 | 2 => CSug::ReplaceWith(random_string(r, 4).chars().collect()),
        _ => CSug::InsertAfter(random_string(r, 3).chars().collect()),
    }
}
fn random_core_lint(r: &mut Rng) -> CLint {
    let kinds = [LintKind::Spelling, LintKind::Capitalization, LintKind::Style, LintKind::Formatting, LintKind::Repetition, LintKind::Enhancement, LintKind::Readability, LintKind::WordChoice, LintKind::Miscellaneous, LintKind::Punctuation];
    let a = if r.chance(1, 10) { r.below(100000) } else { r.below(40) };
    let b = if r.chance(1, 8) { r.below(40) } else { a + r.below(12) };
    let n = r.below(4);
    CLint {
        span: Span { start: a, end: b },
        lint_kind: kinds[r.below(10)],
        suggestions: (0..n).map(|_| random_sug(r)).collect(),
        message: random_string(r, 8),
        priority: *r.pick(&[0u8, 1, 9, 10, 31, 63, 99, 100, 127, 255]),
    }
}


// ---------------------------------------------------------------------------------------------
// DC: the Document model behind the ignore context (Model/C16Ctx.v) against harper_core
// ---------------------------------------------------------------------------------------------
/// 62-bit code of a hashed field (OCaml ints are 63-bit)
fn code62<T: Hash>(t: &T) -> u64 {
    let mut h = DefaultHasher::new();
    t.hash(&mut h);
    h.finish() & 0x3FFF_FFFF_FFFF_FFFF
}
fn opt_code(c: Option<u64>) -> String {
    c.map(|c| c.to_string()).unwrap_or("-1".into())
}
/// integer encoding of a TokenKind with every hashed field (the shape of Model/Ignore.v `tkind`)
fn kind_ints(k: &TokenKind) -> String {
    match k {
        TokenKind::Word(m) => format!("0 {}", opt_code(m.as_ref().map(code62))),
        TokenKind::Punctuation(Punctuation::Quote(q)) => format!("2 {}", q.twin_loc.map(|n| n as i64).unwrap_or(-1)),
        TokenKind::Punctuation(p) => format!("1 {}", code62(p)),
        TokenKind::Decade => "3".into(),
        TokenKind::Number(n) => format!("4 {} {} {} {}", code62(&n.value), opt_code(n.suffix.map(|s| code62(&s))), n.radix, n.precision),
        TokenKind::Space(n) => format!("5 {n}"),
        TokenKind::Newline(n) => format!("6 {n}"),
        TokenKind::EmailAddress => "7".into(),
        TokenKind::Url => "8".into(),
        TokenKind::Hostname => "9".into(),
        TokenKind::Unlintable => "10".into(),
        TokenKind::ParagraphBreak => "11".into(),
        TokenKind::Regexish => "12".into(),
    }
}
fn doc_dump(doc: &Document) -> String {
    doc.get_tokens().iter().map(|t| format!("{} {} {}", t.span.start, t.span.end, kind_ints(&t.kind))).collect::<Vec<_>>().join(",")
}
fn user_dict(words: &[String]) -> MutableDictionary {
    let mut d = MutableDictionary::new();
    d.extend_words(words.iter().map(|w| (w.chars().collect::<Vec<char>>(), WordMetadata::default())));
    d
}
/// One DC case: the model gets the tokens of the text parsed WITHOUT any dictionary (Model/C16Ctx.v
/// `pre_tokens`), per user dictionary the answer of `Dictionary::get_word_metadata` for every word of the text
/// (`word_meta`, asked of the dictionary itself, not read off a document), and (lint, dictionary) items.  It must
/// predict (a) the tokens of the real Document under each dictionary, (b) which items share an ignore context
/// (the implementation side: equality of the u64 hashes the real IgnoredLints stores).
/// Oracle: an item pair that differs in the dictionary only must share its hash.
fn dc_case(rep: &mut Report, text: &str, md: bool, dicts: &[Vec<String>], items: &[(CLint, usize)], origin: &str) {
    if items.is_empty() || dicts.is_empty() {
        return;
    }
    let r = guarded(|| {
        let source: Vec<char> = text.chars().collect();
        let parser: Box<dyn Parser> = if md { Box::new(Markdown::default()) } else { Box::new(PlainEnglish) };
        let pre = Document::new_from_vec(Lrc::new(source.clone()), &parser, &MutableDictionary::new());
        let mut words: BTreeSet<Vec<char>> = BTreeSet::new();
        for t in pre.get_tokens() {
            if matches!(t.kind, TokenKind::Word(_)) && t.span.start <= t.span.end && t.span.end <= source.len() {
                words.insert(source[t.span.start..t.span.end].to_vec());
            }
        }
        let mut dict_enc = dicts.len().to_string();
        let mut dumps = vec![];
        let mut docs = vec![];
        for ws in dicts {
            let m = merged(&user_dict(ws));
            dict_enc.push_str(&format!(" {}", ws.len()));
            for w in ws {
                dict_enc.push_str(&format!(" {}", enc_str(w)));
            }
            dict_enc.push_str(&format!(" {}", words.len()));
            for w in &words {
                dict_enc.push_str(&format!(" {} {}", enc_text(w), opt_code(m.get_word_metadata(w).map(code62))));
            }
            let doc = make_doc(text, md, &m);
            dumps.push(doc_dump(&doc));
            docs.push(doc);
        }
        let hashes: Vec<u64> = items.iter().map(|(l, di)| ctx_hash(l, &docs[*di])).collect();
        (doc_dump(&pre), pre.get_tokens().len(), dict_enc, dumps, hashes)
    });
    let Ok((pre, ntok, dict_enc, dumps, hashes)) = r else {
        rep.count("dc:document_or_context_panicked(skipped)");
        return;
    };
    let classes: Vec<String> = hashes.iter().enumerate().map(|(i, h)| hashes.iter().position(|x| x == h).unwrap_or(i).to_string()).collect();
    let mut item_enc = items.len().to_string();
    for (l, di) in items {
        item_enc.push_str(&format!(" {} {}", enc_rlint(l), di));
    }
    let case = format!("DC {} | {} | {} {} | {} | {}", md as u8, enc_str(text), ntok, pre.replace(',', " "), dict_enc, item_enc);
    rep.case(&case, &format!("{} # {}", dumps.join(" ; "), classes.join(" ")));
    rep.eval();
    rep.count(&format!("dc:{origin}:dicts={}:items={}", dicts.len(), bucket(items.len())));
    if dumps.iter().any(|d| *d != dumps[0]) {
        rep.count("dc:documents_differ_between_dictionaries");
        rep.nontrivial(&(text.to_string(), md, "dc"));
    }
    // the property on the real code: the same lint on the same text under two dictionaries has one context
    for (i, (l, di)) in items.iter().enumerate() {
        for (j, (l2, dj)) in items.iter().enumerate().skip(i + 1) {
            if di != dj && l == l2 {
                rep.monitor("ctx_same_under_dictionaries:checked", 1);
                if hashes[i] != hashes[j] {
                    rep.monitor("ctx_same_under_dictionaries:VIOLATED", 1);
                    rep.fail(
                        "context_depends_on_dictionary",
                        format!("the ignore-context hash of lint {:?} at [{},{}) on {:?} ({}) differs between user dictionaries {:?} and {:?}: adding a word to the dictionary can bring an ignored lint back", l.message, l.span.start, l.span.end, text, if md { "Markdown" } else { "Plain" }, dicts[*di], dicts[*dj]),
                        json!({"kind": "dc", "text": text, "md": md, "dicts": dicts, "items": items.iter().map(|(l, d)| json!({"lint": l, "dict": d})).collect::<Vec<_>>()}),
                    );
                    return;
                }
            }
        }
    }
}
/// random DC case: a text with user words, two or three user dictionaries (one empty), the lints the curated
/// rules report under each, plus synthetic lints on random spans (near words whose metadata differs)
fn gen_dc(rep: &mut Report, r: &mut Rng) {
    let mut text = gen_text(r);
    if r.chance(1, 2) {
        let w = r.s(USER_WORDS);
        let w2 = r.s(USER_WORDS);
        text = match r.below(3) {
            0 => format!("{w} {text}"),
            1 => format!("{text} {w2} an {w}."),
            _ => format!("I {w} a apple, \"{w2}\" teh {w}. {text}"),
        };
    }
    let md = r.chance(1, 3);
    let n = r.range(1, 4);
    let mut a: Vec<String> = (0..n).map(|_| r.s(USER_WORDS).to_string()).collect();
    // sometimes a word of the text itself (known or unknown to the curated dictionary)
    let toks: Vec<&str> = text.split(|c: char| !c.is_alphanumeric()).filter(|w| !w.is_empty()).collect();
    if !toks.is_empty() && r.chance(1, 2) {
        a.push(r.pick(&toks).to_string());
    }
    a.sort();
    a.dedup();
    let mut dicts: Vec<Vec<String>> = vec![a.clone(), vec![]];
    if r.chance(1, 2) {
        dicts.push(a.iter().take(1).cloned().collect());
    }
    let mut items: Vec<(CLint, usize)> = vec![];
    let dialect = wd_of(r.below(4)).into();
    for (di, ws) in dicts.iter().enumerate().take(2) {
        let m = merged(&user_dict(ws));
        if let Ok(ls) = guarded(|| LintGroup::new_curated(m.clone(), dialect).lint(&make_doc(&text, md, &m))) {
            for l in ls.into_iter().take(6) {
                for dj in 0..dicts.len() {
                    if dj == di || r.chance(1, 2) {
                        items.push((l.clone(), dj));
                    }
                }
            }
        }
    }
    let len = text.chars().count();
    for _ in 0..r.range(1, 4) {
        let mut l = random_core_lint(r);
        let s = r.below(len + 2);
        l.span = Span { start: s, end: s + r.below(6) };
        if r.chance(1, 2) {
            l.message = "m".into();
            l.suggestions.clear();
        }
        for dj in 0..dicts.len() {
            items.push((l.clone(), dj));
        }
    }
    items.truncate(40);
    dc_case(rep, &text, md, &dicts, &items, "random");
}

// ---------------------------------------------------------------------------------------------
// generators
// ---------------------------------------------------------------------------------------------
const USER_WORDS: &[&str] = &["zorgle", "Zorgle", "ZORGLE", "qwxzv", "Qwxzv", "grault", "Grault", "blorpt", "ünïcödé", "Ünïcödé", "teh", "Teh", "alot", "harperism", "Harperism", "O'Zorgle"];
const DENSE: &[&str] = &[
    "There is an problem in this text. Here is an second one.",
    "Ths  tet has a a lot of of errors, alot really.",
    "I zorgle an problem here.",
    "We zorgle it. We Zorgle it. We ZORGLE it.",
    "He said \"an problem\" loudly and then then left.",
    "my favourite colour is is the the color of teh centre.",
    "I could of done it,but  i did not.Then  i left .",
    "x teh cat. x teh cat.",
    "The 21th item and the 3nd item cost 5$ each, i think.",
    "There is an an problem.",
    "We think that teh first thing we did was was to walk along the long road that leads to the old house near the river where teh children of the village used to play every day before the big storm came and took the bridge away from us all.",
];
const MD: &[&str] = &[
    "# An heading\n\nThere is an `problem` here.\n\n* item teh one\n* [a link](http://x.y) alot\n",
    "Some *emphasised an problem* text.\n\n> quoted teh text\n\n```\ncode teh block\n```\n",
    "There is an `problem` here.",
    "Hello [[wikilink]] teh end.\n\n1. first an item\n2. second  item\n",
    "we waited with `baited breath` today",
];

fn gen_text(r: &mut Rng) -> String {
    match r.below(10) {
        0..=2 => r.s(DENSE).to_string(),
        3 => r.s(MD).to_string(),
        4 => {
            let w = r.s(USER_WORDS);
            let c = r.s(gen::TRIGGERS);
            format!("We {w} {c} today. {}", gen::clean_sentence(r))
        }
        5 => {
            let a = r.s(gen::TRIGGERS);
            let b = r.s(gen::MISSPELT);
            let c = r.s(gen::TRIGGERS);
            format!("{} {a} {b} {c}. {}", gen::capitalize(r.s(gen::COMMON)), gen::sentence(r))
        }
        6 => gen::paragraph(r),
        7 => gen::malformed(r, 40),
        _ => gen::any_text(r),
    }
}

fn gen_config_json(r: &mut Rng, keys: &Keys) -> (String, bool) {
    if r.chance(1, 8) {
        return (r.s(&["{", "{\"AnA\":3}", "[]", "{\"AnA\":\"true\"}", "", "{\"AnA\":true,}"]).to_string(), true);
    }
    let mut m = serde_json::Map::new();
    match r.below(6) {
        0 => {
            // everything on / off
            let v = r.chance(1, 2);
            for k in &keys.names {
                if !UNKNOWN_KEYS.contains(&k.as_str()) {
                    m.insert(k.clone(), json!(v));
                }
            }
        }
        _ => {
            let n = r.range(1, 6);
            for _ in 0..n {
                let k = if r.chance(1, 3) { r.s(&["SpellCheck", "AnA", "RepeatedWords", "SentenceCapitalization", "Spaces", "LongSentences", "Nope", "AAANotARule", "ZzzUnknownRule"]).to_string() } else { r.pick(&keys.names).clone() };
                let v = match r.below(5) {
                    0 => Value::Null,
                    1 | 2 => json!(true),
                    _ => json!(false),
                };
                m.insert(k, v);
            }
        }
    }
    (Value::Object(m).to_string(), false)
}

/// histories aimed at the state the wrapper carries between calls
fn gen_scenario(r: &mut Rng) -> (usize, Vec<Op>) {
    let dialect = r.below(4);
    let w = r.s(&["zorgle", "qwxzv", "grault", "blorpt", "harperism", "ünïcödé"]).to_string();
    let recase = |r: &mut Rng, w: &str| if r.chance(1, 2) { gen::capitalize(w) } else { w.to_uppercase() };
    match r.below(7) {
        4 => {
            // one linter serves plain text and Markdown: the same characters, tokenised differently (inline
            // code / emphasis), must not share cached pattern lints (F11); the second-linter probe compares
            // this linter, with its history, against a new one
            let phrase = r.s(&["baited breath", "an problem", "could of", "alot of", "teh", "the the"]);
            let text = match r.below(3) {
                0 => format!("we waited with `{phrase}` today"),
                1 => format!("We waited with `{phrase}` today. {}", gen::clean_sentence(r)),
                _ => format!("we saw <b>{phrase}</b> and *{phrase}* today"),
            };
            let first_md = r.chance(1, 2);
            let mut ops = vec![Op::Lint { text: text.clone(), md: first_md }, Op::Lint { text: text.clone(), md: !first_md }, Op::WordsRoundtrip];
            if r.chance(1, 2) {
                ops.push(Op::Lint { text, md: first_md });
                ops.push(Op::WordsRoundtrip);
            }
            (dialect, ops)
        }
        5 => {
            // a lint that encloses several others: a run-on sentence (more than 40 words: LongSentences spans
            // it) with two to four misspelt or repeated words inside; ignoring the enclosing lint afterwards
            let n = r.range(42, 56);
            let mut ws: Vec<String> = (0..n).map(|_| r.s(gen::COMMON).to_string()).collect();
            for _ in 0..r.range(2, 4) {
                let i = r.range(3, n - 2);
                ws[i] = if r.chance(1, 4) { format!("{} {}", ws[i], ws[i]) } else { r.s(gen::MISSPELT).to_string() };
            }
            let text = format!("{}. {}", gen::capitalize(&ws.join(" ")), gen::clean_sentence(r));
            let mut ops = vec![];
            if r.chance(2, 3) {
                ops.push(Op::SetConfig { json: all_rules_json(true), bad: false });
            }
            ops.push(Op::Lint { text: text.clone(), md: false });
            ops.push(Op::Ignore { lint: 0, text: None });
            ops.push(Op::Lint { text, md: r.chance(1, 4) });
            (dialect, ops)
        }
        6 => {
            // set, then set again leaving a rule unset (null or absent): it must return to its default;
            // a second linter given get_config must then lint alike
            let rule = r.s(&["SpellCheck", "AnA", "RepeatedWords", "SentenceCapitalization", "Nope"]);
            let text = r.s(DENSE).to_string();
            let first = r.chance(1, 2);
            let second = match r.below(3) {
                0 => format!("{{\"{rule}\":null}}"),
                1 => "{}".to_string(),
                _ => "{\"LongSentences\":true}".to_string(),
            };
            let ops = vec![
                Op::SetConfig { json: format!("{{\"{rule}\":{first}}}"), bad: false },
                Op::Lint { text: text.clone(), md: false },
                Op::SetConfig { json: second, bad: false },
                Op::Lint { text: text.clone(), md: false },
                Op::ImportWords { words: vec![w] },
                Op::GetConfig,
                Op::Lint { text, md: false },
                Op::WordsRoundtrip,
            ];
            (dialect, ops)
        }
        0 => {
            // a word, then another spelling of it, then export/import into a second linter
            let w2 = recase(r, &w);
            let text = format!("We {w} it. We {w2} it. We {} it.", w.to_uppercase());
            let mut ops = vec![Op::ImportWords { words: vec![w.clone()] }, Op::Lint { text: text.clone(), md: false }];
            if r.chance(1, 2) {
                ops.push(Op::Lint { text: gen::sentence(r), md: r.chance(1, 3) });
            }
            ops.push(Op::ImportWords { words: vec![w2] });
            ops.push(Op::ExportWords);
            ops.push(Op::Lint { text, md: false });
            ops.push(Op::WordsRoundtrip);
            if r.chance(1, 2) {
                ops.push(Op::ImportWords { words: vec![r.s(USER_WORDS).to_string()] });
                ops.push(Op::WordsRoundtrip);
            }
            (dialect, ops)
        }
        1 => {
            // ignore a lint next to an unknown word, then teach the linter that word
            let trig = r.s(&["an problem", "a apple", "teh", "the the", "could of"]);
            let text = if r.chance(1, 2) { format!("I {w} {trig} here.") } else { format!("There is {trig} {w} here.") };
            let md = r.chance(1, 4);
            let mut ops = vec![Op::Lint { text: text.clone(), md }];
            for i in 0..r.range(1, 3) {
                ops.push(Op::Ignore { lint: i + r.below(2), text: None });
            }
            ops.push(Op::ImportWords { words: vec![w] });
            ops.push(Op::Lint { text, md });
            (dialect, ops)
        }
        2 => {
            // overlapping lints: everything on, ignore one, round-trip the ignore list
            let text = r.s(DENSE).to_string();
            let mut ops = vec![Op::SetConfig { json: all_rules_json(true), bad: false }, Op::Lint { text: text.clone(), md: false }];
            for _ in 0..r.range(1, 4) {
                ops.push(Op::Ignore { lint: r.below(12), text: None });
            }
            ops.push(Op::IgnoredRoundtrip);
            ops.push(Op::ExportIgnored);
            if r.chance(1, 2) {
                // import must ADD to what is ignored: ignore one more, re-import the older export
                ops.push(Op::Ignore { lint: r.below(12), text: None });
                ops.push(Op::ImportIgnored { which: 0 });
                ops.push(Op::Lint { text: text.clone(), md: false });
            }
            ops.push(Op::ClearIgnored);
            ops.push(Op::Lint { text: text.clone(), md: false });
            ops.push(Op::ImportIgnored { which: 0 });
            ops.push(Op::Lint { text, md: false });
            (dialect, ops)
        }
        _ => {
            // lint, apply every suggestion kind, statistics
            let text = r.s(DENSE).to_string();
            let mut ops = vec![Op::Lint { text, md: false }];
            for _ in 0..r.range(2, 6) {
                ops.push(Op::Apply { lint: r.below(12), sug: r.below(4), text: None });
            }
            ops.push(Op::Stats);
            // the statistics through every export that reads or writes them
            ops.push(Op::Summarize { start_off: None, end_off: None });
            ops.push(Op::Summarize { start_off: Some(r.below(3) as i64 - 1), end_off: if r.chance(1, 2) { None } else { Some(r.below(4) as i64) } });
            ops.push(Op::ImportStats { bad: r.chance(1, 6), variant: r.below(5) });
            if r.chance(1, 2) {
                ops.push(Op::Apply { lint: r.below(12), sug: r.below(4), text: None });
                ops.push(Op::ImportStats { bad: false, variant: r.below(5) });
            }
            ops.push(Op::ImportStats { bad: false, variant: 4 });
            ops.push(Op::Summarize { start_off: Some(r.below(3) as i64), end_off: Some(2 + r.below(4) as i64) });
            ops.push(Op::Summarize { start_off: None, end_off: Some(r.below(3) as i64) });
            ops.push(Op::Descriptions);
            (dialect, ops)
        }
    }
}
fn all_rules_json(v: bool) -> String {
    let cur = harper_wasm::get_default_lint_config_as_json();
    let m: BTreeMap<String, Option<bool>> = serde_json::from_str(&cur).unwrap();
    let m2: BTreeMap<String, Option<bool>> = m.into_keys().map(|k| (k, Some(v))).collect();
    serde_json::to_string(&m2).unwrap()
}

fn gen_history(r: &mut Rng, keys: &Keys) -> (usize, Vec<Op>) {
    if r.chance(1, 5) {
        return gen_scenario(r);
    }
    let dialect = r.below(4);
    let n_texts = r.range(1, 3);
    let texts: Vec<(String, bool)> = (0..n_texts)
        .map(|_| {
            let t = gen_text(r);
            let md = r.chance(1, 3);
            (t, md)
        })
        .collect();
    let n = r.range(4, 14);
    let mut ops = vec![];
    let (t0, m0) = texts[0].clone();
    ops.push(Op::Lint { text: t0, md: m0 });
    for _ in 0..n {
        let k = if r.chance(1, 9) { 99 } else { r.below(100) };
        let op = if k < 26 {
            let (t, md) = r.pick(&texts).clone();
            let md = if r.chance(1, 8) { !md } else { md };
            Op::Lint { text: t, md }
        } else if k < 38 {
            let li = r.below(16);
            let si = r.below(4);
            let text = if r.chance(1, 8) { Some(r.pick(&texts).0.clone()) } else { None };
            Op::Apply { lint: li, sug: si, text }
        } else if k < 41 {
            let t = r.pick(&texts).0.clone();
            let n = t.chars().count();
            let a = r.below(n + 3);
            let b = if r.chance(1, 6) { r.below(n + 3) } else { a + r.below(5) };
            Op::ApplySynth { text: t, start: a, end: b, kind: r.below(3), cs: random_string(r, 3) }
        } else if k < 55 {
            let li = r.below(16);
            let text = if r.chance(1, 10) { Some(r.pick(&texts).0.clone()) } else { None };
            Op::Ignore { lint: li, text }
        } else if k < 58 {
            Op::ExportIgnored
        } else if k < 60 {
            Op::ClearIgnored
        } else if k < 63 {
            Op::ImportIgnored { which: if r.chance(1, 4) { 1 } else { 0 } }
        } else if k < 67 {
            Op::IgnoredRoundtrip
        } else if k < 79 {
            let n = r.range(1, 3);
            let words = (0..n).map(|_| if r.chance(1, 6) { r.s(gen::MISSPELT).to_string() } else { r.s(USER_WORDS).to_string() }).collect();
            Op::ImportWords { words }
        } else if k < 81 {
            Op::ExportWords
        } else if k < 86 {
            Op::WordsRoundtrip
        } else if k < 94 {
            let (j, bad) = gen_config_json(r, keys);
            Op::SetConfig { json: j, bad }
        } else if k < 96 {
            Op::GetConfig
        } else if k < 98 {
            Op::Stats
        } else if r.chance(1, 10) {
            Op::Dialect
        } else {
            match r.below(9) {
                6 => Op::Summarize { start_off: if r.chance(1, 3) { None } else { Some(r.below(4) as i64 - 2) }, end_off: if r.chance(1, 3) { None } else { Some(r.below(5) as i64 - 1) } },
                7 => Op::Descriptions,
                8 => Op::ImportStats { bad: r.chance(1, 5), variant: 1 + r.below(4) },
                0 => Op::TitleCase { text: if r.chance(1, 3) { gen::malformed(r, 20) } else { gen::sentence(r) } },
                1 => Op::LikelyEnglish { text: if r.chance(1, 3) { format!("{} {} {}", r.s(USER_WORDS), r.s(USER_WORDS), r.s(USER_WORDS)) } else { gen_text(r) } },
                2 => Op::IsolateEnglish { text: format!("{} Der schnelle braune Fuchs springt. {} {}", gen::sentence(r), r.s(USER_WORDS), gen::clean_sentence(r)) },
                3 => Op::DefaultConfig,
                _ => Op::ImportStats { bad: r.chance(1, 4), variant: 0 },
            }
        };
        ops.push(op);
    }
    (dialect, ops)
}

fn replay_input(rep: &mut Report, keys: &Keys, intern: &mut Intern, v: &Value) {
    match v["kind"].as_str() {
        Some("history") => {
            let ops: Vec<Op> = v["ops"].as_array().map(|a| a.iter().filter_map(op_of).collect()).unwrap_or_default();
            run_history(rep, keys, intern, v["dialect"].as_u64().unwrap_or(0) as usize, &ops, v["origin"].as_str().unwrap_or("replay"), true);
        }
        Some("dc") => {
            let dicts: Vec<Vec<String>> = serde_json::from_value(v["dicts"].clone()).unwrap_or_default();
            let items: Vec<(CLint, usize)> = v["items"].as_array().map(|a| a.iter().filter_map(|it| Some((serde_json::from_value::<CLint>(it["lint"].clone()).ok()?, it["dict"].as_u64()? as usize))).filter(|(_, d)| *d < dicts.len()).collect()).unwrap_or_default();
            dc_case(rep, v["text"].as_str().unwrap_or(""), v["md"].as_bool().unwrap_or(false), &dicts, &items, "replay");
        }
        Some("json") => {
            if let Ok(inner) = serde_json::from_value::<CLint>(v["lint"].clone()) {
                check_json_lint(rep, &inner, v["problem_text"].as_str().unwrap_or(""), v["md"].as_bool().unwrap_or(false), "replay");
            }
        }
        _ => {}
    }
}

fn main() {
    let (args, corpus) = hv::cli();
    let mut rep = Report::new(&args.out);
    rep.rule = "call histories on harper_wasm::Linter (4-14 calls after a first lint; lint / apply_suggestion (own, drifted text, synthetic out-of-range lints) / ignore_lint / export, clear, import of the ignore list (also truncated JSON) / import_words (new, re-cased, repeated) / export_words / second-linter round trip / set_lint_config_from_json (valid, null values, unknown rules, all on, all off, malformed) / get config / statistics / dialect / to_title_case / is_likely_english / isolate_english / get_default_lint_config_as_json / import_stats_file of the own statistics file, whole and broken), both languages, all four dialects, texts: dense trigger sentences, Markdown constructs, user-word sentences, generated documents, malformed stream; plus DC cases (a text, 2-3 user dictionaries, real and synthetic lints: the Document and the ignore context under each dictionary); plus synthetic Lint/Span/Suggestion/ignore-list values for the JSON printers and parsers (escapes, astral characters, spans with start > end, every kind). non-trivial = distinct (text, language, returned lints) with >= 1 lint, or JSON values needing escapes".into();
    let keys = Keys::new();
    let mut intern = Intern::default();
    rep.case(&format!("K {}", keys.curated), "ok");
    {
        // the rule descriptions (a constant of the rule set): handed to the model once, like the curated configuration
        let items: Vec<&str> = keys.descriptions.split(' ').filter(|x| !x.is_empty()).collect();
        let mut l = format!("KD {}", items.len());
        for it in &items {
            let (a, b) = it.split_once(':').unwrap_or(("0", "0"));
            l.push_str(&format!(" {a} {b}"));
        }
        rep.case(&l, "ok");
        // every rule of the curated configuration has a description and vice versa
        let cfg: BTreeMap<String, Option<bool>> = serde_json::from_str(&harper_wasm::get_default_lint_config_as_json()).unwrap_or_default();
        let ds: BTreeMap<String, String> = serde_json::from_str(&WL::new(WD::American).get_lint_descriptions_as_json()).unwrap_or_default();
        if cfg.keys().collect::<Vec<_>>() != ds.keys().collect::<Vec<_>>() {
            rep.fail("descriptions_keys", "the rules with a description are not the rules of the default configuration".into(), json!({"kind": "history", "dialect": 0, "ops": [{"op": "descriptions"}], "origin": "setup"}));
        }
    }
    rep.extra.insert("config_keys".into(), json!(keys.names.len()));
    // the exports of harper-wasm against the model (the names are pinned against the export list generated from
    // harper-wasm/src/lib.rs by theorem C16_api_coverage, see coq/Proofs/C16Surface.v api_classification)
    rep.extra.insert(
        "wasm_exports_outside_the_model".into(),
        json!({
            "setup": "installs the panic hook and the tracing subscriber of the JavaScript console; no linter state, no result",
        }),
    );
    let js = "takes or returns a JsValue: aborts outside a JavaScript host, cannot be run natively. Modelled in Model/C16Stats.v as the value its _json twin serialises / the steps of its twin (C16_api_twins); its body is pinned by C16_api_bodies";
    rep.extra.insert(
        "wasm_exports_modelled_but_not_executed".into(),
        json!({
            "Linter::summarize_stats": "returns a JsValue. Modelled (C16_summarize_stats: the two retain passes + Stats::summarize over C19's Record); tied by running its body, pinned by C16_api_bodies, on the records of generate_stats_file with harper_stats (SUM lines)",
            "Linter::get_lint_descriptions_as_object": js,
            "Linter::get_lint_config_as_object": js,
            "Linter::set_lint_config_from_object": js,
            "get_default_lint_config": js,
        }),
    );
    for c in &corpus {
        replay_input(&mut rep, &keys, &mut intern, c);
    }
    if args.replay.is_some() {
        rep.finish();
        return;
    }
    let mut r = Rng::new(args.seed);
    for i in 0..args.scale(260, 4000) {
        let (d, ops) = gen_history(&mut r, &keys);
        run_history(&mut rep, &keys, &mut intern, d, &ops, "random", i % 3 == 0);
    }
    for _ in 0..args.scale(500, 12000) {
        gen_dc(&mut rep, &mut r);
    }
    for _ in 0..args.scale(600, 20000) {
        let l = random_core_lint(&mut r);
        let pt = random_string(&mut r, 6);
        let md = r.chance(1, 2);
        check_json_lint(&mut rep, &l, &pt, md, "random");
    }
    if args.thorough() {
        // exhaustive: every message / problem text / replacement of length <= 2 over the escape-relevant alphabet
        let mut n = 0u64;
        let mut strs: Vec<String> = vec![String::new()];
        for a in NASTY {
            strs.push(a.to_string());
            for b in NASTY {
                strs.push(format!("{a}{b}"));
            }
        }
        for (i, st) in strs.iter().enumerate() {
            let kinds = [LintKind::Spelling, LintKind::Capitalization, LintKind::Style, LintKind::Formatting, LintKind::Repetition, LintKind::Enhancement, LintKind::Readability, LintKind::WordChoice, LintKind::Miscellaneous, LintKind::Punctuation];
            let cs: Vec<char> = st.chars().collect();
            let l = CLint {
                span: Span { start: i % 7, end: i % 7 + i % 3 },
                lint_kind: kinds[i % 10],
                suggestions: vec![CSug::ReplaceWith(cs.clone()), CSug::InsertAfter(cs.clone()), CSug::Remove],
                message: st.clone(),
                priority: (i % 256) as u8,
            };
            check_json_lint(&mut rep, &l, st, i % 2 == 0, "exhaustive");
            n += 1;
        }
        rep.extra.insert("exhaustive_json_strings_le2_over_escape_alphabet".into(), json!(n));
        // exhaustive: every history of <= 3 calls over a fixed call alphabet, after a first lint, on one dense text
        let t = "I zorgle an problem here, a a lot of teh the the time.".to_string();
        let alphabet: Vec<Op> = vec![
            Op::Lint { text: t.clone(), md: false },
            Op::Lint { text: t.clone(), md: true },
            Op::Ignore { lint: 0, text: None },
            Op::Ignore { lint: 2, text: None },
            Op::Apply { lint: 1, sug: 0, text: None },
            Op::ImportWords { words: vec!["zorgle".into()] },
            Op::ImportWords { words: vec!["Zorgle".into()] },
            Op::IgnoredRoundtrip,
            Op::ClearIgnored,
            Op::WordsRoundtrip,
            Op::SetConfig { json: "{\"AnA\":false,\"SpellCheck\":null}".into(), bad: false },
            Op::SetConfig { json: all_rules_json(true), bad: false },
        ];
        let mut hcount = 0u64;
        for len in 1..=3usize {
            let mut idx = vec![0usize; len];
            loop {
                let mut ops = vec![Op::Lint { text: t.clone(), md: false }];
                ops.extend(idx.iter().map(|i| alphabet[*i].clone()));
                ops.push(Op::Lint { text: t.clone(), md: false });
                run_history(&mut rep, &keys, &mut intern, hcount as usize % 4, &ops, "exhaustive", false);
                hcount += 1;
                let mut k = 0;
                while k < len {
                    idx[k] += 1;
                    if idx[k] < alphabet.len() {
                        break;
                    }
                    idx[k] = 0;
                    k += 1;
                }
                if k == len {
                    break;
                }
            }
        }
        rep.extra.insert("exhaustive_histories_le3_over_12_calls".into(), json!(hcount));
    }
    for _ in 0..args.scale(100, 2000) {
        let n = r.below(5);
        let hs: Vec<u64> = (0..n).map(|_| if r.chance(1, 4) { *r.pick(&[0u64, 1, 9, 10, u64::MAX, u64::MAX - 1, 1 << 63, 18446744073709551615]) } else { r.next() }).collect();
        check_json_hashes(&mut rep, &hs);
    }
    rep.finish();
}
