//! C13 — remove_overlaps: correspondence with Model/Overlap.v + the property oracle on the implementation.
use hv::common::*;
use hv::gen;
use harper_core::linting::{Lint, LintGroup, Linter};
use harper_core::{remove_overlaps, Dialect, Document, FstDictionary, Span};
use harper_core::linting::{CompoundNouns, CurrencyPlacement, HopHope, LetsConfusion, PronounContraction, Suggestion};
use harper_core::parsers::{Markdown, PlainEnglish};
use harper_core::{IgnoredLints, MergedDictionary, MutableDictionary, TokenKind, TokenStringExt};
use harper_wasm::{Dialect as WD, Language, Lint as WLint, Linter as WL};
use serde_json::{json, Value};
use std::sync::Arc;

fn mk(spans: &[(usize, usize)]) -> Vec<Lint> {
    spans
        .iter()
        .enumerate()
        .map(|(i, (s, e))| Lint { span: Span { start: *s, end: *e }, message: i.to_string(), ..Default::default() })
        .collect()
}

/// Runs one case on the implementation, records the correspondence line and evaluates the oracle.
pub fn check_spans(rep: &mut Report, spans: &[(usize, usize)], origin: &str, wellformed: bool) {
    check_lints(rep, spans, None, origin, wellformed)
}

/// `labels` = None: every lint carries its position as message (all lints distinct; R line, kept ids).
/// `labels` = Some: the message is the label, so lints with equal span and label are EXACTLY equal (equal in every
/// field) — D line, kept (start, end, label) triples; ids for the oracle = first unused equal input lint.
pub fn check_lints(rep: &mut Report, spans: &[(usize, usize)], labels: Option<&[usize]>, origin: &str, wellformed: bool) {
    rep.eval();
    let input: Vec<Lint> = match labels {
        None => mk(spans),
        Some(ls) => spans.iter().zip(ls).map(|((s, e), l)| Lint { span: Span { start: *s, end: *e }, message: format!("L{l}"), ..Default::default() }).collect(),
    };
    let (case_line, inp_json) = match labels {
        None => (
            format!("R {}", spans.iter().map(|(s, e)| format!("{s} {e}")).collect::<Vec<_>>().join(" ")),
            json!({"kind": "spans", "spans": spans.iter().map(|(s,e)| vec![*s,*e]).collect::<Vec<_>>(), "origin": origin}),
        ),
        Some(ls) => (
            format!("D {}", spans.iter().zip(ls).map(|((s, e), l)| format!("{s} {e} {l}")).collect::<Vec<_>>().join(" ")).trim_end().to_string(),
            json!({"kind": "dup", "spans": spans.iter().map(|(s,e)| vec![*s,*e]).collect::<Vec<_>>(), "labels": ls, "origin": origin}),
        ),
    };
    let out = guarded(|| {
        let mut v = input.clone();
        remove_overlaps(&mut v);
        v
    });
    let out = match out {
        Ok(v) => v,
        Err(m) => {
            rep.case(&case_line, "PANIC");
            rep.fail("panic", format!("remove_overlaps panicked: {m}"), inp_json);
            return;
        }
    };
    let ids: Vec<usize> = match labels {
        None => out.iter().map(|l| l.message.parse::<usize>().unwrap_or(usize::MAX)).collect(),
        Some(_) => {
            let mut taken = vec![false; input.len()];
            out.iter()
                .map(|l| match (0..input.len()).find(|i| !taken[*i] && input[*i] == *l) {
                    Some(i) => {
                        taken[i] = true;
                        i
                    }
                    None => usize::MAX,
                })
                .collect()
        }
    };
    match labels {
        None => rep.case(&case_line, ids.iter().map(|i| i.to_string()).collect::<Vec<_>>().join(" ").trim()),
        Some(_) => rep.case(&case_line, out.iter().map(|l| format!("{} {} {}", l.span.start, l.span.end, l.message.trim_start_matches('L'))).collect::<Vec<_>>().join(" ").trim()),
    }
    if !wellformed {
        rep.count("malformed_stream");
        return; // outside the property's domain: must not panic, must agree with the model, nothing else
    }
    // ---- property oracle on the implementation's output ----
    // (1) sub-list: every kept lint is an input lint, unaltered, each input used at most once
    let mut used = vec![false; input.len()];
    for (l, id) in out.iter().zip(&ids) {
        if *id >= input.len() || used[*id] || *l != input[*id] {
            rep.fail("not_sublist", format!("kept lint {id} is not an unaltered, once-used input lint"), inp_json.clone());
            return;
        }
        used[*id] = true;
    }
    // (2) no two kept lints cover a common character
    for i in 0..out.len() {
        for j in (i + 1)..out.len() {
            let (a, b) = (out[i].span, out[j].span);
            if a.start.max(b.start) < a.end.min(b.end) {
                rep.fail("kept_overlap", format!("kept lints {:?} and {:?} share a character", a, b), inp_json.clone());
                return;
            }
        }
    }
    // (3) every dropped lint starts inside (or at the start of) a kept one
    for (i, l) in input.iter().enumerate() {
        if !used[i] {
            let ok = out.iter().any(|k| k.span.start <= l.span.start && l.span.start < k.span.end);
            if !ok {
                rep.fail("dropped_outside", format!("dropped lint {i} {:?} does not start inside a kept lint", l.span), inp_json.clone());
                return;
            }
        }
    }
    // (3') maximality (C13_maximal_iff): a dropped lint that covers a character shares one with a kept lint
    for (i, l) in input.iter().enumerate() {
        if !used[i] && l.span.start < l.span.end {
            let ok = out.iter().any(|k| k.span.start.max(l.span.start) < k.span.end.min(l.span.end));
            if !ok {
                rep.fail("dropped_without_conflict", format!("dropped lint {i} {:?} shares no character with any kept lint: the kept set is not maximal", l.span), inp_json.clone());
                return;
            }
        }
    }
    // (4) back to front: applying one edit per kept lint, last first, equals the simultaneous splice
    let n = spans.iter().map(|(_, e)| *e).max().unwrap_or(0);
    let src: Vec<char> = (0..n).map(|i| char::from_u32(0x61 + (i % 26) as u32).unwrap()).collect();
    let mut sorted = out.clone();
    sorted.sort_by_key(|l| l.span.start);
    let mut b2f = src.clone();
    let r = guarded(|| {
        for l in sorted.iter().rev() {
            harper_core::linting::Suggestion::ReplaceWith(vec!['<', '>']).apply(l.span, &mut b2f);
        }
        b2f
    });
    let mut sim: Vec<char> = vec![];
    let mut pos = 0;
    for l in &sorted {
        if pos > l.span.start {
            rep.fail("back_to_front", format!("kept lint {:?} starts before the end ({pos}) of the previous kept lint: the edits interfere", l.span), inp_json.clone());
            return;
        }
        sim.extend(&src[pos..l.span.start]);
        sim.extend(['<', '>']);
        pos = l.span.end;
    }
    sim.extend(&src[pos..]);
    match r {
        Ok(t) if t == sim => {}
        Ok(_) => rep.fail("back_to_front", "back-to-front application differs from the simultaneous splice".into(), inp_json.clone()),
        Err(m) => rep.fail("back_to_front", format!("back-to-front application panicked: {m}"), inp_json.clone()),
    }
    // distribution / non-triviality
    let dropped = input.len() - out.len();
    if spans.len() >= 2 && dropped > 0 {
        rep.nontrivial(&spans.to_vec());
    }
    rep.count(&format!("n_spans:{}", bucket(spans.len())));
    rep.count(&format!("dropped:{}", bucket(dropped)));
    if spans.iter().any(|(s, e)| s == e) {
        rep.count("has_zero_width");
    }
    if let Some(ls) = labels {
        let mut m = 1usize;
        let mut zw_dup = false;
        for i in 0..spans.len() {
            let c = (0..spans.len()).filter(|j| spans[*j] == spans[i] && ls[*j] == ls[i]).count();
            m = m.max(c);
            zw_dup |= c > 1 && spans[i].0 == spans[i].1;
        }
        rep.count(&format!("dup:max_multiplicity:{}", m.min(4)));
        if zw_dup {
            rep.count("dup:zero_width_repeated");
        }
        if m > 1 && dropped > m - 1 {
            rep.count("dup:repeat_plus_other_drops");
        }
    }
    if rep.samples.len() < 6 && dropped > 0 {
        rep.sample(json!({"spans": spans.iter().map(|(s,e)| vec![*s,*e]).collect::<Vec<_>>(), "kept_ids": ids, "origin": origin}));
    }
}

fn bucket(n: usize) -> &'static str {
    match n {
        0 => "0",
        1 => "1",
        2..=3 => "2-3",
        4..=7 => "4-7",
        8..=15 => "8-15",
        _ => "16+",
    }
}

fn random_spans(r: &mut Rng) -> Vec<(usize, usize)> {
    let n = if r.chance(1, 10) { r.below(3) } else { r.below(41) };
    let range = *r.pick(&[4usize, 8, 12, 30, 200]);
    (0..n)
        .map(|_| {
            let a = r.below(range + 1);
            let b = r.below(range + 1);
            let (a, b) = (a.min(b), a.max(b));
            if r.chance(1, 12) { (a, a) } else { (a, b) }
        })
        .collect()
}


// ======================= phase 3: the callers of remove_overlaps =======================

fn cps(t: &[char]) -> String {
    t.iter().map(|c| (*c as u32).to_string()).collect::<Vec<_>>().join(" ")
}
fn sug_code(s: &Suggestion) -> (usize, Vec<char>) {
    match s {
        Suggestion::ReplaceWith(c) => (0, c.clone()),
        Suggestion::InsertAfter(c) => (1, c.clone()),
        Suggestion::Remove => (2, vec![]),
    }
}
fn winner(l: &WLint) -> Lint {
    let v: Value = serde_json::from_str(&l.to_json()).unwrap_or(Value::Null);
    serde_json::from_value(v["inner"].clone()).unwrap_or_default()
}

pub struct WasmCtx {
    dict: Arc<MergedDictionary>,
    group: LintGroup,
    wl: WL,
}
impl WasmCtx {
    pub fn new() -> Self {
        // the dictionary harper_wasm::Linter::new builds: curated + an empty user dictionary
        let mut d = MergedDictionary::new();
        d.add_dictionary(FstDictionary::curated());
        d.add_dictionary(Arc::new(MutableDictionary::default()));
        let dict = Arc::new(d);
        let group = LintGroup::new_curated(dict.clone(), Dialect::American);
        WasmCtx { dict, group, wl: WL::new(WD::American) }
    }
}

/// One text through the real harper_wasm::Linter: lint, ignore some of the reported lints, lint again,
/// then fix everything that is reported through Linter::apply_suggestion, last reported lint first.
/// Correspondence: W lines (reported ids) and F lines (final text) against Model/C13Callers.v, whose
/// input is the RAW lint list (harper_core LintGroup with the same dictionary, dialect and curated config).
pub fn check_wasm(rep: &mut Report, cx: &mut WasmCtx, text: &str, markdown: bool, ignore_picks: &[usize], origin: &str) {
    rep.eval();
    let inp = json!({"kind": "wasm", "text": text, "markdown": markdown, "ignore": ignore_picks, "origin": origin});
    let lang = if markdown { Language::Markdown } else { Language::Plain };
    let src: Vec<char> = text.chars().collect();
    let r = guarded(|| {
        let doc = if markdown {
            Document::new_from_vec(Arc::new(src.clone()).into(), &Markdown::default(), &cx.dict)
        } else {
            Document::new_from_vec(Arc::new(src.clone()).into(), &PlainEnglish, &cx.dict)
        };
        let raw = cx.group.lint(&doc);
        cx.wl.clear_ignored_lints();
        let out1 = cx.wl.lint(text.to_string(), lang);
        let mut own = IgnoredLints::new();
        let mut picked = 0;
        for p in ignore_picks {
            if out1.is_empty() {
                break;
            }
            let l = &out1[p % out1.len()];
            own.ignore_lint(&winner(l), &doc);
            cx.wl.ignore_lint(text.to_string(), WLint::from_json(l.to_json()).unwrap());
            picked += 1;
        }
        let out2 = cx.wl.lint(text.to_string(), lang);
        let mask: Vec<bool> = raw.iter().map(|l| own.is_ignored(l, &doc)).collect();
        // fix everything reported by the second lint, last first, through the API
        let mut cur = text.to_string();
        for l in out2.iter().rev() {
            let sugs = l.suggestions();
            if let Some(s0) = sugs.first() {
                cur = cx.wl.apply_suggestion(cur, l, s0).unwrap_or_else(|e| format!("ERR {e}"));
            }
        }
        cx.wl.clear_ignored_lints();
        (raw, out1, out2, mask, picked, cur)
    });
    let (raw, out1, out2, mask, picked, fixed) = match r {
        Ok(x) => x,
        Err(m) => {
            rep.count("wasm_panicked(C16's business unless the model disagrees)");
            let _ = m;
            return;
        }
    };
    let ids_of = |out: &Vec<WLint>| -> Option<Vec<usize>> {
        let mut used = vec![false; raw.len()];
        let mut ids = vec![];
        for l in out {
            let inner = winner(l);
            let i = (0..raw.len()).find(|i| !used[*i] && raw[*i] == inner)?;
            used[i] = true;
            ids.push(i);
        }
        Some(ids)
    };
    let line = |ids: &Vec<usize>| ids.iter().map(|i| i.to_string()).collect::<Vec<_>>().join(" ");
    let items = |m: &dyn Fn(usize) -> bool| raw.iter().enumerate().map(|(i, l)| format!("{} {} {}", l.span.start, l.span.end, m(i) as u8)).collect::<Vec<_>>().join(" ");
    let (Some(ids1), Some(ids2)) = (ids_of(&out1), ids_of(&out2)) else {
        rep.fail("wasm_not_sublist", "Linter::lint reports a lint that is not one of the rules' lints (unaltered, used once)".into(), inp);
        return;
    };
    rep.case(&format!("W 1 {}", items(&|_| false)).trim_end().to_string(), line(&ids1).trim());
    rep.case(&format!("W {} {}", (picked == 0) as u8, items(&|i| mask[i])).trim_end().to_string(), line(&ids2).trim());
    // F: raw items with the first suggestion of each lint (a lint without suggestions: InsertAfter "" = no edit)
    let fitems = raw
        .iter()
        .enumerate()
        .map(|(i, l)| {
            let (k, cs) = l.suggestions.first().map(sug_code).unwrap_or((1, vec![]));
            format!("{} {} {} {} {}", l.span.start, l.span.end, mask[i] as u8, k, cps(&cs)).trim_end().to_string()
        })
        .collect::<Vec<_>>()
        .join(" | ");
    let fixed_chars: Vec<char> = fixed.chars().collect();
    let impl_line = if fixed.starts_with("ERR ") { "P".to_string() } else { format!("O {}", cps(&fixed_chars)).trim_end().to_string() };
    rep.case(&format!("F {} | {} | {}", (picked == 0) as u8, cps(&src), fitems), &impl_line);
    // ---- oracle on what the JS API reports ----
    let sp: Vec<Span> = out2.iter().map(|l| winner(l).span).collect();
    for i in 0..sp.len() {
        for j in (i + 1)..sp.len() {
            if sp[i].start.max(sp[j].start) < sp[i].end.min(sp[j].end) {
                rep.fail("wasm_reported_overlap", format!("Linter::lint reports {:?} and {:?}, which share a character", sp[i], sp[j]), inp.clone());
                return;
            }
            if sp[j].start < sp[i].start {
                rep.fail("wasm_reported_unsorted", format!("Linter::lint reports {:?} before {:?}: list order is not text order, last-to-first fixing interferes", sp[i], sp[j]), inp.clone());
                return;
            }
        }
    }
    for (i, m) in mask.iter().enumerate() {
        if *m && ids2.contains(&i) {
            rep.fail("wasm_reports_ignored", format!("raw lint {i} is ignored and still reported"), inp.clone());
            return;
        }
    }
    // fix-all through the API == independent simultaneous splice
    let mut sim: Vec<char> = vec![];
    let mut pos = 0usize;
    let mut ok = true;
    for l in &out2 {
        let inner = winner(l);
        if pos > inner.span.start || inner.span.end > src.len() {
            ok = false;
            break;
        }
        sim.extend(&src[pos..inner.span.start]);
        let flagged = &src[inner.span.start..inner.span.end];
        match inner.suggestions.first() {
            Some(Suggestion::ReplaceWith(c)) => sim.extend(c),
            Some(Suggestion::InsertAfter(c)) => {
                sim.extend(flagged);
                sim.extend(c)
            }
            Some(Suggestion::Remove) => {}
            None => sim.extend(flagged),
        }
        pos = inner.span.end;
    }
    if ok {
        sim.extend(&src[pos..]);
    }
    if !ok || sim != fixed_chars {
        rep.fail("wasm_fix_all", "applying one suggestion per reported lint (Linter::apply_suggestion, last first) is not the simultaneous splice".into(), inp.clone());
        return;
    }
    let dropped = raw.len() - ids1.len();
    rep.count(&format!("wasm:raw:{}", bucket(raw.len())));
    rep.count(&format!("wasm:dropped_by_overlap:{}", bucket(dropped)));
    rep.count(&format!("wasm:hidden_by_ignore:{}", bucket(ids1.len() - ids2.len().min(ids1.len()))));
    if dropped > 0 || ids2.len() < ids1.len() {
        rep.nontrivial(&(text.to_string(), ignore_picks.to_vec(), markdown));
    }
}

fn kind_code(k: &TokenKind) -> usize {
    if k.is_number() {
        0
    } else if k.is_currency() {
        1
    } else if k.is_punctuation() {
        2
    } else if k.is_whitespace() {
        3
    } else {
        4
    }
}

/// CurrencyPlacement::lint on a text against Model/C13Callers.currency_lint (candidate generation per
/// chunk + remove_overlaps).  The model's `wrong` predicate (correct != actual) is computed here for every
/// (currency, number) pair of tokens at distance <= 2 with Currency::format_amount.
pub fn check_currency(rep: &mut Report, dict: &Arc<FstDictionary>, text: &str, origin: &str) {
    rep.eval();
    let inp = json!({"kind": "currency", "text": text, "origin": origin});
    let Ok(doc) = guarded(|| Document::new_plain_english(text, dict)) else {
        rep.count("currency:doc_panicked");
        return;
    };
    let mut wrongs: Vec<(usize, usize)> = vec![];
    let mut chunks: Vec<String> = vec![];
    for chunk in doc.iter_chunks() {
        chunks.push(chunk.iter().map(|t| format!("{} {} {}", kind_code(&t.kind), t.span.start, t.span.end)).collect::<Vec<_>>().join(" "));
        for i in 0..chunk.len() {
            for j in (i + 1)..chunk.len().min(i + 3) {
                let (a, b) = (&chunk[i], &chunk[j]);
                let cur = if a.kind.is_currency() { &a.kind } else { &b.kind };
                let num = if a.kind.is_number() { &a.kind } else { &b.kind };
                let (Some(c), Some(n)) = (cur.as_punctuation().and_then(|p| p.as_currency()), num.as_number()) else { continue };
                if a.span.start > b.span.end || b.span.end > doc.get_source().len() {
                    continue;
                }
                let correct: Vec<char> = c.format_amount(n).chars().collect();
                if correct != doc.get_source()[a.span.start..b.span.end] {
                    wrongs.push((a.span.start, b.span.end));
                }
            }
        }
    }
    let case_line = format!(
        "C {} | {}",
        wrongs.iter().map(|(s, e)| format!("{s} {e}")).collect::<Vec<_>>().join(" "),
        chunks.join(" | ")
    );
    let out = guarded(|| CurrencyPlacement::default().lint(&doc));
    let out = match out {
        Ok(o) => o,
        Err(m) => {
            rep.case(&case_line, "P");
            rep.fail("currency_panic", format!("CurrencyPlacement::lint panicked: {m}"), inp);
            return;
        }
    };
    let spans: Vec<(usize, usize)> = out.iter().map(|l| (l.span.start, l.span.end)).collect();
    rep.case(&case_line, spans.iter().map(|(s, e)| format!("{s} {e}")).collect::<Vec<_>>().join(" ").trim());
    check_caller_output(rep, &spans, "CurrencyPlacement", &inp);
    rep.count(&format!("currency:lints:{}", bucket(spans.len())));
    rep.count(&format!("currency:wrong_pairs:{}", bucket(wrongs.len())));
    if wrongs.len() > spans.len() {
        rep.count("currency:candidates_dropped_or_not_generated");
        rep.nontrivial(&text.to_string());
    }
}

/// The output of a caller that ends in remove_overlaps: pairwise disjoint and a FIXPOINT of the model's
/// remove_overlaps (C13_idempotent) — the R line must keep every id, in order.
fn check_caller_output(rep: &mut Report, spans: &[(usize, usize)], who: &str, inp: &Value) {
    let mut v = mk(spans);
    let before = v.clone();
    let r = guarded(|| {
        remove_overlaps(&mut v);
        v
    });
    let case_line = format!("R {}", spans.iter().map(|(s, e)| format!("{s} {e}")).collect::<Vec<_>>().join(" "));
    rep.case(&case_line, (0..spans.len()).map(|i| i.to_string()).collect::<Vec<_>>().join(" ").trim());
    match r {
        Ok(v) if v == before => {}
        _ => rep.fail("caller_not_fixpoint", format!("the lints {who} returns are not left alone by remove_overlaps: it did not apply it (or applied something else)"), inp.clone()),
    }
    for i in 0..spans.len() {
        for j in (i + 1)..spans.len() {
            let (a, b) = (spans[i], spans[j]);
            if a.0.max(b.0) < a.1.min(b.1) {
                rep.fail("caller_overlap", format!("{who} returns {:?} and {:?}, which share a character", a, b), inp.clone());
                return;
            }
        }
    }
}

pub fn check_merged(rep: &mut Report, dict: &Arc<FstDictionary>, text: &str, origin: &str) {
    rep.eval();
    let inp = json!({"kind": "merged", "text": text, "origin": origin});
    let Ok(doc) = guarded(|| Document::new_plain_english(text, dict)) else { return };
    let mut linters: Vec<(&str, Box<dyn Linter>)> = vec![
        ("HopHope", Box::new(HopHope::default())),
        ("PronounContraction", Box::new(PronounContraction::default())),
        ("CompoundNouns", Box::new(CompoundNouns::default())),
        ("LetsConfusion", Box::new(LetsConfusion::default())),
    ];
    for (name, l) in linters.iter_mut() {
        let Ok(out) = guarded(|| l.lint(&doc)) else {
            rep.count("merged:lint_panicked(C01's business)");
            continue;
        };
        let spans: Vec<(usize, usize)> = out.iter().map(|l| (l.span.start, l.span.end)).collect();
        check_caller_output(rep, &spans, name, &inp);
        rep.count(&format!("merged:{name}:{}", bucket(spans.len())));
    }
}

const MONEY: &[&str] = &["5", "$", " ", "€", "10", "3.50", " ", "¢", "£", "1,000", "and", "cost", ".", ",", " ", "¥", "2", "about", "$", " "];
fn money_text(r: &mut Rng) -> String {
    let n = 1 + r.below(14);
    let mut s = String::new();
    for _ in 0..n {
        s.push_str(r.s(MONEY));
        if r.chance(1, 5) {
            s.push(' ');
        }
    }
    s
}
const MERGE_TRIGGERS: &[&str] = &[
    "I hop to see you soon.", "We hope on the bus.", "Your the best.", "Lets go home.", "Let's us try.", "Lets us go.",
    "The wind shield broke.", "A back pack is on the bed room floor.", "Its a note book.", "You are here and your here.",
    "I hop you hop on a plane.", "Were going to the air port.", "Let us let's go.", "She said your welcome.",
];
const WASM_TRIGGERS: &[&str] = &[
    "Ths  tet is an test.", "There is an an apple  here.", "I have 5 $ and 10$ .", "the the cat sat.Then it left",
    "This is a a test of the the emergency system.", "Their going to there house over they're.", "An unicorn ate a apple , quickly .",
    "i think its a alot of work ; really", "He hop to to see you  soon", "In in the the end end , it it was was fine fine .",
];

// ======================= phase 4: harper-cli as a binary; merge_linters! instantiated =======================

// `crate::linting::{Lint, Linter}`, `crate::{Document, remove_overlaps}` and `paste` are what the macro body names
mod linting {
    pub use harper_core::linting::{Lint, Linter};
}
#[path = "/repo/harper-core/src/linting/merge_linters.rs"]
#[allow(unused_macros, unused_imports)]
mod merge_linters_src;

thread_local! {
    static PLAN: std::cell::RefCell<Vec<Vec<Lint>>> = std::cell::RefCell::new(vec![]);
}
macro_rules! test_linter {
    ($n:ident, $i:expr) => {
        #[derive(Default)]
        pub struct $n;
        impl Linter for $n {
            fn lint(&mut self, _d: &Document) -> Vec<Lint> {
                PLAN.with(|p| p.borrow().get($i).cloned().unwrap_or_default())
            }
            fn description(&self) -> &str {
                "test sub-linter"
            }
        }
    };
}
test_linter!(TestSubA, 0);
test_linter!(TestSubB, 1);
test_linter!(TestSubC, 2);
mod merged_two {
    use super::merge_linters_src::merge_linters;
    use super::{TestSubA, TestSubB};
    merge_linters!(MergedTwo => TestSubA, TestSubB => "two test sub-linters through the real merge_linters!");
}
mod merged_three {
    use super::merge_linters_src::merge_linters;
    use super::{TestSubA, TestSubB, TestSubC};
    merge_linters!(MergedThree => TestSubA, TestSubB, TestSubC => "three test sub-linters through the real merge_linters!");
}

/// The real macro body (expanded in this crate from /repo's merge_linters.rs) on planned sub-linter outputs:
/// M line = kept ids against Model/C13Callers.merge_lint; oracle: disjoint, members come from a sub-linter.
pub fn check_merge_macro(rep: &mut Report, dict: &Arc<FstDictionary>, subs: &[Vec<(usize, usize)>], origin: &str) {
    rep.eval();
    let doc = &Document::new_plain_english("merge", dict);
    let inp = json!({"kind": "mergemacro", "subs": subs.iter().map(|s| s.iter().map(|(a, b)| vec![*a, *b]).collect::<Vec<_>>()).collect::<Vec<_>>(), "origin": origin});
    let mut next = 0usize;
    let plan: Vec<Vec<Lint>> = subs
        .iter()
        .map(|s| {
            s.iter()
                .map(|(a, b)| {
                    let l = Lint { span: Span { start: *a, end: *b }, message: next.to_string(), ..Default::default() };
                    next += 1;
                    l
                })
                .collect()
        })
        .collect();
    let all: Vec<(usize, usize)> = subs.iter().flatten().copied().collect();
    PLAN.with(|p| *p.borrow_mut() = plan);
    let out = guarded(|| if subs.len() == 2 { merged_two::MergedTwo::default().lint(doc) } else { merged_three::MergedThree::default().lint(doc) });
    let case_line = format!("M {}", subs.iter().map(|s| s.iter().map(|(a, b)| format!("{a} {b}")).collect::<Vec<_>>().join(" ")).collect::<Vec<_>>().join(" | "));
    let out = match out {
        Ok(o) => o,
        Err(m) => {
            rep.case(&case_line, "PANIC");
            rep.fail("merge_macro_panic", format!("merge_linters! linter panicked: {m}"), inp);
            return;
        }
    };
    let ids: Vec<usize> = out.iter().map(|l| l.message.parse::<usize>().unwrap_or(usize::MAX)).collect();
    rep.case(case_line.trim_end(), ids.iter().map(|i| i.to_string()).collect::<Vec<_>>().join(" ").trim());
    let mut used = vec![false; all.len()];
    for (l, id) in out.iter().zip(&ids) {
        if *id >= all.len() || used[*id] || (l.span.start, l.span.end) != all[*id] {
            rep.fail("merge_macro_not_sublist", format!("lint {id} of the merged linter is not an unaltered, once-used lint of a sub-linter"), inp.clone());
            return;
        }
        used[*id] = true;
    }
    for i in 0..out.len() {
        for j in (i + 1)..out.len() {
            let (a, b) = (out[i].span, out[j].span);
            if a.start.max(b.start) < a.end.min(b.end) {
                rep.fail("merge_macro_overlap", format!("the merged linter returns {:?} and {:?}, which share a character", a, b), inp.clone());
                return;
            }
        }
    }
    for (i, sp) in all.iter().enumerate() {
        if !used[i] && sp.0 < sp.1 && !out.iter().any(|k| k.span.start <= sp.0 && sp.0 < k.span.end) {
            rep.fail("merge_macro_dropped_outside", format!("sub-linter lint {i} {:?} was dropped but does not start inside a kept lint", sp), inp.clone());
            return;
        }
    }
    rep.count(&format!("mergemacro:subs:{}:dropped:{}", subs.len(), bucket(all.len() - out.len())));
    if all.len() > out.len() {
        rep.nontrivial(&subs.to_vec());
    }
}

fn fnv32(s: &str) -> u32 {
    let mut h: u32 = 0x811c9dc5;
    for b in s.as_bytes() {
        h ^= *b as u32;
        h = h.wrapping_mul(0x01000193);
    }
    h
}

/// Builds harper-cli's own main.rs (bin `c13cli` of this package) into the target dir this binary lives in.
pub fn build_cli(rep: &mut Report) -> Option<std::path::PathBuf> {
    let exe = std::env::current_exe().ok()?;
    let debug_dir = exe.parent()?.to_path_buf();
    let target = debug_dir.parent()?.to_path_buf();
    let t0 = std::time::Instant::now();
    let out = std::process::Command::new("cargo")
        .args(["build", "--offline", "--bin", "c13cli", "--features", "c13x"])
        .current_dir(env!("CARGO_MANIFEST_DIR"))
        .env("CARGO_TARGET_DIR", &target)
        .env("CARGO_NET_OFFLINE", "true")
        .output();
    rep.extra.insert("cli_build_seconds".into(), json!(t0.elapsed().as_secs()));
    match out {
        Ok(o) if o.status.success() && debug_dir.join("c13cli").exists() => Some(debug_dir.join("c13cli")),
        Ok(o) => {
            let err = String::from_utf8_lossy(&o.stderr);
            let tail: String = err.chars().rev().take(1500).collect::<String>().chars().rev().collect();
            rep.fail("cli_build", format!("harper-cli/src/main.rs does not build as a binary: {tail}"), json!({"kind": "cli_build"}));
            None
        }
        Err(e) => {
            rep.fail("cli_build", format!("cannot run cargo: {e}"), json!({"kind": "cli_build"}));
            None
        }
    }
}

pub struct CliCtx {
    bin: std::path::PathBuf,
    dir: std::path::PathBuf,
    dict: MergedDictionary,
    group: LintGroup,
    n: usize,
}
impl CliCtx {
    pub fn new(rep: &mut Report, out: &str) -> Option<Self> {
        let bin = build_cli(rep)?;
        let dir = std::path::Path::new(out).join("cli");
        let _ = std::fs::create_dir_all(dir.join("dicts"));
        // what the arm builds when neither dictionary file exists: MergedDictionary{curated}
        let mut d = MergedDictionary::new();
        d.add_dictionary(FstDictionary::curated());
        let group = LintGroup::new_curated(Arc::new(d.clone()), Dialect::American);
        Some(CliCtx { bin, dir, dict: d, group, n: 0 })
    }
}

struct CliParsed {
    coloured: Vec<usize>,
    labels: Vec<(usize, String)>,
}

/// Reads the ariadne report back: characters printed in the label colour (SGR 35) on the numbered source
/// lines, and for every arrow `╰─── message` its column (= the label's anchor) and message.
fn parse_report(stdout: &str, line_starts: &[usize]) -> Option<CliParsed> {
    let mut coloured = vec![];
    let mut labels = vec![];
    let mut cur_line: Option<usize> = None;
    for raw in stdout.lines() {
        let mut chars: Vec<(char, bool)> = vec![];
        let mut magenta = false;
        let mut it = raw.chars().peekable();
        while let Some(c) = it.next() {
            if c == '\u{1b}' && it.peek() == Some(&'[') {
                it.next();
                let mut code = String::new();
                for d in it.by_ref() {
                    if d == 'm' {
                        break;
                    }
                    code.push(d);
                }
                magenta = code == "35";
            } else {
                chars.push((c, magenta));
            }
        }
        let Some(bar) = chars.iter().position(|(c, _)| *c == '│') else { continue };
        let margin: String = chars[..bar].iter().map(|(c, _)| *c).collect();
        let content = if chars.len() > bar + 2 { &chars[bar + 2..] } else { &chars[0..0] };
        if let Ok(n) = margin.trim().parse::<usize>() {
            if n == 0 || n > line_starts.len() {
                return None;
            }
            cur_line = Some(n - 1);
            for (i, (_, m)) in content.iter().enumerate() {
                if *m {
                    coloured.push(line_starts[n - 1] + i);
                }
            }
        } else if let Some(col) = content.iter().position(|(c, _)| *c == '╰') {
            let mut j = col + 1;
            while j < content.len() && content[j].0 == '─' {
                j += 1;
            }
            let msg: String = content[(j + 1).min(content.len())..].iter().map(|(c, _)| *c).collect();
            labels.push((line_starts[cur_line?] + col, msg));
        }
    }
    Some(CliParsed { coloured, labels })
}

/// Texts through the real harper-cli BINARY (`lint FILE` and `lint --count FILE`), in parallel batches.
/// L lines against Model/C13Callers.run_cli_report fed with the raw lints of an identically built LintGroup.
pub fn check_cli_batch(rep: &mut Report, cx: &mut CliCtx, jobs: &[(String, bool)], origin: &str) {
    let mut running = vec![];
    for (text, count) in jobs {
        cx.n += 1;
        let f = cx.dir.join(format!("t{}.md", cx.n));
        if std::fs::write(&f, text).is_err() {
            continue;
        }
        let mut cmd = std::process::Command::new(&cx.bin);
        cmd.arg("lint").arg(&f);
        if *count {
            cmd.arg("--count");
        }
        cmd.arg("--user-dict-path").arg(cx.dir.join("dicts/none.txt")).arg("--file-dict-path").arg(cx.dir.join("dicts"));
        cmd.stdout(std::process::Stdio::piped()).stderr(std::process::Stdio::piped()).stdin(std::process::Stdio::null());
        match cmd.spawn() {
            Ok(ch) => running.push((text.clone(), *count, f, Some(ch))),
            Err(_) => running.push((text.clone(), *count, f, None)),
        }
    }
    for (text, count, f, ch) in running {
        rep.eval();
        let inp = json!({"kind": "cli", "text": text, "count": count, "origin": origin});
        let Some(ch) = ch else {
            rep.fail("cli_spawn", "cannot start the harper-cli binary".into(), inp);
            continue;
        };
        let Ok(o) = ch.wait_with_output() else {
            rep.fail("cli_spawn", "cannot collect the harper-cli binary's output".into(), inp);
            continue;
        };
        let _ = std::fs::remove_file(&f);
        let stdout = String::from_utf8_lossy(&o.stdout).to_string();
        let src: Vec<char> = text.chars().collect();
        let raw = guarded(|| {
            let doc = Document::new(&text, &Markdown::default(), &cx.dict);
            cx.group.lint(&doc)
        });
        let Ok(raw) = raw else {
            rep.count("cli:lint_panicked(C01's business)");
            continue;
        };
        if raw.iter().any(|l| l.message.contains('\n')) {
            rep.count("cli:skipped_multiline_message");
            continue;
        }
        let case_line = format!("L {} {}", count as u8, raw.iter().map(|l| format!("{} {} {}", l.span.start, l.span.end, fnv32(&l.message))).collect::<Vec<_>>().join(" "));
        let case_line = case_line.trim_end();
        // strip the two "<dictionary path>: No such file" lines the arm prints first
        let body: Vec<&str> = stdout.lines().filter(|l| !l.contains("(os error")).collect();
        if count {
            let line = body.first().map(|l| l.trim()).unwrap_or("");
            let impl_line = match line.parse::<usize>() {
                Ok(n) => format!("N {n}"),
                Err(_) => format!("? {line}"),
            };
            rep.case(case_line, &impl_line);
            rep.count(&format!("cli:count:raw:{}", bucket(raw.len())));
            continue;
        }
        if body.first().map(|l| l.trim()) == Some("No lints found") {
            rep.case(case_line, "E");
            rep.count("cli:no_lints");
            continue;
        }
        if raw.iter().any(|l| l.span.start >= l.span.end || src[l.span.start.min(src.len())..l.span.end.min(src.len())].contains(&'\n')) {
            rep.count("cli:skipped_zero_width_or_multiline_lint");
            continue;
        }
        let mut line_starts = vec![0usize];
        for (i, c) in src.iter().enumerate() {
            if *c == '\n' {
                line_starts.push(i + 1);
            }
        }
        let Some(parsed) = parse_report(&stdout, &line_starts) else {
            rep.case(case_line, "? unparsable report");
            continue;
        };
        let mut pairs: Vec<(usize, u32)> = parsed.labels.iter().map(|(a, m)| (*a, fnv32(m))).collect();
        pairs.sort();
        let impl_line = format!(
            "L {} | {}",
            parsed.coloured.iter().map(|p| p.to_string()).collect::<Vec<_>>().join(" "),
            pairs.iter().map(|(a, h)| format!("{a} {h}")).collect::<Vec<_>>().join(" ")
        );
        rep.case(case_line, impl_line.trim());
        // ---- oracle on what the CLI prints: every label is a lint of the rules, no two labels share a character,
        //      every unlabelled lint starts inside a labelled one ----
        let mut used = vec![false; raw.len()];
        let mut shown: Vec<Span> = vec![];
        let mut ok = true;
        for (a, h) in &pairs {
            match (0..raw.len()).find(|i| !used[*i] && (raw[*i].span.start + raw[*i].span.end) / 2 == *a && fnv32(&raw[*i].message) == *h) {
                Some(i) => {
                    used[i] = true;
                    shown.push(raw[i].span);
                }
                None => {
                    rep.fail("cli_label_not_a_lint", format!("the report has a label anchored at {a} that is no lint of the rules (or one lint labelled twice)"), inp.clone());
                    ok = false;
                    break;
                }
            }
        }
        if !ok {
            continue;
        }
        if o.status.code() != Some(1) {
            rep.count("cli:unexpected_exit_code");
        }
        let mut bad = false;
        for i in 0..shown.len() {
            for j in (i + 1)..shown.len() {
                if shown[i].start.max(shown[j].start) < shown[i].end.min(shown[j].end) {
                    rep.fail("cli_labels_overlap", format!("harper-cli labels {:?} and {:?}, which share a character: the reported lints cannot all be fixed in one pass", shown[i], shown[j]), inp.clone());
                    bad = true;
                    break;
                }
            }
            if bad {
                break;
            }
        }
        if bad {
            continue;
        }
        for (i, l) in raw.iter().enumerate() {
            if !used[i] && !shown.iter().any(|k| k.start <= l.span.start && l.span.start < k.end) {
                rep.fail("cli_dropped_outside", format!("lint {:?} is not labelled and does not start inside a labelled lint", l.span), inp.clone());
                break;
            }
        }
        rep.count(&format!("cli:labels:{}:unlabelled:{}", bucket(shown.len()), bucket(raw.len() - shown.len())));
        if raw.len() > shown.len() {
            rep.nontrivial(&("cli", text.clone()));
        }
    }
}

fn cli_text(r: &mut Rng) -> String {
    let mut t = match r.below(4) {
        0 => r.s(WASM_TRIGGERS).to_string(),
        1 => format!("{} {}", r.s(WASM_TRIGGERS), money_text(r)),
        2 => format!("{} {}", r.s(MERGE_TRIGGERS), r.s(WASM_TRIGGERS)),
        _ => format!("{}\n\n{}", r.s(WASM_TRIGGERS), r.s(MERGE_TRIGGERS)),
    };
    t.retain(|c| c.is_ascii() && c != '\t' && c != '\r');
    t.push('\n');
    t
}

fn random_dups(r: &mut Rng) -> (Vec<(usize, usize)>, Vec<usize>) {
    let n = 1 + r.below(10);
    let range = *r.pick(&[4usize, 8, 12, 30]);
    let nl = 1 + r.below(2);
    let mut v: Vec<((usize, usize), usize)> = (0..n)
        .map(|_| {
            let a = r.below(range + 1);
            let b = r.below(range + 1);
            let sp = if r.chance(1, 8) { (a.min(b), a.min(b)) } else { (a.min(b), a.max(b)) };
            (sp, r.below(nl))
        })
        .collect();
    // repeat 1-3 of them once or twice, anywhere in the list
    for _ in 0..(1 + r.below(3)) {
        let x = v[r.below(v.len())];
        for _ in 0..(1 + r.below(2)) {
            let at = r.below(v.len() + 1);
            v.insert(at, x);
        }
    }
    (v.iter().map(|x| x.0).collect(), v.iter().map(|x| x.1).collect())
}

fn random_subs(r: &mut Rng) -> Vec<Vec<(usize, usize)>> {
    let k = 2 + r.below(2);
    let range = *r.pick(&[4usize, 8, 12, 30]);
    (0..k)
        .map(|_| {
            let n = r.below(6);
            (0..n)
                .map(|_| {
                    let a = r.below(range + 1);
                    let b = r.below(range + 1);
                    if r.chance(1, 12) { (a.min(b), a.min(b)) } else { (a.min(b), a.max(b)) }
                })
                .collect()
        })
        .collect()
}

pub fn replay_any(rep: &mut Report, cxw: &mut Option<WasmCtx>, cxc: &mut Option<CliCtx>, out: &str, dict: &Arc<FstDictionary>, v: &Value) {
    match v["kind"].as_str().unwrap_or("spans") {
        "cli" | "cli_build" => {
            if cxc.is_none() {
                *cxc = CliCtx::new(rep, out);
            }
            if let (Some(cx), Some(text)) = (cxc.as_mut(), v["text"].as_str()) {
                check_cli_batch(rep, cx, &[(text.to_string(), v["count"].as_bool().unwrap_or(false))], "replay");
            }
        }
        "dup" => {
            let spans: Vec<(usize, usize)> = v["spans"].as_array().map(|a| a.iter().map(|p| (p[0].as_u64().unwrap_or(0) as usize, p[1].as_u64().unwrap_or(0) as usize)).collect()).unwrap_or_default();
            let mut ls: Vec<usize> = v["labels"].as_array().map(|a| a.iter().map(|x| x.as_u64().unwrap_or(0) as usize).collect()).unwrap_or_default();
            ls.resize(spans.len(), 0);
            let wf = spans.iter().all(|(s, e)| s <= e);
            check_lints(rep, &spans, Some(&ls), "replay", wf);
        }
        "mergemacro" => {
            let subs: Vec<Vec<(usize, usize)>> = v["subs"]
                .as_array()
                .map(|a| a.iter().map(|s| s.as_array().map(|x| x.iter().map(|p| (p[0].as_u64().unwrap_or(0) as usize, p[1].as_u64().unwrap_or(0) as usize)).collect()).unwrap_or_default()).collect())
                .unwrap_or_default();
            if subs.len() == 2 || subs.len() == 3 {
                check_merge_macro(rep, dict, &subs, "replay");
            }
        }
        "wasm" => {
            let picks: Vec<usize> = v["ignore"].as_array().map(|a| a.iter().map(|x| x.as_u64().unwrap_or(0) as usize).collect()).unwrap_or_default();
            let cx = cxw.get_or_insert_with(WasmCtx::new);
            check_wasm(rep, cx, v["text"].as_str().unwrap_or(""), v["markdown"].as_bool().unwrap_or(false), &picks, "replay");
        }
        "currency" => check_currency(rep, dict, v["text"].as_str().unwrap_or(""), "replay"),
        "merged" => check_merged(rep, dict, v["text"].as_str().unwrap_or(""), "replay"),
        _ => replay_input(rep, v),
    }
}

pub fn replay_input(rep: &mut Report, v: &Value) {
    let spans: Vec<(usize, usize)> = v["spans"]
        .as_array()
        .map(|a| a.iter().map(|p| (p[0].as_u64().unwrap() as usize, p[1].as_u64().unwrap() as usize)).collect())
        .unwrap_or_default();
    let wf = spans.iter().all(|(s, e)| s <= e);
    check_spans(rep, &spans, "replay", wf);
}

pub fn run(a: &Args, corpus: &[Value]) {
    let mut rep = Report::new(&a.out);
    rep.rule = "span lists: corpus, random multisets (0-40 spans, coordinate range 4..200, zero-width forced 1/12), span lists of all lints of generated documents (all rules on), malformed stream (start>end; correspondence+no-panic only); thorough adds every sequence of <=5 spans over coordinates 0..4. phase 3: texts through the real harper_wasm::Linter (lint, ignore 0-3 reported lints, lint again, fix all through apply_suggestion last first; W/F lines against the caller model fed with the raw LintGroup lints), money texts through CurrencyPlacement (C lines: candidate generation + overlap removal), trigger sentences through the four merge_linters! linters (output must be a fixpoint of the model). exact-duplicate stream (D lines): lints equal in every field repeated 2-3 times, zero-width ones included, mixed with overlapping lints; thorough adds every sequence of <=4 lints over the spans of coordinates 0..3 x 2 labels. phase 4: the real merge_linters! body expanded in the harness over 2 and 3 test sub-linters with planned outputs (M lines: kept ids); trigger texts written to files and linted by the harper-cli BINARY (main.rs built unmodified; `lint` and `lint --count`), its stdout parsed back (count / 'No lints found' / coloured characters + label anchors and messages of the ariadne report; L lines). non-trivial = distinct well-formed list with >=2 spans of which >=1 is dropped".into();
    let dict0 = FstDictionary::curated();
    let mut cxw: Option<WasmCtx> = None;
    let mut cxc: Option<CliCtx> = None;
    for c in corpus {
        replay_any(&mut rep, &mut cxw, &mut cxc, &a.out, &dict0, c);
    }
    if a.replay.is_some() {
        rep.finish();
        return;
    }
    let mut r = Rng::new(a.seed);
    for _ in 0..a.scale(4000, 60000) {
        let s = random_spans(&mut r);
        check_spans(&mut rep, &s, "random", true);
    }
    // exact duplicates: lints equal in every field (same span, same message), repeated 2-3 times, zero-width ones
    // included, mixed with overlapping lints (the repeated-index hazard of VecExt::remove_indices)
    for _ in 0..a.scale(4000, 40000) {
        let (s, l) = random_dups(&mut r);
        check_lints(&mut rep, &s, Some(&l), "dup", true);
    }
    // malformed stream: start > end (only reachable through deserialisation)
    for _ in 0..a.scale(300, 3000) {
        let mut s = random_spans(&mut r);
        if s.is_empty() {
            s.push((3, 1));
        }
        let i = r.below(s.len());
        let (x, y) = s[i];
        s[i] = (y + 1, x);
        check_spans(&mut rep, &s, "malformed", false);
    }
    // lint lists produced from documents
    let dict = FstDictionary::curated();
    let mut group = LintGroup::new_curated(dict.clone(), Dialect::American);
    group.set_all_rules_to(Some(true));
    let mut docs = 0u64;
    let mut with_overlap = 0u64;
    for _ in 0..a.scale(250, 4000) {
        let text = gen::any_text(&mut r);
        let lints = guarded(|| {
            let doc = Document::new_plain_english(&text, &dict);
            group.lint(&doc)
        });
        let Ok(lints) = lints else {
            rep.count("doc_lint_panicked(C01's business)");
            continue;
        };
        docs += 1;
        let spans: Vec<(usize, usize)> = lints.iter().map(|l| (l.span.start, l.span.end)).collect();
        let before = rep.dist.get("dropped:0").copied().unwrap_or(0);
        check_spans(&mut rep, &spans, "document", true);
        if rep.dist.get("dropped:0").copied().unwrap_or(0) == before && spans.len() >= 2 {
            with_overlap += 1;
        }
    }
    // ---- phase 3: the callers ----
    let cx = cxw.get_or_insert_with(WasmCtx::new);
    for i in 0..a.scale(120, 1500) {
        let text = match i % 4 {
            0 => r.s(WASM_TRIGGERS).to_string(),
            1 => format!("{} {}", r.s(WASM_TRIGGERS), money_text(&mut r)),
            2 => format!("{} {}", r.s(MERGE_TRIGGERS), r.s(WASM_TRIGGERS)),
            _ => gen::any_text(&mut r),
        };
        let picks: Vec<usize> = (0..r.below(4)).map(|_| r.below(64)).collect();
        check_wasm(&mut rep, cx, &text, r.chance(1, 4), &picks, "wasm");
    }
    for i in 0..a.scale(1500, 20000) {
        let text = if i % 8 == 7 { gen::any_text(&mut r) } else { money_text(&mut r) };
        check_currency(&mut rep, &dict, &text, "currency");
    }
    for i in 0..a.scale(150, 2000) {
        let text = if i % 3 == 2 { gen::any_text(&mut r) } else { format!("{} {}", r.s(MERGE_TRIGGERS), r.s(MERGE_TRIGGERS)) };
        check_merged(&mut rep, &dict, &text, "merged");
    }
    // ---- phase 4: the real merge_linters! body on planned sub-linter outputs; harper-cli as a binary ----
    for _ in 0..a.scale(3000, 60000) {
        let subs = random_subs(&mut r);
        check_merge_macro(&mut rep, &dict, &subs, "mergemacro");
    }
    if cxc.is_none() {
        cxc = CliCtx::new(&mut rep, &a.out);
    }
    if let Some(cx) = cxc.as_mut() {
        let n = a.scale(40, 600);
        let mut jobs: Vec<(String, bool)> = vec![];
        for i in 0..n {
            let t = if i % 6 == 5 { "This sentence is fine.\n".to_string() } else { cli_text(&mut r) };
            jobs.push((t.clone(), false));
            if i % 2 == 0 {
                jobs.push((t, true));
            }
        }
        for ch in jobs.chunks(12) {
            check_cli_batch(&mut rep, cx, ch, "cli");
        }
    }
    rep.extra.insert("documents_linted".into(), json!(docs));
    rep.extra.insert("documents_with_overlapping_lints".into(), json!(with_overlap));
    if a.thorough() {
        // exhaustive: every sequence of <= 5 spans over coordinates 0..4 (15 well-formed spans)
        let mut all = vec![];
        for s in 0..=4usize {
            for e in s..=4usize {
                all.push((s, e));
            }
        }
        let mut count = 0u64;
        for len in 0..=5usize {
            let mut idx = vec![0usize; len];
            loop {
                let spans: Vec<(usize, usize)> = idx.iter().map(|i| all[*i]).collect();
                check_spans(&mut rep, &spans, "exhaustive", true);
                count += 1;
                let mut k = 0;
                while k < len {
                    idx[k] += 1;
                    if idx[k] < all.len() {
                        break;
                    }
                    idx[k] = 0;
                    k += 1;
                }
                if k == len {
                    break;
                }
            }
        }
        rep.extra.insert("exhaustive_sequences_le5_over_0_4".into(), json!(count));
        // exhaustive with exact duplicates: every sequence of <= 4 lints over the 10 spans of coordinates 0..3 x labels {0,1}
        let mut alld = vec![];
        for s in 0..=3usize {
            for e in s..=3usize {
                for l in 0..2usize {
                    alld.push(((s, e), l));
                }
            }
        }
        let mut countd = 0u64;
        for len in 0..=4usize {
            let mut idx = vec![0usize; len];
            loop {
                let spans: Vec<(usize, usize)> = idx.iter().map(|i| alld[*i].0).collect();
                let labels: Vec<usize> = idx.iter().map(|i| alld[*i].1).collect();
                check_lints(&mut rep, &spans, Some(&labels), "exhaustive-dup", true);
                countd += 1;
                let mut k = 0;
                while k < len {
                    idx[k] += 1;
                    if idx[k] < alld.len() {
                        break;
                    }
                    idx[k] = 0;
                    k += 1;
                }
                if k == len {
                    break;
                }
            }
        }
        rep.extra.insert("exhaustive_dup_sequences_le4_over_0_3_x_2_labels".into(), json!(countd));
    }
    rep.finish();
}

fn main() {
    let (args, corpus) = hv::cli();
    run(&args, &corpus);
}
