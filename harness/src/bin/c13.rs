//! C13 — remove_overlaps: correspondence with Model/Overlap.v + the property oracle on the implementation.
use hv::common::*;
use hv::gen;
use harper_core::linting::{Lint, LintGroup, Linter};
use harper_core::{remove_overlaps, Dialect, Document, FstDictionary, Span};
use harper_core::linting::{CompoundNouns, CurrencyPlacement, HopHope, LetsConfusion, PronounContraction, Suggestion};
use harper_core::parsers::{Markdown, PlainEnglish};
use harper_core::{IgnoredLints, MergedDictionary, MutableDictionary, TokenKind, TokenStringExt};
use harper_wasm::{Dialect as WD, Language, Lint as WLint, Linter as WL};
use serde_json::{json, Value};
use std::sync::Arc;

fn mk(spans: &[(usize, usize)]) -> Vec<Lint> {
    spans
        .iter()
        .enumerate()
        .map(|(i, (s, e))| Lint { span: Span { start: *s, end: *e }, message: i.to_string(), ..Default::default() })
        .collect()
}

/// Runs one case on the implementation, records the correspondence line and evaluates the oracle.
pub fn check_spans(rep: &mut Report, spans: &[(usize, usize)], origin: &str, wellformed: bool) {
    rep.eval();
    let input = mk(spans);
    let case_line = format!("R {}", spans.iter().map(|(s, e)| format!("{s} {e}")).collect::<Vec<_>>().join(" "));
    let inp_json = json!({"kind": "spans", "spans": spans.iter().map(|(s,e)| vec![*s,*e]).collect::<Vec<_>>(), "origin": origin});
    let out = guarded(|| {
        let mut v = input.clone();
        remove_overlaps(&mut v);
        v
    });
    let out = match out {
        Ok(v) => v,
        Err(m) => {
            rep.case(&case_line, "PANIC");
            rep.fail("panic", format!("remove_overlaps panicked: {m}"), inp_json);
            return;
        }
    };
    let ids: Vec<usize> = out.iter().map(|l| l.message.parse::<usize>().unwrap_or(usize::MAX)).collect();
    rep.case(&case_line, ids.iter().map(|i| i.to_string()).collect::<Vec<_>>().join(" ").trim());
    if !wellformed {
        rep.count("malformed_stream");
        return; // outside the property's domain: must not panic, must agree with the model, nothing else
    }
    // ---- property oracle on the implementation's output ----
    // (1) sub-list: every kept lint is an input lint, unaltered, each input used at most once
    let mut used = vec![false; input.len()];
    for (l, id) in out.iter().zip(&ids) {
        if *id >= input.len() || used[*id] || *l != input[*id] {
            rep.fail("not_sublist", format!("kept lint {id} is not an unaltered, once-used input lint"), inp_json.clone());
            return;
        }
        used[*id] = true;
    }
    // (2) no two kept lints cover a common character
    for i in 0..out.len() {
        for j in (i + 1)..out.len() {
            let (a, b) = (out[i].span, out[j].span);
            if a.start.max(b.start) < a.end.min(b.end) {
                rep.fail("kept_overlap", format!("kept lints {:?} and {:?} share a character", a, b), inp_json.clone());
                return;
            }
        }
    }
    // (3) every dropped lint starts inside (or at the start of) a kept one
    for (i, l) in input.iter().enumerate() {
        if !used[i] {
            let ok = out.iter().any(|k| k.span.start <= l.span.start && l.span.start < k.span.end);
            if !ok {
                rep.fail("dropped_outside", format!("dropped lint {i} {:?} does not start inside a kept lint", l.span), inp_json.clone());
                return;
            }
        }
    }
    // (4) back to front: applying one edit per kept lint, last first, equals the simultaneous splice
    let n = spans.iter().map(|(_, e)| *e).max().unwrap_or(0);
    let src: Vec<char> = (0..n).map(|i| char::from_u32(0x61 + (i % 26) as u32).unwrap()).collect();
    let mut sorted = out.clone();
    sorted.sort_by_key(|l| l.span.start);
    let mut b2f = src.clone();
    let r = guarded(|| {
        for l in sorted.iter().rev() {
            harper_core::linting::Suggestion::ReplaceWith(vec!['<', '>']).apply(l.span, &mut b2f);
        }
        b2f
    });
    let mut sim: Vec<char> = vec![];
    let mut pos = 0;
    for l in &sorted {
        if pos > l.span.start {
            rep.fail("back_to_front", format!("kept lint {:?} starts before the end ({pos}) of the previous kept lint: the edits interfere", l.span), inp_json.clone());
            return;
        }
        sim.extend(&src[pos..l.span.start]);
        sim.extend(['<', '>']);
        pos = l.span.end;
    }
    sim.extend(&src[pos..]);
    match r {
        Ok(t) if t == sim => {}
        Ok(_) => rep.fail("back_to_front", "back-to-front application differs from the simultaneous splice".into(), inp_json.clone()),
        Err(m) => rep.fail("back_to_front", format!("back-to-front application panicked: {m}"), inp_json.clone()),
    }
    // distribution / non-triviality
    let dropped = input.len() - out.len();
    if spans.len() >= 2 && dropped > 0 {
        rep.nontrivial(&spans.to_vec());
    }
    rep.count(&format!("n_spans:{}", bucket(spans.len())));
    rep.count(&format!("dropped:{}", bucket(dropped)));
    if spans.iter().any(|(s, e)| s == e) {
        rep.count("has_zero_width");
    }
    if rep.samples.len() < 6 && dropped > 0 {
        rep.sample(json!({"spans": spans.iter().map(|(s,e)| vec![*s,*e]).collect::<Vec<_>>(), "kept_ids": ids, "origin": origin}));
    }
}

fn bucket(n: usize) -> &'static str {
    match n {
        0 => "0",
        1 => "1",
        2..=3 => "2-3",
        4..=7 => "4-7",
        8..=15 => "8-15",
        _ => "16+",
    }
}

fn random_spans(r: &mut Rng) -> Vec<(usize, usize)> {
    let n = if r.chance(1, 10) { r.below(3) } else { r.below(41) };
    let range = *r.pick(&[4usize, 8, 12, 30, 200]);
    (0..n)
        .map(|_| {
            let a = r.below(range + 1);
            let b = r.below(range + 1);
            let (a, b) = (a.min(b), a.max(b));
            if r.chance(1, 12) { (a, a) } else { (a, b) }
        })
        .collect()
}


// ======================= phase 3: the callers of remove_overlaps =======================

fn cps(t: &[char]) -> String {
    t.iter().map(|c| (*c as u32).to_string()).collect::<Vec<_>>().join(" ")
}
fn sug_code(s: &Suggestion) -> (usize, Vec<char>) {
    match s {
        Suggestion::ReplaceWith(c) => (0, c.clone()),
        Suggestion::InsertAfter(c) => (1, c.clone()),
        Suggestion::Remove => (2, vec![]),
    }
}
fn winner(l: &WLint) -> Lint {
    let v: Value = serde_json::from_str(&l.to_json()).unwrap_or(Value::Null);
    serde_json::from_value(v["inner"].clone()).unwrap_or_default()
}

pub struct WasmCtx {
    dict: Arc<MergedDictionary>,
    group: LintGroup,
    wl: WL,
}
impl WasmCtx {
    pub fn new() -> Self {
        // the dictionary harper_wasm::Linter::new builds: curated + an empty user dictionary
        let mut d = MergedDictionary::new();
        d.add_dictionary(FstDictionary::curated());
        d.add_dictionary(Arc::new(MutableDictionary::default()));
        let dict = Arc::new(d);
        let group = LintGroup::new_curated(dict.clone(), Dialect::American);
        WasmCtx { dict, group, wl: WL::new(WD::American) }
    }
}

/// One text through the real harper_wasm::Linter: lint, ignore some of the reported lints, lint again,
/// then fix everything that is reported through Linter::apply_suggestion, last reported lint first.
/// Correspondence: W lines (reported ids) and F lines (final text) against Model/C13Callers.v, whose
/// input is the RAW lint list (harper_core LintGroup with the same dictionary, dialect and curated config).
pub fn check_wasm(rep: &mut Report, cx: &mut WasmCtx, text: &str, markdown: bool, ignore_picks: &[usize], origin: &str) {
    rep.eval();
    let inp = json!({"kind": "wasm", "text": text, "markdown": markdown, "ignore": ignore_picks, "origin": origin});
    let lang = if markdown { Language::Markdown } else { Language::Plain };
    let src: Vec<char> = text.chars().collect();
    let r = guarded(|| {
        let doc = if markdown {
            Document::new_from_vec(Arc::new(src.clone()).into(), &Markdown::default(), &cx.dict)
        } else {
            Document::new_from_vec(Arc::new(src.clone()).into(), &PlainEnglish, &cx.dict)
        };
        let raw = cx.group.lint(&doc);
        cx.wl.clear_ignored_lints();
        let out1 = cx.wl.lint(text.to_string(), lang);
        let mut own = IgnoredLints::new();
        let mut picked = 0;
        for p in ignore_picks {
            if out1.is_empty() {
                break;
            }
            let l = &out1[p % out1.len()];
            own.ignore_lint(&winner(l), &doc);
            cx.wl.ignore_lint(text.to_string(), WLint::from_json(l.to_json()).unwrap());
            picked += 1;
        }
        let out2 = cx.wl.lint(text.to_string(), lang);
        let mask: Vec<bool> = raw.iter().map(|l| own.is_ignored(l, &doc)).collect();
        // fix everything reported by the second lint, last first, through the API
        let mut cur = text.to_string();
        for l in out2.iter().rev() {
            let sugs = l.suggestions();
            if let Some(s0) = sugs.first() {
                cur = cx.wl.apply_suggestion(cur, l, s0).unwrap_or_else(|e| format!("ERR {e}"));
            }
        }
        cx.wl.clear_ignored_lints();
        (raw, out1, out2, mask, picked, cur)
    });
    let (raw, out1, out2, mask, picked, fixed) = match r {
        Ok(x) => x,
        Err(m) => {
            rep.count("wasm_panicked(C16's business unless the model disagrees)");
            let _ = m;
            return;
        }
    };
    let ids_of = |out: &Vec<WLint>| -> Option<Vec<usize>> {
        let mut used = vec![false; raw.len()];
        let mut ids = vec![];
        for l in out {
            let inner = winner(l);
            let i = (0..raw.len()).find(|i| !used[*i] && raw[*i] == inner)?;
            used[i] = true;
            ids.push(i);
        }
        Some(ids)
    };
    let line = |ids: &Vec<usize>| ids.iter().map(|i| i.to_string()).collect::<Vec<_>>().join(" ");
    let items = |m: &dyn Fn(usize) -> bool| raw.iter().enumerate().map(|(i, l)| format!("{} {} {}", l.span.start, l.span.end, m(i) as u8)).collect::<Vec<_>>().join(" ");
    let (Some(ids1), Some(ids2)) = (ids_of(&out1), ids_of(&out2)) else {
        rep.fail("wasm_not_sublist", "Linter::lint reports a lint that is not one of the rules' lints (unaltered, used once)".into(), inp);
        return;
    };
    rep.case(&format!("W 1 {}", items(&|_| false)).trim_end().to_string(), line(&ids1).trim());
    rep.case(&format!("W {} {}", (picked == 0) as u8, items(&|i| mask[i])).trim_end().to_string(), line(&ids2).trim());
    // F: raw items with the first suggestion of each lint (a lint without suggestions: InsertAfter "" = no edit)
    let fitems = raw
        .iter()
        .enumerate()
        .map(|(i, l)| {
            let (k, cs) = l.suggestions.first().map(sug_code).unwrap_or((1, vec![]));
            format!("{} {} {} {} {}", l.span.start, l.span.end, mask[i] as u8, k, cps(&cs)).trim_end().to_string()
        })
        .collect::<Vec<_>>()
        .join(" | ");
    let fixed_chars: Vec<char> = fixed.chars().collect();
    let impl_line = if fixed.starts_with("ERR ") { "P".to_string() } else { format!("O {}", cps(&fixed_chars)).trim_end().to_string() };
    rep.case(&format!("F {} | {} | {}", (picked == 0) as u8, cps(&src), fitems), &impl_line);
    // ---- oracle on what the JS API reports ----
    let sp: Vec<Span> = out2.iter().map(|l| winner(l).span).collect();
    for i in 0..sp.len() {
        for j in (i + 1)..sp.len() {
            if sp[i].start.max(sp[j].start) < sp[i].end.min(sp[j].end) {
                rep.fail("wasm_reported_overlap", format!("Linter::lint reports {:?} and {:?}, which share a character", sp[i], sp[j]), inp.clone());
                return;
            }
            if sp[j].start < sp[i].start {
                rep.fail("wasm_reported_unsorted", format!("Linter::lint reports {:?} before {:?}: list order is not text order, last-to-first fixing interferes", sp[i], sp[j]), inp.clone());
                return;
            }
        }
    }
    for (i, m) in mask.iter().enumerate() {
        if *m && ids2.contains(&i) {
            rep.fail("wasm_reports_ignored", format!("raw lint {i} is ignored and still reported"), inp.clone());
            return;
        }
    }
    // fix-all through the API == independent simultaneous splice
    let mut sim: Vec<char> = vec![];
    let mut pos = 0usize;
    let mut ok = true;
    for l in &out2 {
        let inner = winner(l);
        if pos > inner.span.start || inner.span.end > src.len() {
            ok = false;
            break;
        }
        sim.extend(&src[pos..inner.span.start]);
        let flagged = &src[inner.span.start..inner.span.end];
        match inner.suggestions.first() {
            Some(Suggestion::ReplaceWith(c)) => sim.extend(c),
            Some(Suggestion::InsertAfter(c)) => {
                sim.extend(flagged);
                sim.extend(c)
            }
            Some(Suggestion::Remove) => {}
            None => sim.extend(flagged),
        }
        pos = inner.span.end;
    }
    if ok {
        sim.extend(&src[pos..]);
    }
    if !ok || sim != fixed_chars {
        rep.fail("wasm_fix_all", "applying one suggestion per reported lint (Linter::apply_suggestion, last first) is not the simultaneous splice".into(), inp.clone());
        return;
    }
    let dropped = raw.len() - ids1.len();
    rep.count(&format!("wasm:raw:{}", bucket(raw.len())));
    rep.count(&format!("wasm:dropped_by_overlap:{}", bucket(dropped)));
    rep.count(&format!("wasm:hidden_by_ignore:{}", bucket(ids1.len() - ids2.len().min(ids1.len()))));
    if dropped > 0 || ids2.len() < ids1.len() {
        rep.nontrivial(&(text.to_string(), ignore_picks.to_vec(), markdown));
    }
}

fn kind_code(k: &TokenKind) -> usize {
    if k.is_number() {
        0
    } else if k.is_currency() {
        1
    } else if k.is_punctuation() {
        2
    } else if k.is_whitespace() {
        3
    } else {
        4
    }
}

/// CurrencyPlacement::lint on a text against Model/C13Callers.currency_lint (candidate generation per
/// chunk + remove_overlaps).  The model's `wrong` predicate (correct != actual) is computed here for every
/// (currency, number) pair of tokens at distance <= 2 with Currency::format_amount.
pub fn check_currency(rep: &mut Report, dict: &Arc<FstDictionary>, text: &str, origin: &str) {
    rep.eval();
    let inp = json!({"kind": "currency", "text": text, "origin": origin});
    let Ok(doc) = guarded(|| Document::new_plain_english(text, dict)) else {
        rep.count("currency:doc_panicked");
        return;
    };
    let mut wrongs: Vec<(usize, usize)> = vec![];
    let mut chunks: Vec<String> = vec![];
    for chunk in doc.iter_chunks() {
        chunks.push(chunk.iter().map(|t| format!("{} {} {}", kind_code(&t.kind), t.span.start, t.span.end)).collect::<Vec<_>>().join(" "));
        for i in 0..chunk.len() {
            for j in (i + 1)..chunk.len().min(i + 3) {
                let (a, b) = (&chunk[i], &chunk[j]);
                let cur = if a.kind.is_currency() { &a.kind } else { &b.kind };
                let num = if a.kind.is_number() { &a.kind } else { &b.kind };
                let (Some(c), Some(n)) = (cur.as_punctuation().and_then(|p| p.as_currency()), num.as_number()) else { continue };
                if a.span.start > b.span.end || b.span.end > doc.get_source().len() {
                    continue;
                }
                let correct: Vec<char> = c.format_amount(n).chars().collect();
                if correct != doc.get_source()[a.span.start..b.span.end] {
                    wrongs.push((a.span.start, b.span.end));
                }
            }
        }
    }
    let case_line = format!(
        "C {} | {}",
        wrongs.iter().map(|(s, e)| format!("{s} {e}")).collect::<Vec<_>>().join(" "),
        chunks.join(" | ")
    );
    let out = guarded(|| CurrencyPlacement::default().lint(&doc));
    let out = match out {
        Ok(o) => o,
        Err(m) => {
            rep.case(&case_line, "P");
            rep.fail("currency_panic", format!("CurrencyPlacement::lint panicked: {m}"), inp);
            return;
        }
    };
    let spans: Vec<(usize, usize)> = out.iter().map(|l| (l.span.start, l.span.end)).collect();
    rep.case(&case_line, spans.iter().map(|(s, e)| format!("{s} {e}")).collect::<Vec<_>>().join(" ").trim());
    check_caller_output(rep, &spans, "CurrencyPlacement", &inp);
    rep.count(&format!("currency:lints:{}", bucket(spans.len())));
    rep.count(&format!("currency:wrong_pairs:{}", bucket(wrongs.len())));
    if wrongs.len() > spans.len() {
        rep.count("currency:candidates_dropped_or_not_generated");
        rep.nontrivial(&text.to_string());
    }
}

/// The output of a caller that ends in remove_overlaps: pairwise disjoint and a FIXPOINT of the model's
/// remove_overlaps (C13_idempotent) — the R line must keep every id, in order.
fn check_caller_output(rep: &mut Report, spans: &[(usize, usize)], who: &str, inp: &Value) {
    let mut v = mk(spans);
    let before = v.clone();
    let r = guarded(|| {
        remove_overlaps(&mut v);
        v
    });
    let case_line = format!("R {}", spans.iter().map(|(s, e)| format!("{s} {e}")).collect::<Vec<_>>().join(" "));
    rep.case(&case_line, (0..spans.len()).map(|i| i.to_string()).collect::<Vec<_>>().join(" ").trim());
    match r {
        Ok(v) if v == before => {}
        _ => rep.fail("caller_not_fixpoint", format!("the lints {who} returns are not left alone by remove_overlaps: it did not apply it (or applied something else)"), inp.clone()),
    }
    for i in 0..spans.len() {
        for j in (i + 1)..spans.len() {
            let (a, b) = (spans[i], spans[j]);
            if a.0.max(b.0) < a.1.min(b.1) {
                rep.fail("caller_overlap", format!("{who} returns {:?} and {:?}, which share a character", a, b), inp.clone());
                return;
            }
        }
    }
}

pub fn check_merged(rep: &mut Report, dict: &Arc<FstDictionary>, text: &str, origin: &str) {
    rep.eval();
    let inp = json!({"kind": "merged", "text": text, "origin": origin});
    let Ok(doc) = guarded(|| Document::new_plain_english(text, dict)) else { return };
    let mut linters: Vec<(&str, Box<dyn Linter>)> = vec![
        ("HopHope", Box::new(HopHope::default())),
        ("PronounContraction", Box::new(PronounContraction::default())),
        ("CompoundNouns", Box::new(CompoundNouns::default())),
        ("LetsConfusion", Box::new(LetsConfusion::default())),
    ];
    for (name, l) in linters.iter_mut() {
        let Ok(out) = guarded(|| l.lint(&doc)) else {
            rep.count("merged:lint_panicked(C01's business)");
            continue;
        };
        let spans: Vec<(usize, usize)> = out.iter().map(|l| (l.span.start, l.span.end)).collect();
        check_caller_output(rep, &spans, name, &inp);
        rep.count(&format!("merged:{name}:{}", bucket(spans.len())));
    }
}

const MONEY: &[&str] = &["5", "$", " ", "€", "10", "3.50", " ", "¢", "£", "1,000", "and", "cost", ".", ",", " ", "¥", "2", "about", "$", " "];
fn money_text(r: &mut Rng) -> String {
    let n = 1 + r.below(14);
    let mut s = String::new();
    for _ in 0..n {
        s.push_str(r.s(MONEY));
        if r.chance(1, 5) {
            s.push(' ');
        }
    }
    s
}
const MERGE_TRIGGERS: &[&str] = &[
    "I hop to see you soon.", "We hope on the bus.", "Your the best.", "Lets go home.", "Let's us try.", "Lets us go.",
    "The wind shield broke.", "A back pack is on the bed room floor.", "Its a note book.", "You are here and your here.",
    "I hop you hop on a plane.", "Were going to the air port.", "Let us let's go.", "She said your welcome.",
];
const WASM_TRIGGERS: &[&str] = &[
    "Ths  tet is an test.", "There is an an apple  here.", "I have 5 $ and 10$ .", "the the cat sat.Then it left",
    "This is a a test of the the emergency system.", "Their going to there house over they're.", "An unicorn ate a apple , quickly .",
    "i think its a alot of work ; really", "He hop to to see you  soon", "In in the the end end , it it was was fine fine .",
];

pub fn replay_any(rep: &mut Report, cxw: &mut Option<WasmCtx>, dict: &Arc<FstDictionary>, v: &Value) {
    match v["kind"].as_str().unwrap_or("spans") {
        "wasm" => {
            let picks: Vec<usize> = v["ignore"].as_array().map(|a| a.iter().map(|x| x.as_u64().unwrap_or(0) as usize).collect()).unwrap_or_default();
            let cx = cxw.get_or_insert_with(WasmCtx::new);
            check_wasm(rep, cx, v["text"].as_str().unwrap_or(""), v["markdown"].as_bool().unwrap_or(false), &picks, "replay");
        }
        "currency" => check_currency(rep, dict, v["text"].as_str().unwrap_or(""), "replay"),
        "merged" => check_merged(rep, dict, v["text"].as_str().unwrap_or(""), "replay"),
        _ => replay_input(rep, v),
    }
}

pub fn replay_input(rep: &mut Report, v: &Value) {
    let spans: Vec<(usize, usize)> = v["spans"]
        .as_array()
        .map(|a| a.iter().map(|p| (p[0].as_u64().unwrap() as usize, p[1].as_u64().unwrap() as usize)).collect())
        .unwrap_or_default();
    let wf = spans.iter().all(|(s, e)| s <= e);
    check_spans(rep, &spans, "replay", wf);
}

pub fn run(a: &Args, corpus: &[Value]) {
    let mut rep = Report::new(&a.out);
    rep.rule = "span lists: corpus, random multisets (0-40 spans, coordinate range 4..200, zero-width forced 1/12), span lists of all lints of generated documents (all rules on), malformed stream (start>end; correspondence+no-panic only); thorough adds every sequence of <=5 spans over coordinates 0..4. phase 3: texts through the real harper_wasm::Linter (lint, ignore 0-3 reported lints, lint again, fix all through apply_suggestion last first; W/F lines against the caller model fed with the raw LintGroup lints), money texts through CurrencyPlacement (C lines: candidate generation + overlap removal), trigger sentences through the four merge_linters! linters (output must be a fixpoint of the model). non-trivial = distinct well-formed list with >=2 spans of which >=1 is dropped".into();
    let dict0 = FstDictionary::curated();
    let mut cxw: Option<WasmCtx> = None;
    for c in corpus {
        replay_any(&mut rep, &mut cxw, &dict0, c);
    }
    if a.replay.is_some() {
        rep.finish();
        return;
    }
    let mut r = Rng::new(a.seed);
    for _ in 0..a.scale(4000, 60000) {
        let s = random_spans(&mut r);
        check_spans(&mut rep, &s, "random", true);
    }
    // malformed stream: start > end (only reachable through deserialisation)
    for _ in 0..a.scale(300, 3000) {
        let mut s = random_spans(&mut r);
        if s.is_empty() {
            s.push((3, 1));
        }
        let i = r.below(s.len());
        let (x, y) = s[i];
        s[i] = (y + 1, x);
        check_spans(&mut rep, &s, "malformed", false);
    }
    // lint lists produced from documents
    let dict = FstDictionary::curated();
    let mut group = LintGroup::new_curated(dict.clone(), Dialect::American);
    group.set_all_rules_to(Some(true));
    let mut docs = 0u64;
    let mut with_overlap = 0u64;
    for _ in 0..a.scale(250, 4000) {
        let text = gen::any_text(&mut r);
        let lints = guarded(|| {
            let doc = Document::new_plain_english(&text, &dict);
            group.lint(&doc)
        });
        let Ok(lints) = lints else {
            rep.count("doc_lint_panicked(C01's business)");
            continue;
        };
        docs += 1;
        let spans: Vec<(usize, usize)> = lints.iter().map(|l| (l.span.start, l.span.end)).collect();
        let before = rep.dist.get("dropped:0").copied().unwrap_or(0);
        check_spans(&mut rep, &spans, "document", true);
        if rep.dist.get("dropped:0").copied().unwrap_or(0) == before && spans.len() >= 2 {
            with_overlap += 1;
        }
    }
    // ---- phase 3: the callers ----
    let cx = cxw.get_or_insert_with(WasmCtx::new);
    for i in 0..a.scale(120, 1500) {
        let text = match i % 4 {
            0 => r.s(WASM_TRIGGERS).to_string(),
            1 => format!("{} {}", r.s(WASM_TRIGGERS), money_text(&mut r)),
            2 => format!("{} {}", r.s(MERGE_TRIGGERS), r.s(WASM_TRIGGERS)),
            _ => gen::any_text(&mut r),
        };
        let picks: Vec<usize> = (0..r.below(4)).map(|_| r.below(64)).collect();
        check_wasm(&mut rep, cx, &text, r.chance(1, 4), &picks, "wasm");
    }
    for i in 0..a.scale(1500, 20000) {
        let text = if i % 8 == 7 { gen::any_text(&mut r) } else { money_text(&mut r) };
        check_currency(&mut rep, &dict, &text, "currency");
    }
    for i in 0..a.scale(150, 2000) {
        let text = if i % 3 == 2 { gen::any_text(&mut r) } else { format!("{} {}", r.s(MERGE_TRIGGERS), r.s(MERGE_TRIGGERS)) };
        check_merged(&mut rep, &dict, &text, "merged");
    }
    rep.extra.insert("documents_linted".into(), json!(docs));
    rep.extra.insert("documents_with_overlapping_lints".into(), json!(with_overlap));
    if a.thorough() {
        // exhaustive: every sequence of <= 5 spans over coordinates 0..4 (15 well-formed spans)
        let mut all = vec![];
        for s in 0..=4usize {
            for e in s..=4usize {
                all.push((s, e));
            }
        }
        let mut count = 0u64;
        for len in 0..=5usize {
            let mut idx = vec![0usize; len];
            loop {
                let spans: Vec<(usize, usize)> = idx.iter().map(|i| all[*i]).collect();
                check_spans(&mut rep, &spans, "exhaustive", true);
                count += 1;
                let mut k = 0;
                while k < len {
                    idx[k] += 1;
                    if idx[k] < all.len() {
                        break;
                    }
                    idx[k] = 0;
                    k += 1;
                }
                if k == len {
                    break;
                }
            }
        }
        rep.extra.insert("exhaustive_sequences_le5_over_0_4".into(), json!(count));
    }
    rep.finish();
}

fn main() {
    let (args, corpus) = hv::cli();
    run(&args, &corpus);
}
