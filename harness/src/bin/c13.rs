//! C13 — remove_overlaps: correspondence with Model/Overlap.v + the property oracle on the implementation.
use hv::common::*;
use hv::gen;
use harper_core::linting::{Lint, LintGroup, Linter};
use harper_core::{remove_overlaps, Dialect, Document, FstDictionary, Span};
use serde_json::{json, Value};

fn mk(spans: &[(usize, usize)]) -> Vec<Lint> {
    spans
        .iter()
        .enumerate()
        .map(|(i, (s, e))| Lint { span: Span { start: *s, end: *e }, message: i.to_string(), ..Default::default() })
        .collect()
}

/// Runs one case on the implementation, records the correspondence line and evaluates the oracle.
pub fn check_spans(rep: &mut Report, spans: &[(usize, usize)], origin: &str, wellformed: bool) {
    rep.eval();
    let input = mk(spans);
    let case_line = format!("R {}", spans.iter().map(|(s, e)| format!("{s} {e}")).collect::<Vec<_>>().join(" "));
    let inp_json = json!({"kind": "spans", "spans": spans.iter().map(|(s,e)| vec![*s,*e]).collect::<Vec<_>>(), "origin": origin});
    let out = guarded(|| {
        let mut v = input.clone();
        remove_overlaps(&mut v);
        v
    });
    let out = match out {
        Ok(v) => v,
        Err(m) => {
            rep.case(&case_line, "PANIC");
            rep.fail("panic", format!("remove_overlaps panicked: {m}"), inp_json);
            return;
        }
    };
    let ids: Vec<usize> = out.iter().map(|l| l.message.parse::<usize>().unwrap_or(usize::MAX)).collect();
    rep.case(&case_line, ids.iter().map(|i| i.to_string()).collect::<Vec<_>>().join(" ").trim());
    if !wellformed {
        rep.count("malformed_stream");
        return; // outside the property's domain: must not panic, must agree with the model, nothing else
    }
    // ---- property oracle on the implementation's output ----
    // (1) sub-list: every kept lint is an input lint, unaltered, each input used at most once
    let mut used = vec![false; input.len()];
    for (l, id) in out.iter().zip(&ids) {
        if *id >= input.len() || used[*id] || *l != input[*id] {
            rep.fail("not_sublist", format!("kept lint {id} is not an unaltered, once-used input lint"), inp_json.clone());
            return;
        }
        used[*id] = true;
    }
    // (2) no two kept lints cover a common character
    for i in 0..out.len() {
        for j in (i + 1)..out.len() {
            let (a, b) = (out[i].span, out[j].span);
            if a.start.max(b.start) < a.end.min(b.end) {
                rep.fail("kept_overlap", format!("kept lints {:?} and {:?} share a character", a, b), inp_json.clone());
                return;
            }
        }
    }
    // (3) every dropped lint starts inside (or at the start of) a kept one
    for (i, l) in input.iter().enumerate() {
        if !used[i] {
            let ok = out.iter().any(|k| k.span.start <= l.span.start && l.span.start < k.span.end);
            if !ok {
                rep.fail("dropped_outside", format!("dropped lint {i} {:?} does not start inside a kept lint", l.span), inp_json.clone());
                return;
            }
        }
    }
    // (4) back to front: applying one edit per kept lint, last first, equals the simultaneous splice
    let n = spans.iter().map(|(_, e)| *e).max().unwrap_or(0);
    let src: Vec<char> = (0..n).map(|i| char::from_u32(0x61 + (i % 26) as u32).unwrap()).collect();
    let mut sorted = out.clone();
    sorted.sort_by_key(|l| l.span.start);
    let mut b2f = src.clone();
    let r = guarded(|| {
        for l in sorted.iter().rev() {
            harper_core::linting::Suggestion::ReplaceWith(vec!['<', '>']).apply(l.span, &mut b2f);
        }
        b2f
    });
    let mut sim: Vec<char> = vec![];
    let mut pos = 0;
    for l in &sorted {
        if pos > l.span.start {
            rep.fail("back_to_front", format!("kept lint {:?} starts before the end ({pos}) of the previous kept lint: the edits interfere", l.span), inp_json.clone());
            return;
        }
        sim.extend(&src[pos..l.span.start]);
        sim.extend(['<', '>']);
        pos = l.span.end;
    }
    sim.extend(&src[pos..]);
    match r {
        Ok(t) if t == sim => {}
        Ok(_) => rep.fail("back_to_front", "back-to-front application differs from the simultaneous splice".into(), inp_json.clone()),
        Err(m) => rep.fail("back_to_front", format!("back-to-front application panicked: {m}"), inp_json.clone()),
    }
    // distribution / non-triviality
    let dropped = input.len() - out.len();
    if spans.len() >= 2 && dropped > 0 {
        rep.nontrivial(&spans.to_vec());
    }
    rep.count(&format!("n_spans:{}", bucket(spans.len())));
    rep.count(&format!("dropped:{}", bucket(dropped)));
    if spans.iter().any(|(s, e)| s == e) {
        rep.count("has_zero_width");
    }
    if rep.samples.len() < 6 && dropped > 0 {
        rep.sample(json!({"spans": spans.iter().map(|(s,e)| vec![*s,*e]).collect::<Vec<_>>(), "kept_ids": ids, "origin": origin}));
    }
}

fn bucket(n: usize) -> &'static str {
    match n {
        0 => "0",
        1 => "1",
        2..=3 => "2-3",
        4..=7 => "4-7",
        8..=15 => "8-15",
        _ => "16+",
    }
}

fn random_spans(r: &mut Rng) -> Vec<(usize, usize)> {
    let n = if r.chance(1, 10) { r.below(3) } else { r.below(41) };
    let range = *r.pick(&[4usize, 8, 12, 30, 200]);
    (0..n)
        .map(|_| {
            let a = r.below(range + 1);
            let b = r.below(range + 1);
            let (a, b) = (a.min(b), a.max(b));
            if r.chance(1, 12) { (a, a) } else { (a, b) }
        })
        .collect()
}

pub fn replay_input(rep: &mut Report, v: &Value) {
    let spans: Vec<(usize, usize)> = v["spans"]
        .as_array()
        .map(|a| a.iter().map(|p| (p[0].as_u64().unwrap() as usize, p[1].as_u64().unwrap() as usize)).collect())
        .unwrap_or_default();
    let wf = spans.iter().all(|(s, e)| s <= e);
    check_spans(rep, &spans, "replay", wf);
}

pub fn run(a: &Args, corpus: &[Value]) {
    let mut rep = Report::new(&a.out);
    rep.rule = "span lists: corpus, random multisets (0-40 spans, coordinate range 4..200, zero-width forced 1/12), span lists of all lints of generated documents (all rules on), malformed stream (start>end; correspondence+no-panic only); thorough adds every sequence of <=5 spans over coordinates 0..4. non-trivial = distinct well-formed list with >=2 spans of which >=1 is dropped".into();
    for c in corpus {
        replay_input(&mut rep, c);
    }
    if a.replay.is_some() {
        rep.finish();
        return;
    }
    let mut r = Rng::new(a.seed);
    for _ in 0..a.scale(4000, 60000) {
        let s = random_spans(&mut r);
        check_spans(&mut rep, &s, "random", true);
    }
    // malformed stream: start > end (only reachable through deserialisation)
    for _ in 0..a.scale(300, 3000) {
        let mut s = random_spans(&mut r);
        if s.is_empty() {
            s.push((3, 1));
        }
        let i = r.below(s.len());
        let (x, y) = s[i];
        s[i] = (y + 1, x);
        check_spans(&mut rep, &s, "malformed", false);
    }
    // lint lists produced from documents
    let dict = FstDictionary::curated();
    let mut group = LintGroup::new_curated(dict.clone(), Dialect::American);
    group.set_all_rules_to(Some(true));
    let mut docs = 0u64;
    let mut with_overlap = 0u64;
    for _ in 0..a.scale(250, 4000) {
        let text = gen::any_text(&mut r);
        let lints = guarded(|| {
            let doc = Document::new_plain_english(&text, &dict);
            group.lint(&doc)
        });
        let Ok(lints) = lints else {
            rep.count("doc_lint_panicked(C01's business)");
            continue;
        };
        docs += 1;
        let spans: Vec<(usize, usize)> = lints.iter().map(|l| (l.span.start, l.span.end)).collect();
        let before = rep.dist.get("dropped:0").copied().unwrap_or(0);
        check_spans(&mut rep, &spans, "document", true);
        if rep.dist.get("dropped:0").copied().unwrap_or(0) == before && spans.len() >= 2 {
            with_overlap += 1;
        }
    }
    rep.extra.insert("documents_linted".into(), json!(docs));
    rep.extra.insert("documents_with_overlapping_lints".into(), json!(with_overlap));
    if a.thorough() {
        // exhaustive: every sequence of <= 5 spans over coordinates 0..4 (15 well-formed spans)
        let mut all = vec![];
        for s in 0..=4usize {
            for e in s..=4usize {
                all.push((s, e));
            }
        }
        let mut count = 0u64;
        for len in 0..=5usize {
            let mut idx = vec![0usize; len];
            loop {
                let spans: Vec<(usize, usize)> = idx.iter().map(|i| all[*i]).collect();
                check_spans(&mut rep, &spans, "exhaustive", true);
                count += 1;
                let mut k = 0;
                while k < len {
                    idx[k] += 1;
                    if idx[k] < all.len() {
                        break;
                    }
                    idx[k] = 0;
                    k += 1;
                }
                if k == len {
                    break;
                }
            }
        }
        rep.extra.insert("exhaustive_sequences_le5_over_0_4".into(), json!(count));
    }
    rep.finish();
}

fn main() {
    let (args, corpus) = hv::cli();
    run(&args, &corpus);
}
