//! probe version
#[path = "../lsclient.rs"]
mod lsclient;
use lsclient::*;
use serde_json::{json, Value};

fn main() {
    let argv: Vec<String> = std::env::args().collect();
    let dir = argv.get(1).cloned().unwrap_or("/tmp/c07probe".into());
    let _ = std::fs::remove_dir_all(&dir);
    std::fs::create_dir_all(format!("{dir}/docs/a")).unwrap();
    let rt = runtime();
    let _g = rt.enter();
    let st = settings(&format!("{dir}/cfg/user.txt"), &format!("{dir}/fd"), &format!("{dir}/stats.txt"), json!({}));
    let mut s = Session::new(st.clone());
    let doc = format!("{dir}/docs/a/b.txt");
    let uri = format!("file://{doc}");
    let text = "Here zorgle and Zorgle and ZORGLE and blorf’s and colour and flurb.";
    std::fs::write(&doc, text).unwrap();
    s.did_open(&uri, "plaintext", text);
    println!("open: {:?}", misspelt_words(s.last_published(&uri).unwrap(), text));
    for w in ["zorgle", "Zorgle", "blorf’s", "colour", "fl\nurb"] {
        s.command("HarperAddToUserDict", vec![json!(w), json!(uri)]);
        println!("add {w:?}: {:?}", misspelt_words(s.last_published(&uri).unwrap(), text));
        println!("  file: {:?}", std::fs::read_to_string(format!("{dir}/cfg/user.txt")).unwrap());
    }
    // F20
    let doc2 = format!("{dir}/docs/a%b.txt");
    std::fs::write(&doc2, "Here quxly is.").unwrap();
    let uri2 = format!("file://{dir}/docs/a%25b.txt");
    s.did_open(&uri2, "plaintext", "Here quxly is.");
    println!("open2: {:?}", misspelt_words(s.last_published(&uri2).unwrap(), "Here quxly is."));
    std::fs::write(&doc, "Here quxly is.").unwrap();
    s.command("HarperAddToFileDict", vec![json!("quxly"), json!(uri)]);
    println!("after add to file dict of {uri}: {:?}", s.last_published(&uri).map(|d| misspelt_words(d, "Here quxly is.")));
    s.did_change(&uri2, "Here quxly is. ");
    println!("other file: {:?}", misspelt_words(s.last_published(&uri2).unwrap(), "Here quxly is. "));
    for e in std::fs::read_dir(format!("{dir}/fd")).unwrap() {
        println!("fd entry: {:?}", e.unwrap().file_name());
    }
    // untitled
    let u3 = "untitled:Untitled-1";
    s.did_open(u3, "plaintext", "Here vlimp is.");
    println!("untitled open: {:?}", misspelt_words(s.last_published(u3).unwrap(), "Here vlimp is."));
    s.command("HarperAddToUserDict", vec![json!("vlimp"), json!(u3)]);
    println!("untitled after add: {:?}", misspelt_words(s.last_published(u3).unwrap(), "Here vlimp is."));
    s.request("shutdown", Value::Null);
    println!("stats exists: {}", std::path::Path::new(&format!("{dir}/stats.txt")).exists());
    println!("cfg reqs {} other {:?}", s.config_requests, s.other_messages);
}
