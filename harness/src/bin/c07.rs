//! C07 — words added to the user / file dictionary are accepted from then on and never lost.
//! Correspondence with coq/Model/DictIO.v (extracted) on: load_dict of arbitrary file contents (L), file_dict_name (N),
//! histories on the real language server incl. restarts and REAL crash points (H), harper_wasm::Linter (W),
//! MergedDictionary equality = the test update_document uses to keep or rebuild a document's linter (M).
//! Search: the property text evaluated on the implementation (see `oracle_*`).
#[path = "../lsclient.rs"]
mod lsclient;
use harper_core::linting::{LintGroup, Linter};
use harper_core::parsers::{CollapseIdentifiers, Markdown, MarkdownOptions, PlainEnglish};
use harper_core::{Dialect, Dictionary, Document, FstDictionary, MergedDictionary, MutableDictionary, WordId, WordMetadata};
use hv::common::*;
use lsclient::*;
use lsx::dictionary_io::{file_dict_name, load_dict, save_dict};
use lsx::tower_lsp::lsp_types::Url;
use serde_json::{json, Value};
use std::collections::{BTreeMap, BTreeSet, HashMap};
use std::path::{Path, PathBuf};
use std::sync::Arc;

// ------------------------------------------------------------------------------------------------
//  encoding of cases for the model driver
// ------------------------------------------------------------------------------------------------
fn wcps(s: &str) -> String {
    let c: Vec<String> = s.chars().map(|c| (c as u32).to_string()).collect();
    format!(". {}", c.join(" ")).trim().to_string()
}
fn cps_str(s: &str) -> String {
    s.chars().map(|c| (c as u32).to_string()).collect::<Vec<_>>().join(" ")
}
fn words_field(ws: &[String]) -> String {
    ws.iter().map(|w| wcps(w)).collect::<Vec<_>>().join(" , ")
}
/// sorted as the driver sorts: lexicographic on code points
fn show_words(ws: &[String]) -> String {
    if ws.is_empty() {
        return "-".into();
    }
    let mut v: Vec<Vec<u32>> = ws.iter().map(|w| w.chars().map(|c| c as u32).collect()).collect();
    v.sort();
    v.iter()
        .map(|w| format!(". {}", w.iter().map(|c| c.to_string()).collect::<Vec<_>>().join(" ")).trim().to_string())
        .collect::<Vec<_>>()
        .join(",")
}
fn show_flags(f: &[bool]) -> String {
    if f.is_empty() {
        "-".into()
    } else {
        f.iter().map(|b| if *b { '1' } else { '0' }).collect()
    }
}
/// the Unicode table of a case: "c is_lowercase to_lowercase.."
fn ctable(chars: &BTreeSet<char>) -> String {
    chars
        .iter()
        .map(|c| {
            let l: Vec<String> = c.to_lowercase().map(|x| (x as u32).to_string()).collect();
            format!("{} {} {}", *c as u32, c.is_lowercase() as u8, l.join(" "))
        })
        .collect::<Vec<_>>()
        .join(",")
}
fn to_lower_as_written(w: &[char]) -> Vec<char> {
    if w.iter().all(|c| c.is_lowercase()) {
        w.to_vec()
    } else {
        w.iter().flat_map(|c| c.to_lowercase()).collect()
    }
}
fn norm_char(c: char) -> char {
    match c {
        '’' | '‘' | '＇' => '\'',
        _ => c,
    }
}
/// the model's word id, computed on the Rust side only for monitors and for classifying failures
fn model_id(w: &str) -> String {
    let n: Vec<char> = w.chars().map(norm_char).collect();
    to_lower_as_written(&n).into_iter().collect()
}
fn real_id(w: &str) -> WordId {
    WordId::from_word_str(w)
}

/// curated entries (canonical spelling, dialect ok) relevant to the given words
fn curated_field(words: &BTreeSet<String>) -> String {
    let cur = FstDictionary::curated();
    let mut out: BTreeMap<String, bool> = BTreeMap::new();
    for w in words {
        let ch: Vec<char> = w.chars().collect();
        for q in [ch.clone(), to_lower_as_written(&ch)] {
            if let Some(canon) = cur.get_correct_capitalization_of(&q) {
                let dok = cur.get_word_metadata(&q).map(|m| m.dialect.is_none_or(|d| d == Dialect::American)).unwrap_or(true);
                out.insert(canon.iter().collect(), dok);
            }
        }
    }
    out.iter().map(|(c, d)| format!("{} {}", *d as u8, cps_str(c))).collect::<Vec<_>>().join(",")
}

// ------------------------------------------------------------------------------------------------
//  context
// ------------------------------------------------------------------------------------------------
struct Cx {
    rt: lsx::tokio::runtime::Runtime,
    base: PathBuf,
    n: u64,
    baseline: LintGroup,
    /// model id -> real id seen (monitor: the id model and the real hash agree on equality)
    ids: HashMap<String, WordId>,
    rids: HashMap<WordId, String>,
    id_mismatch: u64,
    /// file_dict_name -> path components that produced it
    names: HashMap<String, Vec<String>>,
    crash_classes: BTreeMap<String, u64>,
    thorough: bool,
}

impl Cx {
    fn new(args: &Args) -> Cx {
        let base = PathBuf::from(format!("/tmp/w-c07-{}-{}", std::process::id(), args.seed));
        let _ = std::fs::remove_dir_all(&base);
        std::fs::create_dir_all(&base).unwrap();
        let mut baseline = LintGroup::new_curated(FstDictionary::curated(), Dialect::American);
        baseline.config.fill_with_curated();
        Cx {
            rt: runtime(),
            base,
            n: 0,
            baseline,
            ids: HashMap::new(),
            rids: HashMap::new(),
            id_mismatch: 0,
            names: HashMap::new(),
            crash_classes: BTreeMap::new(),
            thorough: args.thorough(),
        }
    }
    fn fresh_dir(&mut self) -> PathBuf {
        self.n += 1;
        let d = self.base.join(format!("h{}", self.n));
        std::fs::create_dir_all(&d).unwrap();
        d
    }
    fn note_id(&mut self, w: &str) {
        let m = model_id(w);
        let r = real_id(w);
        if let Some(r0) = self.ids.get(&m) {
            if *r0 != r {
                self.id_mismatch += 1;
            }
        } else {
            self.ids.insert(m.clone(), r);
        }
        if let Some(m0) = self.rids.get(&r) {
            if *m0 != m {
                self.id_mismatch += 1;
            }
        } else {
            self.rids.insert(r, m);
        }
    }
}

// ------------------------------------------------------------------------------------------------
//  L: load_dict on an arbitrary text file;  save/load round trip on the implementation
// ------------------------------------------------------------------------------------------------
fn words_of(d: &MutableDictionary) -> Vec<String> {
    d.words_iter().map(|w| w.iter().collect::<String>()).collect()
}
/// what a word with line breaks turns into when the file is read back
fn pieces(w: &str) -> Vec<String> {
    w.split('\n').map(|l| l.strip_suffix('\r').unwrap_or(l).to_string()).collect()
}
fn line_safe(w: &str) -> bool {
    !w.contains('\n') && !w.ends_with('\r')
}

fn run_load(cx: &mut Cx, rep: &mut Report, content: &str, origin: &str) {
    rep.eval();
    let dir = cx.fresh_dir();
    let p = dir.join("dict.txt");
    std::fs::write(&p, content).unwrap();
    let inp = json!({"kind": "load", "content": content, "origin": origin});
    let loaded = cx.rt.block_on(load_dict(&p));
    let chars: BTreeSet<char> = content.chars().collect();
    let case = format!("L {} | {}", ctable(&chars), cps_str(content));
    match loaded {
        Err(e) => {
            rep.case(&case, "E");
            rep.fail("load-error", format!("load_dict failed on a valid UTF-8 file: {e}"), inp);
        }
        Ok(d) => {
            let ws = words_of(&d);
            for w in &ws {
                cx.note_id(w);
            }
            rep.case(&case, &show_words(&ws));
            rep.nontrivial(&content);
            rep.count(&format!("load:{}_words", ws.len().min(6)));
            // "a dictionary file on disk": saving what was loaded and loading it again gives the same words
            if ws.iter().all(|w| line_safe(w)) {
                let p2 = dir.join("sub/dir/again.txt");
                let r = cx.rt.block_on(async {
                    save_dict(&p2, d.clone()).await?;
                    load_dict(&p2).await
                });
                match r {
                    Ok(d2) => {
                        let mut a = ws.clone();
                        let mut b = words_of(&d2);
                        a.sort();
                        b.sort();
                        if a != b {
                            rep.fail("save-load", format!("load(save(D)) != D: {:?} vs {:?}", a, b), inp);
                        }
                    }
                    Err(e) => rep.fail("save-load", format!("save/load failed: {e}"), inp),
                }
            } else {
                rep.count("load:word_ending_in_CR");
            }
        }
    }
    let _ = std::fs::remove_dir_all(&dir);
}

// ------------------------------------------------------------------------------------------------
//  N: file_dict_name
// ------------------------------------------------------------------------------------------------
fn comps(p: &Path) -> Vec<String> {
    p.components().filter(|c| !matches!(c, std::path::Component::RootDir)).map(|c| c.as_os_str().to_string_lossy().to_string()).collect()
}
/// the components cut at every '%' (Coq: C07Collide.pct_split)
fn pct_split(c: &[String]) -> Vec<String> {
    c.iter().flat_map(|x| x.split('%').map(|p| p.to_string()).collect::<Vec<_>>()).collect()
}
/// C: do two paths share their file dictionary?  real file_dict_name on both vs C07Collide.x_f20_collide
fn run_collide(rep: &mut Report, p: &str, q: &str, origin: &str) {
    let (Ok(up), Ok(uq)) = (Url::from_file_path(p), Url::from_file_path(q)) else { return };
    let (Ok(dp), Ok(dq)) = (up.to_file_path(), uq.to_file_path()) else { return };
    let (Some(sp), Some(sq)) = (dp.to_str(), dq.to_str()) else { return };
    rep.eval();
    let same = match (file_dict_name(&up), file_dict_name(&uq)) {
        (Ok(a), Ok(b)) => a == b,
        (Err(_), Err(_)) => true,
        _ => false,
    };
    rep.case(&format!("C {} | {}", cps_str(sp), cps_str(sq)), if same { "1" } else { "0" });
    rep.nontrivial(&format!("{sp}|{sq}"));
    let (cp, cq) = (comps(&dp), comps(&dq));
    rep.count(if cp == cq { "collide:same_file" } else if same { "collide:different_files_same_dictionary(F20)" } else { "collide:different_dictionaries" });
    if same != (pct_split(&cp) == pct_split(&cq)) {
        rep.fail(
            "file-dict-name-collision:unexplained",
            format!("/{} and /{}: same dictionary file = {same}, but same pieces between '%' = {}", cp.join("/"), cq.join("/"), !same),
            json!({"kind": "collide", "p": p, "q": q, "origin": origin}),
        );
    }
}
fn run_name(cx: &mut Cx, rep: &mut Report, path: &str, origin: &str) {
    let Ok(url) = Url::from_file_path(path) else {
        rep.count("name:not_a_file_url");
        return;
    };
    let Ok(decoded) = url.to_file_path() else {
        rep.count("name:no_file_path");
        return;
    };
    let Some(dec) = decoded.to_str().map(|s| s.to_string()) else { return };
    rep.eval();
    if dec != path {
        rep.count("name:url_roundtrip_normalised_the_path");
    }
    let inp = json!({"kind": "name", "path": path, "origin": origin});
    match file_dict_name(&url) {
        Err(e) => {
            rep.case(&format!("N {}", cps_str(&dec)), "E");
            if comps(&decoded).is_empty() {
                // since 08b9da8: a URL whose path is just the root names no file and has no file dictionary
                rep.count("name:url_names_no_file(no file dictionary)");
            } else {
                rep.fail("name-error", format!("file_dict_name failed: {e}"), inp);
            }
        }
        Ok(n) => {
            let n = n.to_string_lossy().to_string();
            rep.case(&format!("N {}", cps_str(&dec)), format!("= {}", cps_str(&n)).trim());
            rep.nontrivial(&dec);
            let c = comps(&decoded);
            rep.count(if dec.contains('%') { "name:with_percent" } else { "name:plain" });
            if let Some(c0) = cx.names.get(&n) {
                if *c0 != c {
                    // F20 = the two paths collide under the documented mangling (components joined by '%'); any
                    // other collision is a different defect
                    // (Coq: C07_f20_class — same dictionary file <-> same pieces between '%' characters; the model's decision for
                    // this very pair is compared in stream C)
                    let class = if pct_split(c0) == pct_split(&c) { "file-dict-name-collision" } else { "file-dict-name-collision:unexplained" };
                    rep.fail(
                        class,
                        format!("two different files share the dictionary file {:?}: /{} and /{}", n, c0.join("/"), c.join("/")),
                        json!({"kind": "names", "paths": [format!("/{}", c0.join("/")), path], "origin": origin}),
                    );
                }
            } else {
                cx.names.insert(n, c);
            }
        }
    }
}

// ------------------------------------------------------------------------------------------------
//  H: histories on the language server
// ------------------------------------------------------------------------------------------------
#[derive(Clone, Debug, PartialEq)]
enum Scope {
    User,
    File(usize),
}
#[derive(Clone, Debug)]
enum Op {
    Add(Scope, String),
    /// add commands whose handlers run concurrently (requests that arrive together), for the same or for different
    /// dictionaries; since cfbe845 they are serialised by Backend::dict_write_lock, so all of them must take effect
    Par(Vec<(Scope, String)>),
    /// write the dictionary file with the real save_dict (stands for a sequence of adds)
    Seed(Scope, Vec<String>),
    /// the dictionary file is written by hand with this exact content (no final newline, CRLF, ...)
    Raw(Scope, String),
    Lint(usize, String),
    /// didOpen with an explicit language id, also for a document that is open already (Coq: C07Lang.LOpen)
    Open(usize, String, String),
    /// didChange, also for a document that is not open (C07Lang.LChange)
    Change(usize, String),
    /// didClose
    Close(usize),
    Restart,
    /// the add runs in a child process that is killed on entering the `when`-th `syscall`
    Crash(Scope, String, String, u32),
}
#[derive(Clone, Debug)]
struct Hist {
    lang: String,
    /// "f:<relative path>" or "u:<name>"
    urls: Vec<String>,
    ops: Vec<Op>,
}

fn scope_json(s: &Scope) -> Value {
    match s {
        Scope::User => json!("user"),
        Scope::File(i) => json!(i),
    }
}
fn scope_from(v: &Value) -> Scope {
    match v.as_u64() {
        Some(i) => Scope::File(i as usize),
        None => Scope::User,
    }
}
fn hist_json(h: &Hist, origin: &str) -> Value {
    let ops: Vec<Value> = h
        .ops
        .iter()
        .map(|o| match o {
            Op::Add(s, w) => json!(["add", scope_json(s), w]),
            Op::Par(v) => json!(["par", v.iter().map(|(s, w)| json!([scope_json(s), w])).collect::<Vec<_>>()]),
            Op::Seed(s, ws) => json!(["seed", scope_json(s), ws]),
            Op::Raw(s, c) => json!(["raw", scope_json(s), c]),
            Op::Lint(u, t) => json!(["lint", u, t]),
            Op::Open(u, l, t) => json!(["open", u, l, t]),
            Op::Change(u, t) => json!(["change", u, t]),
            Op::Close(u) => json!(["close", u]),
            Op::Restart => json!(["restart"]),
            Op::Crash(s, w, sc, n) => json!(["crash", scope_json(s), w, sc, n]),
        })
        .collect();
    json!({"kind": "ls", "lang": h.lang, "urls": h.urls, "ops": ops, "origin": origin})
}
fn hist_from(v: &Value) -> Option<Hist> {
    let urls = v["urls"].as_array()?.iter().filter_map(|u| u.as_str().map(|s| s.to_string())).collect();
    let mut ops = vec![];
    for o in v["ops"].as_array()? {
        let a = o.as_array()?;
        match a.first()?.as_str()? {
            "add" => ops.push(Op::Add(scope_from(&a[1]), a[2].as_str()?.to_string())),
            "par" => ops.push(Op::Par(a[1].as_array()?.iter().filter_map(|x| Some((scope_from(&x[0]), x[1].as_str()?.to_string()))).collect())),
            "seed" => ops.push(Op::Seed(scope_from(&a[1]), a[2].as_array()?.iter().filter_map(|x| x.as_str().map(|s| s.to_string())).collect())),
            "raw" => ops.push(Op::Raw(scope_from(&a[1]), a[2].as_str()?.to_string())),
            "lint" => ops.push(Op::Lint(a[1].as_u64()? as usize, a[2].as_str()?.to_string())),
            "open" => ops.push(Op::Open(a[1].as_u64()? as usize, a[2].as_str()?.to_string(), a[3].as_str()?.to_string())),
            "change" => ops.push(Op::Change(a[1].as_u64()? as usize, a[2].as_str()?.to_string())),
            "close" => ops.push(Op::Close(a[1].as_u64()? as usize)),
            "restart" => ops.push(Op::Restart),
            "crash" => ops.push(Op::Crash(scope_from(&a[1]), a[2].as_str()?.to_string(), a[3].as_str()?.to_string(), a[4].as_u64()? as u32)),
            _ => return None,
        }
    }
    Some(Hist { lang: v["lang"].as_str().unwrap_or("plaintext").to_string(), urls, ops })
}

struct DocUrl {
    uri: String,
    /// decoded absolute path for file: urls
    path: Option<String>,
    /// identity of the file: its normalised path
    file_key: String,
}

fn is_spelling_msg(m: &str) -> bool {
    m.starts_with("Did you mean “") || m.starts_with("Did you mean to spell “")
}

/// (line, utf16 column) of a char index; lines are separated by LF only (pos_conv's convention)
fn pos_of(src: &[char], idx: usize) -> (u64, u64) {
    let mut line = 0u64;
    let mut col = 0u64;
    for c in &src[..idx.min(src.len())] {
        if *c == '\n' {
            line += 1;
            col = 0;
        } else {
            col += c.len_utf16() as u64;
        }
    }
    (line, col)
}

struct Tokens {
    words: Vec<String>,
    ranges: Vec<(u64, u64, u64, u64)>,
    spans: Vec<(usize, usize)>,
}
fn word_tokens(lang: &str, text: &str) -> Tokens {
    let dict = FstDictionary::curated();
    let doc = if lang == "markdown" { Document::new(text, &Markdown::default(), &dict) } else { Document::new(text, &PlainEnglish, &dict) };
    let src: Vec<char> = text.chars().collect();
    let mut t = Tokens { words: vec![], ranges: vec![], spans: vec![] };
    for tok in doc.tokens() {
        if tok.kind.is_word() {
            let (a, b) = (tok.span.start, tok.span.end);
            if a <= b && b <= src.len() {
                t.words.push(src[a..b].iter().collect());
                let (l0, c0) = pos_of(&src, a);
                let (l1, c1) = pos_of(&src, b);
                t.ranges.push((l0, c0, l1, c1));
                t.spans.push((a, b));
            }
        }
    }
    t
}

// ---- source-code documents (goal: identifier dictionaries in the per-document state; Coq: Model/C07Ident.v) ----
const SRC_LANGS: &[&str] = &["rust", "python", "c"];
fn is_src_lang(lang: &str) -> bool {
    harper_comments::CommentParser::new_from_language_id(lang, MarkdownOptions::default()).is_some()
}
/// the words of create_ident_dict(text): what update_document merges behind [curated; user; file]
fn ident_words(lang: &str, text: &str) -> Vec<String> {
    let src: Vec<char> = text.chars().collect();
    harper_comments::CommentParser::new_from_language_id(lang, MarkdownOptions::default())
        .and_then(|p| p.create_ident_dict(&src))
        .map(|d| words_of(&d))
        .unwrap_or_default()
}
fn mutable_of(ws: &[String]) -> MutableDictionary {
    let mut d = MutableDictionary::new();
    d.extend_words(ws.iter().map(|w| (w.chars().collect::<Vec<char>>(), WordMetadata::default())));
    d
}
/// [curated; extra children..]
fn merged_with(children: Vec<MutableDictionary>) -> Arc<MergedDictionary> {
    let mut m = MergedDictionary::new();
    m.add_dictionary(FstDictionary::curated());
    for c in children {
        m.add_dictionary(Arc::new(c));
    }
    Arc::new(m)
}
fn src_document(lang: &str, text: &str, dict: &Arc<MergedDictionary>) -> Document {
    let inner = harper_comments::CommentParser::new_from_language_id(lang, MarkdownOptions::default()).expect("source language");
    let d: Arc<dyn Dictionary> = dict.clone();
    let parser = CollapseIdentifiers::new(Box::new(inner), Box::new(d));
    Document::new(text, &parser, dict.as_ref())
}
fn tokens_of_doc(doc: &Document, text: &str) -> Tokens {
    let src: Vec<char> = text.chars().collect();
    let mut t = Tokens { words: vec![], ranges: vec![], spans: vec![] };
    for tok in doc.tokens() {
        if tok.kind.is_word() {
            let (a, b) = (tok.span.start, tok.span.end);
            if a <= b && b <= src.len() {
                t.words.push(src[a..b].iter().collect());
                let (l0, c0) = pos_of(&src, a);
                let (l1, c1) = pos_of(&src, b);
                t.ranges.push((l0, c0, l1, c1));
                t.spans.push((a, b));
            }
        }
    }
    t
}
/// lints of a source text with [curated; identifiers] only (no added words), straight from harper-core
fn baseline_lints_src(lang: &str, text: &str, ids: &[String]) -> Vec<(Diag, bool)> {
    let dict = merged_with(vec![mutable_of(ids)]);
    let doc = src_document(lang, text, &dict);
    let mut group = LintGroup::new_curated(dict.clone(), Dialect::American);
    group.config.fill_with_curated();
    let src: Vec<char> = text.chars().collect();
    group
        .lint(&doc)
        .into_iter()
        .map(|l| {
            let (l0, c0) = pos_of(&src, l.span.start);
            let (l1, c1) = pos_of(&src, l.span.end);
            (((l0, c0, l1, c1), l.message.clone()), l.lint_kind.is_spelling())
        })
        .collect()
}
/// a source text: the prose as comment lines, then one definition per identifier
fn to_source(lang: &str, prose: &str, idents: &[String]) -> String {
    let marker = match lang {
        "python" => "#",
        _ => "//",
    };
    let mut s = String::new();
    for l in prose.split('\n') {
        s.push_str(marker);
        if !l.is_empty() {
            s.push(' ');
            s.push_str(l);
        }
        s.push('\n');
    }
    for id in idents {
        match lang {
            "python" => s.push_str(&format!("def {id}():\n    pass\n")),
            "c" => s.push_str(&format!("int {id}(void) {{ return 0; }}\n")),
            _ => s.push_str(&format!("fn {id}() {{}}\n")),
        }
    }
    s
}

// ---- the language of an open document (Coq: Model/C07Lang.v) ----
/// char index of an LSP position (inverse of pos_of)
fn idx_of(src: &[char], line: u64, col: u64) -> Option<usize> {
    let (mut l, mut c) = (0u64, 0u64);
    for (i, ch) in src.iter().enumerate() {
        if l == line && c == col {
            return Some(i);
        }
        if *ch == '\n' {
            l += 1;
            c = 0;
        } else {
            c += ch.len_utf16() as u64;
        }
    }
    if l == line && c == col { Some(src.len()) } else { None }
}
const PLAIN_LANGS: &[&str] = &["plaintext", "text", "mail", "markdown"];
/// the text as every language in play reads it, with the dictionaries as they are on disk now:
/// "k P toks" (no identifier handling) / "k S ids ! toks" (tree-sitter language) / "k X" (harper-ls has no parser)
fn lang_alts(cx: &mut Cx, rep: &mut Report, langs: &[String], text: &str, user: &str, fdict: Option<PathBuf>, chars: &mut BTreeSet<char>, allwords: &mut BTreeSet<String>) -> String {
    lang_readings(cx, rep, langs, text, user, fdict, chars, allwords).0
}
/// ... and per language (identifiers, Word tokens), None = no parser
fn lang_readings(cx: &mut Cx, rep: &mut Report, langs: &[String], text: &str, user: &str, fdict: Option<PathBuf>, chars: &mut BTreeSet<char>, allwords: &mut BTreeSet<String>) -> (String, Vec<Option<(Vec<String>, Vec<String>)>>) {
    let mut out: Vec<String> = vec![];
    let mut readings: Vec<Option<(Vec<String>, Vec<String>)>> = vec![];
    let du = cx.rt.block_on(load_dict(user)).unwrap_or_else(|_| MutableDictionary::new());
    let df = match fdict {
        Some(p) => cx.rt.block_on(load_dict(&p)).unwrap_or_else(|_| MutableDictionary::new()),
        None => MutableDictionary::new(),
    };
    for (k, lang) in langs.iter().enumerate() {
        if is_src_lang(lang) {
            let src: Vec<char> = text.chars().collect();
            let idd = harper_comments::CommentParser::new_from_language_id(lang, MarkdownOptions::default()).and_then(|p| p.create_ident_dict(&src));
            match idd {
                Some(d) => {
                    let ids = words_of(&d);
                    let now = merged_with(vec![du.clone(), df.clone(), mutable_of(&ids)]);
                    let toks = tokens_of_doc(&src_document(lang, text, &now), text).words;
                    for w in ids.iter().chain(toks.iter()) {
                        chars.extend(w.chars());
                        allwords.insert(w.clone());
                        cx.note_id(w);
                    }
                    out.push(format!("{k} S {} ! {}", words_field(&ids), words_field(&toks)));
                    readings.push(Some((ids, toks)));
                }
                None => {
                    // hypothesis lop_ok: whether a language has identifiers is a function of the language id
                    rep.monitor("lang:create_ident_dict_failed_for_a_tree_sitter_language", 1);
                    out.push(format!("{k} X"));
                    readings.push(None);
                }
            }
        } else if PLAIN_LANGS.contains(&lang.as_str()) {
            let toks = word_tokens(lang, text).words;
            for w in &toks {
                chars.extend(w.chars());
                allwords.insert(w.clone());
                cx.note_id(w);
            }
            out.push(format!("{k} P {}", words_field(&toks)));
            readings.push(Some((vec![], toks)));
        } else {
            out.push(format!("{k} X"));
            readings.push(None);
        }
    }
    (out.join(" / "), readings)
}

type Diag = ((u64, u64, u64, u64), String);
fn diags_of(v: &Value) -> Vec<Diag> {
    let mut out = vec![];
    if let Some(a) = v.as_array() {
        for d in a {
            let r = &d["range"];
            out.push((
                (
                    r["start"]["line"].as_u64().unwrap_or(0),
                    r["start"]["character"].as_u64().unwrap_or(0),
                    r["end"]["line"].as_u64().unwrap_or(0),
                    r["end"]["character"].as_u64().unwrap_or(0),
                ),
                d["message"].as_str().unwrap_or("").to_string(),
            ));
        }
    }
    out
}

/// lints of the text with the curated dictionary only, straight from harper-core: (range, message, is_spelling)
fn baseline_lints(cx: &mut Cx, lang: &str, text: &str) -> Vec<(Diag, bool)> {
    let dict = FstDictionary::curated();
    let doc = if lang == "markdown" { Document::new(text, &Markdown::default(), &dict) } else { Document::new(text, &PlainEnglish, &dict) };
    let src: Vec<char> = text.chars().collect();
    let lints = cx.baseline.lint(&doc);
    lints
        .into_iter()
        .map(|l| {
            let (l0, c0) = pos_of(&src, l.span.start);
            let (l1, c1) = pos_of(&src, l.span.end);
            (((l0, c0, l1, c1), l.message.clone()), l.lint_kind.is_spelling())
        })
        .collect()
}

fn read_obs(p: &Path) -> (String, Option<Vec<u8>>) {
    // -> (model encoding of the observed content, raw bytes)
    match std::fs::read(p) {
        Err(_) => ("n".into(), None),
        Ok(b) => match std::str::from_utf8(&b) {
            Ok(s) => (format!("c {}", cps_str(s)).trim().to_string(), Some(b)),
            Err(e) => {
                let s = std::str::from_utf8(&b[..e.valid_up_to()]).unwrap();
                (format!("t {}", cps_str(s)).trim().to_string(), Some(b))
            }
        },
    }
}

fn hexs(s: &str) -> String {
    s.as_bytes().iter().map(|b| format!("{b:02x}")).collect()
}
fn unhex(s: &str) -> String {
    let b: Vec<u8> = (0..s.len() / 2).map(|i| u8::from_str_radix(&s[2 * i..2 * i + 2], 16).unwrap_or(0)).collect();
    String::from_utf8_lossy(&b).to_string()
}

/// child mode: one add-word command on a fresh server, meant to be killed half-way by strace.
/// The server is set up first; then the child says "R" and waits for a byte on stdin, so that the parent can
/// attach strace and the injection counters only see the system calls of the command itself.
fn child_add(a: &[String]) {
    use std::io::{Read, Write};
    let rt = runtime();
    let _g = rt.enter();
    let st = settings(&a[0], &a[1], &a[2], json!({}));
    let mut s = Session::new(st);
    let cmd = if a[3] == "user" { "HarperAddToUserDict" } else { "HarperAddToFileDict" };
    print!("R");
    let _ = std::io::stdout().flush();
    let mut b = [0u8; 1];
    let _ = std::io::stdin().read(&mut b);
    s.command(cmd, vec![json!(unhex(&a[5])), json!(a[4])]);
    std::process::exit(0);
}

/// the system calls one crash class stands for
fn syscall_set(class: &str) -> &'static str {
    match class {
        "open" | "openat" => "open,openat,creat",
        "mkdir" => "mkdir,mkdirat",
        "write" => "write,pwrite64,writev",
        "close" => "close",
        "rename" => "rename,renameat,renameat2",
        "sync" => "fsync,fdatasync",
        "unlink" => "unlink,unlinkat",
        _ => "openat",
    }
}
fn tracer_pid(pid: u32) -> u32 {
    std::fs::read_to_string(format!("/proc/{pid}/status"))
        .ok()
        .and_then(|s| s.lines().find(|l| l.starts_with("TracerPid:")).and_then(|l| l[10..].trim().parse().ok()))
        .unwrap_or(0)
}

/// Run the add in a child that is killed (SIGKILL) on entering the `when`-th system call of the class, counted
/// per thread from the moment the command starts.  Some(true) = killed, Some(false) = the command completed
/// (there is no such system call), None = strace could not be used.
fn crash_child(user: &str, fd: &str, stats: &str, scope: &str, uri: &str, word: &str, class: &str, when: u32) -> Option<bool> {
    use std::io::{Read, Write};
    use std::process::{Command, Stdio};
    let exe = std::env::current_exe().ok()?;
    let mut child = Command::new(exe)
        .args(["child-add", user, fd, stats, scope, uri, &hexs(word)])
        .stdin(Stdio::piped())
        .stdout(Stdio::piped())
        .stderr(Stdio::null())
        .spawn()
        .ok()?;
    let mut b = [0u8; 1];
    if child.stdout.as_mut()?.read_exact(&mut b).is_err() {
        let _ = child.kill();
        let _ = child.wait();
        return None;
    }
    let pid = child.id();
    let set = syscall_set(class);
    let tracer = Command::new("strace")
        .args(["-f", "-qq", "-o", "/dev/null", "-p", &pid.to_string(), "-e", &format!("trace={set}"), "-e", &format!("inject={set}:signal=SIGKILL:when={when}")])
        .stdin(Stdio::null())
        .stdout(Stdio::null())
        .stderr(Stdio::null())
        .spawn();
    let Ok(mut tracer) = tracer else {
        let _ = child.kill();
        let _ = child.wait();
        return None;
    };
    let mut attached = false;
    for _ in 0..1000 {
        if tracer_pid(pid) != 0 {
            attached = true;
            break;
        }
        std::thread::sleep(std::time::Duration::from_millis(2));
    }
    if !attached {
        let _ = child.kill();
        let _ = child.wait();
        let _ = tracer.kill();
        let _ = tracer.wait();
        return None;
    }
    // every thread of the child is attached a moment after the first one
    std::thread::sleep(std::time::Duration::from_millis(30));
    if let Some(mut si) = child.stdin.take() {
        let _ = si.write_all(b"g");
    }
    let status = child.wait().ok()?;
    let _ = tracer.wait();
    Some(!status.success())
}

/// Run the add in a child under `strace -f -y` WITHOUT injection and return the system calls that touch `<dict>.tmp`, in
/// the order in which they were entered: o = openat(.., O_CREAT..), w = write, s = fsync/fdatasync, r = rename.
fn trace_child(user: &str, fd: &str, stats: &str, scope: &str, uri: &str, word: &str, tmp_path: &str, log: &Path) -> Option<Vec<char>> {
    use std::io::{Read, Write};
    use std::process::{Command, Stdio};
    let exe = std::env::current_exe().ok()?;
    let mut child = Command::new(exe)
        .args(["child-add", user, fd, stats, scope, uri, &hexs(word)])
        .stdin(Stdio::piped())
        .stdout(Stdio::piped())
        .stderr(Stdio::null())
        .spawn()
        .ok()?;
    let mut b = [0u8; 1];
    if child.stdout.as_mut()?.read_exact(&mut b).is_err() {
        let _ = child.kill();
        let _ = child.wait();
        return None;
    }
    let pid = child.id();
    let tracer = Command::new("strace")
        .args(["-f", "-qq", "-y", "-s", "0", "-o", log.to_str()?, "-p", &pid.to_string(), "-e", "trace=open,openat,creat,write,pwrite64,writev,fsync,fdatasync,rename,renameat,renameat2"])
        .stdin(Stdio::null())
        .stdout(Stdio::null())
        .stderr(Stdio::null())
        .spawn();
    let Ok(mut tracer) = tracer else {
        let _ = child.kill();
        let _ = child.wait();
        return None;
    };
    let mut attached = false;
    for _ in 0..1000 {
        if tracer_pid(pid) != 0 {
            attached = true;
            break;
        }
        std::thread::sleep(std::time::Duration::from_millis(2));
    }
    if !attached {
        let _ = child.kill();
        let _ = child.wait();
        let _ = tracer.kill();
        let _ = tracer.wait();
        return None;
    }
    std::thread::sleep(std::time::Duration::from_millis(30));
    if let Some(mut si) = child.stdin.take() {
        let _ = si.write_all(b"g");
    }
    let status = child.wait().ok()?;
    let _ = tracer.wait();
    if !status.success() {
        return None;
    }
    let text = std::fs::read_to_string(log).ok()?;
    let mut out = vec![];
    for l in text.lines() {
        if !l.contains(tmp_path) || l.contains(" resumed>") {
            continue;
        }
        let call = l.split_whitespace().nth(1).unwrap_or("");
        let name = call.split('(').next().unwrap_or("");
        match name {
            "open" | "openat" | "creat" => out.push('o'),
            "write" | "pwrite64" | "writev" => out.push('w'),
            "fsync" | "fdatasync" => out.push('s'),
            "rename" | "renameat" | "renameat2" => out.push('r'),
            _ => {}
        }
    }
    Some(out)
}
/// open, one or more writes, ONE fsync, the rename, nothing after it (Coq: C07Power.x_order_ok; C07_power_order)
fn order_ok(t: &[char]) -> bool {
    let s: String = t.iter().collect();
    let Some(rest) = s.strip_prefix('o') else { return false };
    let w = rest.chars().take_while(|c| *c == 'w').count();
    w >= 1 && &rest[w..] == "sr"
}
/// S: the system calls of one real save_dict (power-loss model: the data of <name>.tmp is durable before the rename)
fn run_order(cx: &mut Cx, rep: &mut Report, seed_words: usize, word: &str, file_scope: bool, origin: &str) {
    rep.eval();
    let dir = cx.fresh_dir();
    let d = dir.to_str().unwrap().to_string();
    let user = format!("{d}/cfg/user.txt");
    let fd = format!("{d}/fd");
    let stats = format!("{d}/stats.txt");
    let doc = format!("{d}/docs/a.txt");
    let _ = std::fs::create_dir_all(format!("{d}/docs"));
    let _ = std::fs::write(&doc, "text");
    let url = Url::from_file_path(&doc).unwrap();
    let target = if file_scope { Path::new(&fd).join(file_dict_name(&url).unwrap()) } else { PathBuf::from(&user) };
    let seed: Vec<String> = (0..seed_words).map(|i| format!("w{}x{}", i, "qz".repeat(1 + i % 4))).collect();
    if !seed.is_empty() {
        let _ = cx.rt.block_on(save_dict(&target, mutable_of(&seed)));
    }
    let tmp = format!("{}.tmp", target.to_str().unwrap());
    let log = dir.join("strace.log");
    let inp = json!({"kind": "order", "seed_words": seed_words, "word": word, "file": file_scope, "origin": origin});
    match trace_child(&user, &fd, &stats, if file_scope { "file" } else { "user" }, url.as_str(), word, &tmp, &log) {
        None => rep.monitor("strace_unavailable", 1),
        Some(t) => {
            let enc: Vec<&str> = t.iter().map(|c| match c { 'o' => "o", 'w' => "w", 's' => "s", _ => "r" }).collect();
            rep.case(&format!("S {}", enc.join(" ")), "1");
            rep.nontrivial(&format!("order {seed_words} {word} {file_scope}"));
            rep.count(&format!("order:{}_write_calls", t.iter().filter(|c| **c == 'w').count().min(4)));
            rep.monitor("syscall_order:saves_traced", 1);
            // the word must be there afterwards (the trace is that of a save that worked)
            let now = cx.rt.block_on(load_dict(&target)).map(|d| words_of(&d)).unwrap_or_default();
            if !now.iter().any(|w| w == word) {
                rep.fail("reload", format!("the traced add of {:?} did not reach the dictionary file", word), inp.clone());
            }
            if !order_ok(&t) {
                rep.monitor("syscall_order:violations", 1);
                rep.fail(
                    "syscall-order",
                    format!("save_dict's system calls on <name>.tmp were {:?}; expected open, write+, fsync, rename: without the fsync before the rename a power loss can leave an empty or partial dictionary (Coq: C07_power_nosync_refuted)", enc.join(" ")),
                    inp,
                );
            }
        }
    }
    let _ = std::fs::remove_dir_all(&dir);
}

struct Expect {
    /// target key ("user" or the file's normalised path) -> words added so far, in order
    added: BTreeMap<String, Vec<String>>,
}

fn run_hist(cx: &mut Cx, rep: &mut Report, h: &Hist, origin: &str) {
    rep.eval();
    let dir = cx.fresh_dir();
    let dirs = dir.to_str().unwrap().to_string();
    let user = format!("{dirs}/cfg/user.txt");
    let fd = format!("{dirs}/fd");
    let stats = format!("{dirs}/stats.txt");
    let inp = hist_json(h, origin);
    let _g = cx.rt.enter();
    let st = settings(&user, &fd, &stats, json!({}));
    // urls
    let mut urls: Vec<DocUrl> = vec![];
    for u in &h.urls {
        if let Some(rel) = u.strip_prefix("f:") {
            let p = format!("{dirs}/docs/{rel}");
            match Url::from_file_path(&p) {
                Ok(url) => {
                    let dec = url.to_file_path().ok().and_then(|d| d.to_str().map(|s| s.to_string()));
                    let key = dec.as_ref().map(|d| comps(Path::new(d)).join("/")).unwrap_or_default();
                    urls.push(DocUrl { uri: url.to_string(), path: dec, file_key: key });
                }
                Err(_) => {
                    rep.count("hist:bad_url_skipped");
                    return;
                }
            }
        } else {
            let name = u.strip_prefix("u:").unwrap_or(u);
            urls.push(DocUrl { uri: format!("untitled:{name}"), path: None, file_key: format!("untitled:{name}") });
        }
    }
    let key_of = |s: &Scope| -> Option<String> {
        match s {
            Scope::User => Some("user".to_string()),
            Scope::File(i) => urls.get(*i).and_then(|u| u.path.as_ref().map(|_| u.file_key.clone())),
        }
    };
    let name_of_key = |k: &str| -> String {
        if k == "user" {
            "user".to_string()
        } else {
            (0..urls.len()).find(|i| urls[*i].file_key == k).map(|i| h.urls[i].clone()).unwrap_or_else(|| k.to_string())
        }
    };
    let dict_path = |s: &Scope| -> Option<PathBuf> {
        match s {
            Scope::User => Some(PathBuf::from(&user)),
            Scope::File(i) => {
                let u = urls.get(*i)?;
                u.path.as_ref()?;
                let url: Url = u.uri.parse().ok()?;
                Some(Path::new(&fd).join(file_dict_name(&url).ok()?))
            }
        }
    };

    let mut sess = Session::new(st.clone());
    let mut opened: BTreeSet<usize> = BTreeSet::new();
    let mut chars: BTreeSet<char> = BTreeSet::new();
    let mut allwords: BTreeSet<String> = BTreeSet::new();
    let mut case_ops: Vec<String> = vec![];
    let mut impl_ops: Vec<String> = vec![];
    let mut exp = Expect { added: BTreeMap::new() };
    // (op index, target key, word) in order, for classifying failures
    let mut add_log: Vec<(usize, String, String)> = vec![];
    let mut n_lints = 0;
    let mut n_adds = 0;
    let mut crashed = false;
    let src_lang = is_src_lang(&h.lang);
    // histories with explicit didOpen (any language id) / didChange / didClose: every check goes through the language model
    // (case ops o / g / h / x); the languages in play, by index
    let lang_hist = h.ops.iter().any(|o| matches!(o, Op::Open(..) | Op::Change(..) | Op::Close(..)));
    let mut langs: Vec<String> = vec![h.lang.clone()];
    for o in &h.ops {
        if let Op::Open(_, l, _) = o {
            if !langs.contains(l) {
                langs.push(l.clone());
            }
        }
    }
    let mut next_ver: i64 = 0;
    // mirror of DocumentState.language_id for the `language` oracle
    let mut lang_state: BTreeMap<usize, String> = BTreeMap::new();
    // the text each open document was last checked with (the copy on disk the add commands re-read)
    let mut last_text: BTreeMap<usize, String> = BTreeMap::new();
    // the update_document_from_file an add command makes for the document it was given, if that document is open
    // (an untitled: url has no file; a document that is not open is dropped again): model op `u`
    let hidden_update = |ui: usize, opened: &BTreeSet<usize>, last_text: &BTreeMap<usize, String>, chars: &mut BTreeSet<char>| -> Option<String> {
        if !opened.contains(&ui) || urls.get(ui).map(|u| u.path.is_none()).unwrap_or(true) {
            return None;
        }
        let text = last_text.get(&ui)?;
        if src_lang {
            let ids = ident_words(&h.lang, text);
            for i in &ids {
                chars.extend(i.chars());
            }
            Some(format!("u {} : S : {}", ui, words_field(&ids)))
        } else {
            Some(format!("u {} : P", ui))
        }
    };

    for (oi, op) in h.ops.iter().enumerate() {
        let op_eff: Op = match op {
            Op::Lint(ui, t) if lang_hist => {
                if opened.contains(ui) { Op::Change(*ui, t.clone()) } else { Op::Open(*ui, h.lang.clone(), t.clone()) }
            }
            o => o.clone(),
        };
        let op = &op_eff;
        match op {
            Op::Open(..) | Op::Change(..) => {
                let (ui, decl, text): (usize, Option<&String>, &String) = match op {
                    Op::Open(u, l, t) => (*u, Some(l), t),
                    Op::Change(u, t) => (*u, None, t),
                    _ => unreachable!(),
                };
                if ui >= urls.len() {
                    continue;
                }
                let u = &urls[ui];
                if let Some(p) = &u.path {
                    if let Some(par) = Path::new(p).parent() {
                        let _ = std::fs::create_dir_all(par);
                    }
                    let _ = std::fs::write(p, text);
                }
                next_ver += 1;
                let before = sess.published.len();
                let ok = match decl {
                    Some(l) => sess.notify("textDocument/didOpen", json!({"textDocument": {"uri": u.uri, "languageId": l, "version": next_ver, "text": text}})),
                    None => sess.notify("textDocument/didChange", json!({"textDocument": {"uri": u.uri, "version": next_ver}, "contentChanges": [{"text": text}]})),
                };
                if !ok || sess.published.len() == before {
                    rep.fail("stuck", "no diagnostics published for a checked document".into(), inp.clone());
                    return;
                }
                let (_, pd) = sess.published.last().unwrap().clone();
                let ds = diags_of(&pd);
                let had_state = opened.contains(&ui);
                opened.insert(ui);
                last_text.insert(ui, text.clone());
                let src: Vec<char> = text.chars().collect();
                let reported: Vec<String> = ds
                    .iter()
                    .filter(|(_, m)| is_spelling_msg(m))
                    .filter_map(|(r, _)| match (idx_of(&src, r.0, r.1), idx_of(&src, r.2, r.3)) {
                        (Some(a), Some(b)) if a <= b => Some(src[a..b].iter().collect::<String>()),
                        _ => None,
                    })
                    .collect();
                let (alts, readings) = lang_readings(cx, rep, &langs, text, &user, dict_path(&Scope::File(ui)), &mut chars, &mut allwords);
                // oracle `language` (Coq: C07_lang_check): the document is read in the language its state was CREATED with (the first
                // didOpen since it was last closed / the server started); no state, or a language without parser: no diagnostics
                let eff: Option<String> = lang_state.get(&ui).cloned().or(decl.cloned());
                let expected: Option<(String, usize)> = match eff {
                    Some(l) => match langs.iter().position(|x| *x == l) {
                        Some(k) if readings[k].is_some() => Some((l, k)),
                        _ => None,
                    },
                    None => None,
                };
                match &expected {
                    None => {
                        lang_state.remove(&ui);
                        if !ds.is_empty() {
                            rep.fail("language", format!("{} diagnostic(s) for {} although it has no document (not open, or opened in a language without parser) (op {oi})", ds.len(), h.urls[ui]), inp.clone());
                        }
                    }
                    Some((l, k)) => {
                        lang_state.insert(ui, l.clone());
                        let (ids, toks) = readings[*k].clone().unwrap();
                        let cur = FstDictionary::curated();
                        for t in &reported {
                            if !toks.contains(t) {
                                rep.fail("language", format!("{:?} is reported in {} (op {oi}) but is no Word token of the text read as {l}, the language the document was opened with", t, h.urls[ui]), inp.clone());
                                break;
                            }
                        }
                        for t in &toks {
                            let tc: Vec<char> = t.chars().collect();
                            let tl = to_lower_as_written(&tc);
                            let tls: String = tl.iter().collect();
                            let unknown = t.chars().all(|c| c.is_alphabetic())
                                && cur.get_word_metadata(&tc).is_none()
                                && cur.get_word_metadata(&tl).is_none()
                                && !add_log.iter().any(|(_, _, w)| real_id(w) == real_id(t) || real_id(w) == real_id(&tls))
                                && !ids.iter().any(|i| real_id(i) == real_id(t) || real_id(i) == real_id(&tls));
                            if unknown && !reported.contains(t) {
                                rep.fail("language", format!("{:?} is in no dictionary, is a Word token of {} read as {l}, and is not reported (op {oi}): the document is not read in the language it was opened with", t, h.urls[ui]), inp.clone());
                                break;
                            }
                        }
                        rep.count("oracle:language_reading_checked");
                    }
                }
                match decl {
                    Some(l) => {
                        case_ops.push(format!("o {} {} : {}", ui, langs.iter().position(|x| x == l).unwrap_or(0), alts));
                        rep.count(if had_state { "lang:didOpen_of_an_open_document" } else { "lang:didOpen" });
                        rep.count(&format!("lang:didOpen_as_{l}"));
                    }
                    None => {
                        case_ops.push(format!("g {} : {}", ui, alts));
                        rep.count(if had_state { "lang:didChange" } else { "lang:didChange_of_a_document_that_is_not_open" });
                    }
                }
                for w in &reported {
                    chars.extend(w.chars());
                }
                impl_ops.push(show_words(&reported));
                n_lints += 1;
                // oracle (accept clause): an added word in scope must not be among the reported words, in whatever language the
                // document is read (the known classes F15 / FC07b / F20 apart)
                let my_key = u.file_key.clone();
                let norm = |x: &String| -> String { x.chars().map(norm_char).collect() };
                for t in &reported {
                    let Some(pos) = add_log.iter().position(|(_, k, w)| w == t && (k == "user" || *k == my_key)) else { continue };
                    let (ai, target, _) = add_log[pos].clone();
                    let later_variant = add_log.iter().skip(pos + 1).filter(|(_, k, w)| *k == target && real_id(w) == real_id(t)).last().map(|(_, _, w)| norm(w) != norm(t)).unwrap_or(false);
                    let cross = add_log.iter().skip(pos + 1).any(|(_, k, w)| *k != target && w != t && real_id(w) == real_id(t));
                    let tc: Vec<char> = t.chars().collect();
                    let other_dialect = FstDictionary::curated().get_word_metadata(&tc).map(|m| !m.dialect.is_none_or(|d| d == Dialect::American)).unwrap_or(false);
                    if cross {
                        continue;
                    }
                    let class = if later_variant { "added-word-reported:case-collision" } else if other_dialect { "added-word-reported:dialect" } else { "added-word-reported" };
                    rep.fail(class, format!("{:?} was added (op {ai}) and is reported as misspelt in a later check (op {oi}) of {}", t, h.urls[ui]), inp.clone());
                }
            }
            Op::Close(ui) => {
                if *ui >= urls.len() {
                    continue;
                }
                sess.did_close(&urls[*ui].uri);
                opened.remove(ui);
                lang_state.remove(ui);
                case_ops.push(format!("x {ui}"));
                impl_ops.push("x".into());
                rep.count("lang:didClose");
            }
            Op::Par(adds) => {
                // adds to the same dictionary are serialised by the server's lock in an order the client does not
                // know: the outcome is order-independent unless two of them are different spellings of one id (F15:
                // the later one wins) — such a batch has no single expected outcome, the later spelling is left out
                let mut seen: Vec<(PathBuf, String)> = vec![];
                let mut todo: Vec<(Scope, String, String)> = vec![];
                for (sc, w) in adds {
                    let ui = match sc { Scope::User => 0usize, Scope::File(i) => *i };
                    if ui >= urls.len() || key_of(sc).is_none() {
                        continue;
                    }
                    let Some(p) = dict_path(sc) else { continue };
                    if seen.iter().any(|(q, x)| *q == p && x != w && (real_id(x) == real_id(w) || !line_safe(x) || !line_safe(w))) {
                        rep.count("hist:concurrent_add_left_out(other spelling of an id in the same batch)");
                        continue;
                    }
                    if seen.iter().any(|(q, _)| *q == p) {
                        rep.count("hist:concurrent_adds_to_the_same_dictionary");
                    }
                    seen.push((p, w.clone()));
                    todo.push((sc.clone(), w.clone(), urls[ui].uri.clone()));
                }
                let futs: Vec<HandlerFut> = todo
                    .iter()
                    .map(|(sc, w, uri)| {
                        let cmd = if *sc == Scope::User { "HarperAddToUserDict" } else { "HarperAddToFileDict" };
                        sess.start("workspace/executeCommand", json!({"command": cmd, "arguments": [w, uri]}), true)
                    })
                    .collect();
                if !sess.drive_all(futs) {
                    rep.fail("stuck", "concurrent add commands did not complete".into(), inp.clone());
                    return;
                }
                rep.count(&format!("hist:concurrent_adds_{}", todo.len()));
                // the outcome must be that of the adds one after the other (Coq: C07_locked_adds_serial)
                for (sc, w, _) in &todo {
                    chars.extend(w.chars());
                    allwords.insert(w.clone());
                    cx.note_id(w);
                    n_adds += 1;
                    let after = dict_path(sc).map(|p| read_obs(&p).0);
                    let tail = after.map(|o| format!(" : {o}")).unwrap_or_default();
                    match sc {
                        Scope::User => case_ops.push(format!("a : {}{}", wcps(w), tail)),
                        Scope::File(i) => case_ops.push(format!("f {} : {}{}", i, wcps(w), tail)),
                    }
                    impl_ops.push("+".into());
                    if let Some(k) = key_of(sc) {
                        exp.added.entry(k.clone()).or_default().push(w.clone());
                        add_log.push((oi, k, w.clone()));
                    }
                }
                for (sc, _, _) in &todo {
                    let ui = match sc { Scope::User => 0usize, Scope::File(i) => *i };
                    if lang_hist {
                        if opened.contains(&ui) && urls[ui].path.is_some() {
                            if let Some(text) = last_text.get(&ui).cloned() {
                                let alts = lang_alts(cx, rep, &langs, &text, &user, dict_path(&Scope::File(ui)), &mut chars, &mut allwords);
                                case_ops.push(format!("h {} : {}", ui, alts));
                                impl_ops.push("u".into());
                            }
                        }
                    } else if let Some(u) = hidden_update(ui, &opened, &last_text, &mut chars) {
                        case_ops.push(u);
                        impl_ops.push("u".into());
                    }
                }
            }
            Op::Add(sc, w) => {
                let Some(ui) = (match sc { Scope::User => Some(0usize), Scope::File(i) => Some(*i) }) else { continue };
                if ui >= urls.len() {
                    continue;
                }
                let cmd = if *sc == Scope::User { "HarperAddToUserDict" } else { "HarperAddToFileDict" };
                let uri = urls[ui].uri.clone();
                if !sess.command(cmd, vec![json!(w), json!(uri)]) {
                    rep.fail("stuck", format!("{cmd} did not complete"), inp.clone());
                    return;
                }
                chars.extend(w.chars());
                allwords.insert(w.clone());
                cx.note_id(w);
                n_adds += 1;
                // the file as it is now: the order of its lines is the order in which the hash map iterated
                let after = dict_path(sc).filter(|_| key_of(sc).is_some()).map(|p| read_obs(&p).0);
                let tail = after.map(|o| format!(" : {o}")).unwrap_or_default();
                match sc {
                    Scope::User => case_ops.push(format!("a : {}{}", wcps(w), tail)),
                    Scope::File(i) => case_ops.push(format!("f {} : {}{}", i, wcps(w), tail)),
                }
                impl_ops.push("+".into());
                if let Some(k) = key_of(sc) {
                    exp.added.entry(k.clone()).or_default().push(w.clone());
                    add_log.push((oi, k, w.clone()));
                } else {
                    rep.count("hist:add_to_file_dict_of_untitled_document(dropped by the server)");
                }
                if lang_hist {
                    if opened.contains(&ui) && urls[ui].path.is_some() {
                        if let Some(text) = last_text.get(&ui).cloned() {
                            let alts = lang_alts(cx, rep, &langs, &text, &user, dict_path(&Scope::File(ui)), &mut chars, &mut allwords);
                            case_ops.push(format!("h {} : {}", ui, alts));
                            impl_ops.push("u".into());
                            rep.count("lang:add_re-reads_an_open_document(update_document_from_file)");
                        }
                    }
                } else if let Some(u) = hidden_update(ui, &opened, &last_text, &mut chars) {
                    case_ops.push(u);
                    impl_ops.push("u".into());
                    rep.count("hist:add_re-reads_an_open_document(update_document_from_file)");
                }
            }
            Op::Seed(..) | Op::Raw(..) => {
                // "a dictionary file on disk": the file is written by hand, one word per line (Seed), or with
                // the given content, whose lines are the words (Raw)
                let (sc, content, ws): (&Scope, String, Vec<String>) = match op {
                    Op::Seed(sc, ws) => (sc, ws.iter().map(|w| format!("{w}\n")).collect(), ws.clone()),
                    Op::Raw(sc, c) => {
                        let mut ws: Vec<String> = vec![];
                        for l in c.lines() {
                            if !ws.iter().any(|w| w == l) {
                                ws.push(l.to_string());
                            }
                        }
                        (sc, c.clone(), ws)
                    }
                    _ => unreachable!(),
                };
                let ws = &ws;
                let Some(p) = dict_path(sc) else { continue };
                let Some(k) = key_of(sc) else { continue };
                if let Some(par) = p.parent() {
                    let _ = std::fs::create_dir_all(par);
                }
                if std::fs::write(&p, &content).is_err() {
                    rep.count("hist:seed_failed");
                    continue;
                }
                chars.extend(content.chars());
                for w in ws {
                    allwords.insert(w.clone());
                }
                match sc {
                    Scope::User => case_ops.push(format!("s a : c {}", cps_str(&content))),
                    Scope::File(i) => case_ops.push(format!("s f {} : c {}", i, cps_str(&content))),
                }
                impl_ops.push("s".into());
                exp.added.insert(k.clone(), ws.clone());
                add_log.retain(|(_, kk, _)| *kk != k);
                for w in ws {
                    add_log.push((oi, k.clone(), w.clone()));
                }
                rep.count(if content.is_empty() || content.ends_with('\n') { "hist:dictionary_file_written_by_hand" } else { "hist:dictionary_file_written_by_hand(no final newline)" });
            }
            Op::Restart => {
                sess.request("shutdown", Value::Null);
                drop(sess);
                sess = Session::new(st.clone());
                opened.clear();
                lang_state.clear();
                case_ops.push("r".into());
                impl_ops.push("r".into());
            }
            Op::Lint(ui, text) => {
                if *ui >= urls.len() {
                    continue;
                }
                let u = &urls[*ui];
                if let Some(p) = &u.path {
                    // keep the file on disk in step with the buffer (the add commands re-read it from disk)
                    if let Some(par) = Path::new(p).parent() {
                        let _ = std::fs::create_dir_all(par);
                    }
                    let _ = std::fs::write(p, text);
                }
                let before = sess.published.len();
                let ok = if opened.insert(*ui) { sess.did_open(&u.uri, &h.lang, text) } else { sess.did_change(&u.uri, text) };
                if !ok || sess.published.len() == before {
                    rep.fail("stuck", "no diagnostics published for a checked document".into(), inp.clone());
                    return;
                }
                let (puri, pd) = sess.published.last().unwrap().clone();
                if puri != u.uri {
                    rep.monitor("published_for_other_uri", 1);
                }
                let ds = diags_of(&pd);
                last_text.insert(*ui, text.clone());
                // a source document: its identifiers, and the Word tokens of its comments as the real parser chain
                // (CommentParser under CollapseIdentifiers) yields them with [curated; user; file; identifiers] loaded now
                let ids: Vec<String> = if src_lang { ident_words(&h.lang, text) } else { vec![] };
                let toks = if src_lang {
                    let load = |p: Option<PathBuf>| -> MutableDictionary { p.and_then(|p| cx.rt.block_on(load_dict(&p)).ok()).unwrap_or_else(MutableDictionary::new) };
                    let now = merged_with(vec![load(Some(PathBuf::from(&user))), load(dict_path(&Scope::File(*ui))), mutable_of(&ids)]);
                    tokens_of_doc(&src_document(&h.lang, text, &now), text)
                } else {
                    word_tokens(&h.lang, text)
                };
                for i in &ids {
                    chars.extend(i.chars());
                    cx.note_id(i);
                }
                let flags: Vec<bool> = toks.ranges.iter().map(|r| ds.iter().any(|(dr, m)| dr == r && is_spelling_msg(m))).collect();
                let unmatched = ds.iter().filter(|(dr, m)| is_spelling_msg(m) && !toks.ranges.contains(dr)).count();
                if unmatched > 0 {
                    rep.monitor("spelling_diagnostic_not_on_a_word_token", unmatched as u64);
                }
                for w in &toks.words {
                    chars.extend(w.chars());
                    allwords.insert(w.clone());
                    cx.note_id(w);
                }
                if src_lang {
                    case_ops.push(format!("c {} : {} : {}", ui, words_field(&ids), words_field(&toks.words)));
                    rep.count("hist:check_of_a_source_document");
                    rep.count(&format!("ident:{}_identifiers", ids.len().min(4)));
                } else {
                    case_ops.push(format!("l {} : {}", ui, words_field(&toks.words)));
                }
                impl_ops.push(show_flags(&flags));
                n_lints += 1;
                // ---------------- oracle: the property text on this check ----------------
                // (a source document: harper-core alone = [curated; identifiers of the text], no added words)
                let base = if src_lang { baseline_lints_src(&h.lang, text, &ids) } else { baseline_lints(cx, &h.lang, text) };
                let my_key = u.file_key.clone();
                let in_scope: Vec<(usize, &String)> = add_log.iter().filter(|(_, k, _)| k == "user" || *k == my_key).map(|(i, _, w)| (*i, w)).collect();
                let out_scope: Vec<&String> = add_log.iter().filter(|(_, k, _)| !(k == "user" || *k == my_key)).map(|(_, _, w)| w).collect();
                for (ti, t) in toks.words.iter().enumerate() {
                    let flagged = flags[ti];
                    let base_flag = base.iter().any(|((r, _), sp)| *sp && *r == toks.ranges[ti]);
                    if let Some((ai, _)) = in_scope.iter().find(|(_, w)| *w == t) {
                        rep.count("oracle:token_is_added_word");
                        if flagged {
                            // why? (features of the input only)
                            // (a seed or a concurrent batch logs several adds under one op index: the one of this very word is meant)
                            let target_of_add = add_log.iter().find(|(i, k, w)| i == ai && w == t && (k == "user" || *k == my_key)).map(|(_, k, _)| k.clone()).unwrap_or_default();
                            let norm = |x: &String| -> String { x.chars().map(norm_char).collect() };
                            // exactly the class C07_add_sequential excludes: a later add to the same dictionary with the same id whose
                            // spelling differs by more than the kind of apostrophe
                            // (Coq: C07_f15_accept_class — reported iff the LAST later add with its id is another spelling, and no child
                            // has the lower-cased form, and no other child has the word)
                            let pos_of_add = add_log.iter().position(|(i, k, w)| i == ai && w == t && *k == target_of_add).unwrap_or(0);
                            let later_variant = add_log.iter().skip(pos_of_add + 1).filter(|(_, k, w)| *k == target_of_add && real_id(w) == real_id(t)).last().map(|(_, _, w)| norm(w) != norm(t)).unwrap_or(false);
                            // ... or an add for ANOTHER file whose dictionary is the same file on disk (F20)
                            let phys = |k: &String| -> Option<PathBuf> {
                                if k == "user" {
                                    Some(PathBuf::from(&user))
                                } else {
                                    (0..urls.len()).find(|i| urls[*i].file_key == *k).and_then(|i| dict_path(&Scope::File(i)))
                                }
                            };
                            let cross_variant = add_log.iter().any(|(i, k, w)| i > ai && *k != target_of_add && phys(k) == phys(&target_of_add) && w != t && real_id(w) == real_id(t));
                            let cur = FstDictionary::curated();
                            let tc: Vec<char> = t.chars().collect();
                            let other_dialect = cur.get_word_metadata(&tc).map(|m| !m.dialect.is_none_or(|d| d == Dialect::American)).unwrap_or(false);
                            // (the apostrophe class was FC07a, repaired by ebb53b3: it is no known finding any more and
                            // comes last, so that an apostrophe word hit by one of the open findings is filed there)
                            let class = if later_variant {
                                "added-word-reported:case-collision"
                            } else if cross_variant {
                                "file-scope-leak"
                            } else if other_dialect {
                                "added-word-reported:dialect"
                            } else if t.chars().any(|c| norm_char(c) != c) {
                                "added-word-reported:apostrophe"
                            } else {
                                "added-word-reported"
                            };
                            let involved: Vec<String> = add_log.iter().filter(|(i, k, w)| i > ai && *k != target_of_add && phys(k) == phys(&target_of_add) && w != t && real_id(w) == real_id(t)).map(|(_, k, _)| name_of_key(k)).collect();
                            let files = if class == "file-scope-leak" { format!(" [files: {} | {}]", name_of_key(&target_of_add), involved.join(", ")) } else { String::new() };
                            rep.fail(class, format!("{:?} was added (op {ai}) and is reported as misspelt in a later check (op {oi}) of {}{files}", t, h.urls[*ui]), inp.clone());
                        }
                    } else if in_scope.iter().any(|(_, w)| real_id(w) == real_id(t)) {
                        rep.count("oracle:token_is_case_variant_of_added_word(unconstrained)");
                    } else {
                        rep.count("oracle:other_token");
                        let is_ident = ids.iter().any(|i| real_id(i) == real_id(t));
                        if is_ident {
                            rep.count("oracle:token_is_identifier_of_the_document");
                        }
                        if flagged != base_flag {
                            if is_ident {
                                // no identifier is lost by an add (Coq: C07_ident_check, C07_ident_kept)
                                rep.fail(
                                    "identifier-reported",
                                    format!("{:?} is an identifier of the source document {} and its report changed ({} -> {}) in the check (op {oi}) after {} add(s): the identifiers were not merged into the dictionary again", t, h.urls[*ui], base_flag, flagged, add_log.len()),
                                    inp.clone(),
                                );
                            } else if out_scope.iter().any(|w| real_id(w) == real_id(t)) {
                                let involved: Vec<String> = add_log.iter().filter(|(_, k, w)| !(k == "user" || *k == my_key) && real_id(w) == real_id(t)).map(|(_, k, _)| name_of_key(k)).collect();
                                rep.fail(
                                    "file-scope-leak",
                                    format!("{:?} was only added to the dictionary of another file, yet its report in {} changed ({} -> {}) [files: {} | {}]", t, h.urls[*ui], base_flag, flagged, h.urls[*ui], involved.join(", ")),
                                    inp.clone(),
                                );
                            } else {
                                // a piece of an added "word" that contains a line break?
                                let piece = in_scope.iter().any(|(_, w)| !line_safe(w) && pieces(w).iter().any(|l| real_id(l) == real_id(t)));
                                let class = if piece { "other-word-changed:newline" } else { "other-word-changed" };
                                rep.fail(class, format!("report of {:?} (never added) changed: {} -> {}", t, base_flag, flagged), inp.clone());
                            }
                        }
                    }
                }
                // all other lints unchanged
                let mut a: Vec<Diag> = base.iter().filter(|(_, sp)| !*sp).map(|(d, _)| d.clone()).collect();
                let mut b: Vec<Diag> = ds.iter().filter(|(_, m)| !is_spelling_msg(m)).cloned().collect();
                a.sort();
                b.sort();
                if a != b && add_log.is_empty() {
                    // nothing was added yet: a difference between harper-ls and harper-core is not C07's business
                    rep.monitor("ls_diagnostics_differ_from_core_before_any_add", 1);
                } else if a != b {
                    let gone: Vec<&Diag> = a.iter().filter(|x| !b.contains(x)).collect();
                    let new: Vec<&Diag> = b.iter().filter(|x| !a.contains(x)).collect();
                    // does every changed lint sit on a token that is (a case variant of) an added word in scope?
                    // (Coq: C07_view_class — what the rule bodies see of a token changes only for case variants of an added word in scope
                    // that the CURATED dictionary has no entry for: the first child wins)
                    let cur = FstDictionary::curated();
                    let view_may_change = |tw: &String| -> bool {
                        let tc: Vec<char> = tw.chars().collect();
                        cur.get_word_metadata(&tc).is_none() && in_scope.iter().any(|(_, w)| real_id(w) == real_id(tw))
                    };
                    let on_added = gone.iter().chain(new.iter()).all(|(r, _)| {
                        toks.ranges.iter().zip(&toks.words).any(|(tr, tw)| {
                            tr.0 == r.0 && tr.2 == r.2 && tr.0 == tr.2 && r.1 < tr.3 && tr.1 < r.3.max(r.1 + 1) && view_may_change(tw)
                        })
                    });
                    // (Coq: C07_fc07d_disappears / C07_fc07d_appears — a capitalisation lint on the added word disappears iff the first of
                    // user / file spells the id with an inner upper-case letter and the identifiers did not silence it already; it
                    // appears iff an identifier with an inner upper-case letter silenced it and user / file spell it without one)
                    const CAP_MSG: &str = "This sentence does not start with a capital letter";
                    let load_now = |p: Option<PathBuf>| -> MutableDictionary { p.and_then(|p| cx.rt.block_on(load_dict(&p)).ok()).unwrap_or_else(MutableDictionary::new) };
                    let now_uf = {
                        let mut m = MergedDictionary::new();
                        m.add_dictionary(Arc::new(load_now(Some(PathBuf::from(&user)))));
                        m.add_dictionary(Arc::new(load_now(dict_path(&Scope::File(*ui)))));
                        m
                    };
                    let ident_d = mutable_of(&ids);
                    let cap_explained = |r: &(u64, u64, u64, u64), appeared: bool| -> bool {
                        let Some(tw) = toks.ranges.iter().zip(&toks.words).find(|(tr, _)| tr.0 == r.0 && tr.1 == r.1).map(|(_, w)| w) else { return false };
                        let tc: Vec<char> = tw.chars().collect();
                        if cur.get_word_metadata(&tc).is_some() {
                            return false;
                        }
                        let uf = now_uf.get_correct_capitalization_of(&tc).map(|c| inner_upper(c));
                        let idv = ident_d.get_correct_capitalization_of(&tc).map(|c| inner_upper(c)).unwrap_or(false);
                        match uf {
                            None => false,
                            Some(iu) => if appeared { !iu && idv } else { iu && !idv },
                        }
                    };
                    let cap_unexplained = gone.iter().any(|(r, m)| m == CAP_MSG && !cap_explained(r, false)) || new.iter().any(|(r, m)| m == CAP_MSG && !cap_explained(r, true));
                    // ... or within 40 columns of such a token on the same line (token predicates such as
                    // is_not_plural_nominal answer differently for a word without metadata and a word with default metadata)
                    let near_added = gone.iter().chain(new.iter()).all(|(r, _)| {
                        toks.ranges.iter().zip(&toks.words).any(|(tr, tw)| {
                            tr.0 == r.0 && tr.2 == r.2 && tr.0 == tr.2 && r.1 < tr.3 + 40 && tr.1 < r.3 + 40 && view_may_change(tw)
                        })
                    });
                    let class = if cap_unexplained {
                        "other-lints-changed:capitalisation-unexplained"
                    } else if on_added {
                        "other-lints-changed:on-added-word"
                    } else if near_added {
                        "other-lints-changed:near-added-word"
                    } else {
                        "other-lints-changed"
                    };
                    rep.fail(class, format!("non-spelling lints differ from the check without added words: disappeared {:?}, appeared {:?}", gone, new), inp.clone());
                } else {
                    rep.count("oracle:other_lints_equal");
                }
            }
            Op::Crash(sc, w, syscall, when) => {
                let Some(p) = dict_path(sc) else { continue };
                let Some(k) = key_of(sc) else { continue };
                let ui = match sc { Scope::User => 0usize, Scope::File(i) => *i };
                if ui >= urls.len() {
                    continue;
                }
                sess.request("shutdown", Value::Null);
                drop(sess);
                let scope_s = if *sc == Scope::User { "user" } else { "file" };
                let killed = crash_child(&user, &fd, &stats, scope_s, &urls[ui].uri, w, syscall, *when);
                sess = Session::new(st.clone());
                opened.clear();
                lang_state.clear();
                let Some(killed) = killed else {
                    rep.monitor("strace_unavailable", 1);
                    continue;
                };
                crashed = true;
                let (obs, _) = read_obs(&p);
                // the temporary sibling save_dict writes before renaming it over the dictionary
                let mut tmp_name = p.file_name().unwrap_or_default().to_os_string();
                tmp_name.push(".tmp");
                let (obs_tmp, _) = read_obs(&p.with_file_name(tmp_name));
                rep.count(if obs_tmp == "n" { "crash:no_tmp_left" } else { "crash:tmp_left_behind(allowed)" });
                chars.extend(w.chars());
                allwords.insert(w.clone());
                match sc {
                    Scope::User => case_ops.push(format!("k a : {} : {} : {}", wcps(w), obs, obs_tmp)),
                    Scope::File(i) => case_ops.push(format!("k f {} : {} : {} : {}", i, wcps(w), obs, obs_tmp)),
                }
                impl_ops.push("k1".into());
                // oracle: a crash may lose at most the word being added
                let before: Vec<String> = exp.added.get(&k).cloned().unwrap_or_default();
                let now: Vec<String> = match cx.rt.block_on(load_dict(&p)) {
                    Ok(d) => words_of(&d),
                    Err(_) => vec![],
                };
                let lost: Vec<&String> = before.iter().filter(|b| !now.iter().any(|n| real_id(n) == real_id(b))).collect();
                let state = if !killed {
                    "completed"
                } else if obs == "n" {
                    "no-file"
                } else if obs == "c" {
                    "truncated-empty"
                } else if now.iter().any(|n| n == w) && lost.is_empty() {
                    "new"
                } else if lost.is_empty() {
                    "old"
                } else {
                    "partial"
                };
                *cx.crash_classes.entry(format!("{syscall}:{state}")).or_insert(0) += 1;
                rep.count(&format!("crash:{state}"));
                if !lost.is_empty() {
                    rep.fail(
                        "crash-loses-words",
                        format!("killed on entering {syscall} #{when} while adding {:?}: the dictionary file was left {state} and {} previously added word(s) are gone, e.g. {:?}", w, lost.len(), lost[0]),
                        inp.clone(),
                    );
                }
                // the history goes on from what is really on disk
                exp.added.insert(k.clone(), now.clone());
                add_log.retain(|(_, kk, _)| *kk != k);
                for n in &now {
                    add_log.push((oi, k.clone(), n.clone()));
                }
            }
        }
    }
    sess.request("shutdown", Value::Null);
    drop(sess);

    // ---- reload: the saved files hold exactly the words added so far ----
    let mut key_paths: BTreeMap<String, PathBuf> = BTreeMap::new();
    for i in 0..urls.len() {
        if let (Some(k), Some(p)) = (key_of(&Scope::File(i)), dict_path(&Scope::File(i))) {
            key_paths.insert(k, p);
        }
    }
    let mut dump: Vec<String> = vec![];
    let mut reload = |sc: &Scope| -> String {
        match dict_path(sc) {
            None => "~".to_string(),
            Some(p) => match cx.rt.block_on(load_dict(&p)) {
                Err(_) => "E".to_string(),
                Ok(d) => {
                    let ws = words_of(&d);
                    if let Some(k) = key_of(sc) {
                        let want: BTreeSet<&String> = exp.added.get(&k).map(|v| v.iter().collect()).unwrap_or_default();
                        let got: BTreeSet<&String> = ws.iter().collect();
                        if want != got {
                            let missing: Vec<&&String> = want.difference(&got).collect();
                            let extra: Vec<&&String> = got.difference(&want).collect();
                            let adds = exp.added.get(&k).cloned().unwrap_or_default();
                            // words added for OTHER files whose dictionary is this very file (name collision)
                            let colliding: Vec<String> = key_paths.iter().filter(|(kk, pp)| **kk != k && **pp == p).flat_map(|(kk, _)| exp.added.get(kk).cloned().unwrap_or_default()).collect();
                            let merged: Vec<&String> = adds.iter().chain(colliding.iter()).collect();
                            let leak = !colliding.is_empty()
                                && extra.iter().all(|e| colliding.iter().any(|c| c == **e || (!line_safe(c) && pieces(c).iter().any(|l| l == e.as_str()))))
                                && missing.iter().all(|m| merged.iter().any(|w| *w != **m && real_id(w) == real_id(m)));
                            let class = if leak {
                                "file-scope-leak"
                            } else if adds.iter().any(|w| !line_safe(w)) {
                                "reload:newline"
                            } else if missing.iter().all(|m| adds.iter().rev().find(|w| real_id(w) == real_id(m)).map(|w| w != **m).unwrap_or(false)) && extra.is_empty() {
                                // exactly C07_f15_reload_class: the last word added with the id of the missing one is another spelling
                                "reload:case-collision"
                            } else {
                                "reload"
                            };
                            let involved: Vec<String> = key_paths.iter().filter(|(kk, pp)| **kk != k && **pp == p).map(|(kk, _)| name_of_key(kk)).collect();
                            let files = if class == "file-scope-leak" { format!(" [files: {} | {}]", name_of_key(&k), involved.join(", ")) } else { String::new() };
                            rep.fail(class, format!("dictionary {k} reloads to {:?}; missing {:?}, unexpected {:?}{files}", got, missing, extra), inp.clone());
                        } else {
                            rep.count("oracle:reload_equal");
                        }
                    }
                    show_words(&ws)
                }
            },
        }
    };
    dump.push(reload(&Scope::User));
    for i in 0..urls.len() {
        // several urls may name the same file: the expectation is per file
        dump.push(reload(&Scope::File(i)));
    }
    for u in &urls {
        if let Some(p) = &u.path {
            chars.extend(p.chars());
        } else {
            chars.extend(u.uri.chars());
        }
    }
    let urls_field = urls
        .iter()
        .map(|u| match &u.path {
            Some(p) => format!("p {}", cps_str(p)),
            None => format!("u {}", cps_str(&u.uri)),
        })
        .collect::<Vec<_>>()
        .join(" , ");
    let case = format!("H {} | {} | {} | {}", ctable(&chars), curated_field(&allwords), urls_field, case_ops.join(" ; "));
    let impl_line = format!("{} # {}", impl_ops.join(";"), dump.join(" # "));
    rep.case(&case, &impl_line);
    rep.nontrivial(&format!("{:?}", h));
    rep.count(&format!("hist:{}_adds", n_adds.min(8)));
    rep.count(&format!("hist:{}_lints", n_lints.min(8)));
    if crashed {
        rep.count("hist:with_crash");
    }
    if h.ops.iter().any(|o| matches!(o, Op::Restart)) {
        rep.count("hist:with_restart");
    }
    rep.sample(json!({"history": inp, "impl": impl_line}));
    let _ = std::fs::remove_dir_all(&dir);
}

// ------------------------------------------------------------------------------------------------
//  W: harper_wasm::Linter (native)
// ------------------------------------------------------------------------------------------------
#[derive(Clone, Debug)]
enum WOp {
    Import(Vec<String>),
    Lint(String),
    Export,
}
fn wasm_json(ops: &[WOp], origin: &str) -> Value {
    let o: Vec<Value> = ops
        .iter()
        .map(|o| match o {
            WOp::Import(ws) => json!(["import", ws]),
            WOp::Lint(t) => json!(["lint", t]),
            WOp::Export => json!(["export"]),
        })
        .collect();
    json!({"kind": "wasm", "ops": o, "origin": origin})
}
fn wasm_from(v: &Value) -> Option<Vec<WOp>> {
    let mut ops = vec![];
    for o in v["ops"].as_array()? {
        let a = o.as_array()?;
        match a.first()?.as_str()? {
            "import" => ops.push(WOp::Import(a[1].as_array()?.iter().filter_map(|x| x.as_str().map(|s| s.to_string())).collect())),
            "lint" => ops.push(WOp::Lint(a[1].as_str()?.to_string())),
            "export" => ops.push(WOp::Export),
            _ => return None,
        }
    }
    Some(ops)
}

fn run_wasm(cx: &mut Cx, rep: &mut Report, ops: &[WOp], origin: &str) {
    rep.eval();
    let inp = wasm_json(ops, origin);
    let mut lt = harper_wasm::Linter::new(harper_wasm::Dialect::American);
    let mut chars: BTreeSet<char> = BTreeSet::new();
    let mut allwords: BTreeSet<String> = BTreeSet::new();
    let mut case_ops = vec![];
    let mut impl_ops = vec![];
    let mut imported: Vec<(usize, String)> = vec![]; // (sequence number, word)
    let mut seq = 0usize;
    for (oi, op) in ops.iter().enumerate() {
        match op {
            WOp::Import(ws) => {
                lt.import_words(ws.clone());
                for w in ws {
                    chars.extend(w.chars());
                    allwords.insert(w.clone());
                    cx.note_id(w);
                    seq += 1;
                    imported.push((seq, w.clone()));
                }
                case_ops.push(format!("i : {}", words_field(ws)));
                impl_ops.push("+".to_string());
            }
            WOp::Export => {
                let ws = lt.export_words();
                case_ops.push("e".to_string());
                impl_ops.push(show_words(&ws));
                let want: BTreeSet<&String> = imported.iter().map(|(_, w)| w).collect();
                let got: BTreeSet<&String> = ws.iter().collect();
                if want != got {
                    let missing: Vec<&&String> = want.difference(&got).collect();
                    let extra: Vec<&&String> = got.difference(&want).collect();
                    let class = if extra.is_empty() && missing.iter().all(|m| imported.iter().any(|(_, w)| w != **m && real_id(w) == real_id(m))) {
                        "reload:case-collision"
                    } else {
                        "reload"
                    };
                    rep.fail(class, format!("export_words gives {:?}; missing {:?}, unexpected {:?}", got, missing, extra), inp.clone());
                } else {
                    rep.count("oracle:export_equal");
                }
            }
            WOp::Lint(text) => {
                let toks = word_tokens("plaintext", text);
                let lints = lt.lint(text.clone(), harper_wasm::Language::Plain);
                let ls: Vec<((usize, usize), bool, String)> = lints.iter().map(|l| ((l.span().start, l.span().end), l.lint_kind() == "Spelling", l.message())).collect();
                // remove_overlaps may drop a spelling lint under another lint: such checks say nothing about the dictionary
                let overlapped = toks.spans.iter().any(|(a, b)| ls.iter().any(|((x, y), sp, _)| !*sp && x < b && a < y));
                if overlapped {
                    rep.count("wasm:lint_skipped(other lint overlaps a word)");
                    continue;
                }
                let flags: Vec<bool> = toks.spans.iter().map(|s| ls.iter().any(|(x, sp, _)| *sp && x == s)).collect();
                for w in &toks.words {
                    chars.extend(w.chars());
                    allwords.insert(w.clone());
                    cx.note_id(w);
                }
                case_ops.push(format!("l : {}", words_field(&toks.words)));
                impl_ops.push(show_flags(&flags));
                let base = baseline_lints_spans(cx, text);
                for (ti, t) in toks.words.iter().enumerate() {
                    let base_flag = base.iter().any(|(s, sp, _)| *sp && *s == toks.spans[ti]);
                    if let Some((ai, _)) = imported.iter().find(|(_, w)| w == t) {
                        rep.count("oracle:token_is_added_word");
                        if flags[ti] {
                            let later_variant = imported.iter().any(|(i, w)| i > ai && w != t && real_id(w) == real_id(t));
                            let earlier_variant = imported.iter().any(|(i, w)| i < ai && w != t && real_id(w) == real_id(t));
                            let cur = FstDictionary::curated();
                            let tc: Vec<char> = t.chars().collect();
                            let other_dialect = cur.get_word_metadata(&tc).map(|m| !m.dialect.is_none_or(|d| d == Dialect::American)).unwrap_or(false);
                            let class = if later_variant {
                                "added-word-reported:case-collision"
                            } else if earlier_variant {
                                // was F15-C07-wasm (import_words did not re-synchronise), repaired by ba0a239: no known finding any more
                                "added-word-reported:wasm-no-resync"
                            } else if other_dialect {
                                "added-word-reported:dialect"
                            } else if t.chars().any(|c| norm_char(c) != c) {
                                "added-word-reported:apostrophe"
                            } else {
                                "added-word-reported"
                            };
                            rep.fail(class, format!("{:?} was imported (as word #{ai}) and is reported as misspelt by a later lint (op {oi})", t), inp.clone());
                        }
                    } else if imported.iter().any(|(_, w)| real_id(w) == real_id(t)) {
                        rep.count("oracle:token_is_case_variant_of_added_word(unconstrained)");
                    } else {
                        rep.count("oracle:other_token");
                        if flags[ti] != base_flag {
                            rep.fail("other-word-changed", format!("report of {:?} (never imported) changed: {} -> {}", t, base_flag, flags[ti]), inp.clone());
                        }
                    }
                }
                // other lints: those not touching a word whose status may legitimately change
                let mut a: Vec<((usize, usize), String)> = base.iter().filter(|(_, sp, _)| !*sp).map(|(s, _, m)| (*s, m.clone())).collect();
                let mut b: Vec<((usize, usize), String)> = ls.iter().filter(|(_, sp, _)| !*sp).map(|(s, _, m)| (*s, m.clone())).collect();
                a.sort();
                b.sort();
                if a != b {
                    // wasm runs remove_overlaps: a vanished spelling lint can uncover another lint; only a change
                    // away from every word whose spelling report changed is a failure
                    let changed_words: Vec<(usize, usize)> = toks.spans.iter().enumerate().filter(|(i, s)| flags[*i] != base.iter().any(|(x, sp, _)| *sp && x == *s)).map(|(_, s)| *s).collect();
                    let diff: Vec<&((usize, usize), String)> = a.iter().filter(|x| !b.contains(x)).chain(b.iter().filter(|x| !a.contains(x))).collect();
                    if diff.iter().any(|((x, y), _)| !changed_words.iter().any(|(p, q)| x < q && p < y)) {
                        rep.fail("other-lints-changed", format!("non-spelling lints differ from the lint without imported words: {:?}", diff), inp.clone());
                    }
                } else {
                    rep.count("oracle:other_lints_equal");
                }
            }
        }
    }
    let case = format!("W {} | {} | {}", ctable(&chars), curated_field(&allwords), case_ops.join(" ; "));
    rep.case(&case, &impl_ops.join(";"));
    rep.nontrivial(&format!("{:?}", ops));
    rep.count("wasm:histories");
}

/// harper-core lints with the curated dictionary, after remove_overlaps (what harper-wasm returns)
fn baseline_lints_spans(cx: &mut Cx, text: &str) -> Vec<((usize, usize), bool, String)> {
    let dict = FstDictionary::curated();
    let doc = Document::new(text, &PlainEnglish, &dict);
    let mut lints = cx.baseline.lint(&doc);
    harper_core::remove_overlaps(&mut lints);
    lints.into_iter().map(|l| ((l.span.start, l.span.end), l.lint_kind.is_spelling(), l.message)).collect()
}

// ------------------------------------------------------------------------------------------------
//  M: MergedDictionary equality (child hashes) — what update_document uses to keep or rebuild a linter
// ------------------------------------------------------------------------------------------------
fn merged_of(ws: &[String]) -> (MergedDictionary, Vec<String>) {
    let mut d = MutableDictionary::new();
    d.extend_words(ws.iter().map(|w| (w.chars().collect::<Vec<char>>(), WordMetadata::default())));
    let mut words = words_of(&d);
    words.sort();
    let mut m = MergedDictionary::new();
    m.add_dictionary(FstDictionary::curated());
    m.add_dictionary(Arc::new(d));
    (m, words)
}
fn run_merge(cx: &mut Cx, rep: &mut Report, a: &[String], b: &[String], origin: &str) {
    rep.eval();
    let inp = json!({"kind": "merge", "a": a, "b": b, "origin": origin});
    let (ma, wa) = merged_of(a);
    let (mb, wb) = merged_of(b);
    let eq = ma == mb;
    let mut chars: BTreeSet<char> = BTreeSet::new();
    for w in a.iter().chain(b.iter()) {
        chars.extend(w.chars());
        cx.note_id(w);
    }
    rep.case(&format!("M {} | {} | {}", ctable(&chars), words_field(a), words_field(b)), if eq { "1" } else { "0" });
    rep.nontrivial(&format!("{:?}|{:?}", a, b));
    rep.count(if wa == wb { "merge:same_dictionary" } else { "merge:different_dictionaries" });
    if eq && wa != wb {
        rep.fail(
            "added-word-reported:stale-linter",
            format!("the dictionaries {:?} and {:?} are different but their MergedDictionary compare equal (same child hashes): update_document keeps the linter built with the old one", wa, wb),
            inp,
        );
    } else if !eq && wa == wb {
        // harmless for the property (a linter is rebuilt although nothing changed); the correspondence reports it
        rep.count("merge:equal_dictionaries_compare_different");
    }
}

// ------------------------------------------------------------------------------------------------
//  generators
// ------------------------------------------------------------------------------------------------

// ------------------------------------------------------------------------------------------------
//  V / K: the merged dictionary as the rule bodies and SpellCheck see it (Coq: Model/C07Class.v)
// ------------------------------------------------------------------------------------------------
/// SentenceCapitalization's exemption test on a canonical spelling (sentence_capitalization.rs): an upper-case letter after
/// the first character and before a separator
fn inner_upper(sp: &[char]) -> bool {
    sp.iter().skip(1).take_while(|&c| !c.is_whitespace() && *c != '-' && *c != '\'').any(|&c| c.is_uppercase())
}
/// V: [curated; user; file; identifiers] built from word lists: the entry the FIRST child with the token's id holds (canonical
/// spelling, dialect ok) and the exact test over ALL children, real MergedDictionary vs C07Class.x_view / x_exact
fn run_view(cx: &mut Cx, rep: &mut Report, us: &[String], fs: &[String], ids: &[String], tok: &str, origin: &str) {
    rep.eval();
    let m = merged_with(vec![mutable_of(us), mutable_of(fs), mutable_of(ids)]);
    let t: Vec<char> = tok.chars().collect();
    let canon: Option<String> = m.get_correct_capitalization_of(&t).map(|c| c.iter().collect());
    let meta = m.get_word_metadata(&t);
    let dok = meta.map(|md| md.dialect.is_none_or(|d| d == Dialect::American)).unwrap_or(true);
    let exact = m.contains_exact_word(&t);
    let inp = json!({"kind": "view", "user": us, "file": fs, "ids": ids, "tok": tok, "origin": origin});
    if canon.is_some() != meta.is_some() {
        rep.fail("view", format!("get_correct_capitalization_of and get_word_metadata disagree on whether {:?} is known", tok), inp.clone());
    }
    let mut chars: BTreeSet<char> = tok.chars().collect();
    let mut all: BTreeSet<String> = BTreeSet::new();
    all.insert(tok.to_string());
    for w in us.iter().chain(fs).chain(ids) {
        chars.extend(w.chars());
        all.insert(w.clone());
        cx.note_id(w);
    }
    cx.note_id(tok);
    if let Some(c) = &canon {
        chars.extend(c.chars());
    }
    let case = format!("V {} | {} | {} | {} | {} | {}", ctable(&chars), curated_field(&all), words_field(us), words_field(fs), words_field(ids), wcps(tok));
    let line = match &canon {
        Some(c) => format!("S {} : {} {}", wcps(c), dok as u8, exact as u8),
        None => format!("N {}", exact as u8),
    };
    rep.case(&case, &line);
    rep.nontrivial(&format!("{:?}|{:?}|{:?}|{tok}", us, fs, ids));
    // which child answers (first child wins)?
    let cur = FstDictionary::curated();
    let who = if cur.get_word_metadata(&t).is_some() {
        "curated"
    } else if us.iter().any(|w| real_id(w) == real_id(tok)) {
        "user"
    } else if fs.iter().any(|w| real_id(w) == real_id(tok)) {
        "file"
    } else if ids.iter().any(|w| real_id(w) == real_id(tok)) {
        "identifiers"
    } else {
        "nobody"
    };
    rep.count(&format!("view:answered_by_{who}"));
    // oracle (C07_view_class on the implementation): the entry differs from harper-core alone ([curated; identifiers]) only if
    // curated has no entry and user / file hold a word with the token's id, and then the spelling is that word
    let base = merged_with(vec![mutable_of(ids)]);
    let base_canon: Option<String> = base.get_correct_capitalization_of(&t).map(|c| c.iter().collect());
    if base_canon != canon {
        let from_uf = us.iter().chain(fs).any(|w| real_id(w) == real_id(tok) && Some(w) == canon.as_ref());
        if who == "curated" || !from_uf {
            rep.fail("view", format!("canonical spelling of {:?} changed from {:?} to {:?} although curated answers / no user or file word explains it", tok, base_canon, canon), inp);
        } else {
            rep.count("view:changed_by_user_or_file_word");
        }
    }
}
/// K: one dictionary after the adds w :: post: does its exact test still find w?  real MutableDictionary vs C07Class.x_f15_keeps
fn run_keeps(cx: &mut Cx, rep: &mut Report, w: &str, post: &[String], origin: &str) {
    rep.eval();
    let mut all = vec![w.to_string()];
    all.extend(post.iter().cloned());
    let d = mutable_of(&all);
    let wc: Vec<char> = w.chars().collect();
    let keeps = d.contains_exact_word(&wc);
    let mut chars: BTreeSet<char> = BTreeSet::new();
    for x in &all {
        chars.extend(x.chars());
        cx.note_id(x);
    }
    rep.case(&format!("K {} | {} | {}", ctable(&chars), wcps(w), words_field(post)), if keeps { "1" } else { "0" });
    rep.nontrivial(&format!("{w}|{:?}", post));
    let norm = |x: &str| -> String { x.chars().map(norm_char).collect() };
    let last = post.iter().rev().find(|x| real_id(x) == real_id(w));
    rep.count(match last {
        None => "keeps:no_later_word_with_the_id",
        Some(x) if norm(x) == norm(w) => "keeps:last_later_word_is_the_same_spelling",
        Some(_) => "keeps:last_later_word_is_another_spelling(F15)",
    });
    // oracle: C07_f15_accept_class's first clause on the implementation
    let expect = last.map(|x| norm(x) == norm(w)).unwrap_or(true);
    if keeps != expect {
        rep.fail("keeps", format!("exact test of {:?} after the adds {:?}: {keeps}, but the last later word with its id is {:?}", w, post, last), json!({"kind": "keeps", "word": w, "post": post, "origin": origin}));
    }
}

const ONSETS: &[&str] = &["z", "bl", "qu", "vl", "kr", "sn", "gl", "thr", "p", "m", "dr", "sk", "fw", "j", "x"];
const NUCLEI: &[&str] = &["o", "a", "u", "i", "e", "oo", "ai", "y"];
const CODAS: &[&str] = &["rg", "rf", "x", "mp", "ld", "nk", "zz", "b", "sh", "pt", "le", "ly"];

fn made_up(r: &mut Rng) -> String {
    let cur = FstDictionary::curated();
    loop {
        let mut s = String::new();
        for _ in 0..r.range(2, 3) {
            s.push_str(r.s(ONSETS));
            s.push_str(r.s(NUCLEI));
        }
        s.push_str(r.s(CODAS));
        if !cur.contains_word_str(&s) {
            return s;
        }
    }
}
fn capitalize(s: &str) -> String {
    let mut c = s.chars();
    match c.next() {
        Some(f) => f.to_uppercase().collect::<String>() + c.as_str(),
        None => String::new(),
    }
}
/// exotic but word-like: one Word token for the lexer
const EXOTIC: &[&str] = &[
    "žlutý", "naïvish", "Ångbord", "straße", "İstanbulish", "ǅemal", "привет", "Λόγος", "łódźka", "ﬁnchly", "𝒜lpha", "e\u{301}tude", "DŽUNGLA", "ǆungla",
    "blorf’s", "zorgle's", "krunk‘s", "o＇clocky",
];
const CURATED_WORDS: &[&str] = &["hello", "colour", "color", "realise", "Paris", "paris", "monday", "Monday", "theatre", "grey", "kerb"];
const NON_WORDS: &[&str] = &["", " ", "a b", "x-y", "fl\nurb", "end\r", "\r\nq", "tab\tbed", "100", "a/b", "50%", "\0", "z\u{200b}w", "🙂", "日本語"];

const TEMPLATES: &[&str] = &[
    "The {0} is here.",
    "I saw {0} and {1} today.",
    "{0} {1} {2}",
    "An {0} was seen near a {1}.",
    "We {0} it, then {1} again.",
    "{0}'s idea was good.",
    "Is {0} better than {1}?",
    "{0}, {1}, and {2} went home.",
    "He said “{0}” twice.",
    "This is {0}.\n\nThat was {1}.",
    "There are many {0} in the {1} {2}.",
    "{0}",
];

fn fill(t: &str, ws: &[String], r: &mut Rng) -> String {
    let mut s = t.to_string();
    for i in 0..3 {
        let w = if ws.is_empty() { String::new() } else { ws[r.below(ws.len())].clone() };
        s = s.replace(&format!("{{{i}}}"), &w);
    }
    s
}

fn gen_pool(r: &mut Rng) -> Vec<String> {
    // a small pool of related words: stems, case variants, exotic and curated ones
    let mut pool = vec![];
    for _ in 0..r.range(2, 3) {
        let s = made_up(r);
        pool.push(s.clone());
        if r.chance(1, 2) {
            pool.push(capitalize(&s));
        }
        if r.chance(1, 4) {
            pool.push(s.to_uppercase());
        }
    }
    if r.chance(1, 3) {
        pool.push(r.s(EXOTIC).to_string());
    }
    if r.chance(1, 4) {
        pool.push(r.s(CURATED_WORDS).to_string());
    }
    pool
}

const URL_POOL: &[&str] = &[
    "f:a/b.txt", "f:a/c.txt", "f:c/b.txt", "f:b.txt", "f:notes.txt", "f:Notes.txt", "f:A/b.txt", "f:dir with space/x.txt", "f:ünï/çödé.txt", "f:ÜNÏ/çödé.txt", "f:a%b.txt", "f:a/b%c.txt",
    "f:a/b.txt%", "f:100%/done.txt", "f:notes.md", "f:a/b.md", "u:Untitled-1",
];
/// (url, a url that differs from it only in letter case): distinct files on a case-sensitive file system
const CASE_TWINS: &[(&str, &str)] = &[("f:notes.txt", "f:Notes.txt"), ("f:a/b.txt", "f:A/b.txt"), ("f:ünï/çödé.txt", "f:ÜNÏ/çödé.txt"), ("f:b.txt", "f:B.TXT")];

fn gen_hist(r: &mut Rng, crash: bool, malformed: bool) -> Hist {
    let pool = gen_pool(r);
    let mut urls: Vec<String> = vec![];
    let nu = r.range(1, 3);
    while urls.len() < nu {
        let twin = urls.iter().find_map(|u| CASE_TWINS.iter().find(|(a, _)| a == u).map(|(_, b)| b.to_string()));
        let u = if r.chance(1, 6) && urls.iter().any(|u| u == "f:a/b.txt") {
            "f:a%b.txt".to_string()
        } else if r.chance(1, 5) && twin.is_some() {
            twin.unwrap()
        } else {
            r.s(URL_POOL).to_string()
        };
        if !urls.contains(&u) {
            urls.push(u);
        }
    }
    let lang = if r.chance(1, 6) {
        "markdown".to_string()
    } else if r.chance(3, 10) {
        r.s(SRC_LANGS).to_string()
    } else {
        "plaintext".to_string()
    };
    let mut ops = vec![];
    let mut pool = pool;
    if r.chance(1, 4) {
        // a dictionary file that was on disk before the server ever ran: written by another tool, possibly
        // without a final newline or with CRLF line ends
        let mut ws: Vec<String> = vec![];
        for _ in 0..r.range(1, 3) {
            let w = made_up(r);
            if !ws.iter().any(|x| real_id(x) == real_id(&w)) && !pool.iter().any(|x| real_id(x) == real_id(&w)) {
                ws.push(w);
            }
        }
        let sep = if r.chance(1, 4) { "\r\n" } else { "\n" };
        let mut content = ws.join(sep);
        if r.chance(1, 2) {
            content.push_str(sep);
        }
        let sc = if r.chance(2, 3) { Scope::User } else { Scope::File(r.below(urls.len())) };
        ops.push(Op::Raw(sc, content));
        pool.extend(ws);
    }
    for ui in 0..urls.len() {
        if r.chance(2, 3) {
            ops.push(Op::Lint(ui, fill(r.s(TEMPLATES), &pool, r)));
        }
    }
    let n = r.range(3, 8);
    for _ in 0..n {
        match r.below(10) {
            0..=3 => {
                let w = if malformed && r.chance(1, 2) { r.s(NON_WORDS).to_string() } else { pool[r.below(pool.len())].clone() };
                let sc = if r.chance(1, 2) { Scope::User } else { Scope::File(r.below(urls.len())) };
                if crash && r.chance(1, 3) {
                    let sys = r.s(&["open", "open", "write", "write", "mkdir", "close", "rename", "sync"]);
                    let when = r.range(1, 3) as u32;
                    ops.push(Op::Crash(sc, w, sys.to_string(), when));
                } else {
                    ops.push(Op::Add(sc, w));
                }
            }
            4..=7 => {
                let ui = r.below(urls.len());
                ops.push(Op::Lint(ui, fill(r.s(TEMPLATES), &pool, r)));
            }
            8 if urls.len() >= 2 && r.chance(1, 2) => {
                // the client sends several add commands at once (e.g. "add all"): different dictionaries
                let mut v = vec![];
                for ui in 0..urls.len() {
                    v.push((Scope::File(ui), pool[r.below(pool.len())].clone()));
                }
                if r.chance(1, 2) {
                    v.push((Scope::User, pool[r.below(pool.len())].clone()));
                }
                // ... and several for one dictionary ("add all"): fresh words, so that the outcome is order-independent
                if r.chance(2, 3) {
                    let sc = if r.chance(1, 2) { Scope::User } else { Scope::File(r.below(urls.len())) };
                    for _ in 0..r.range(2, 4) {
                        let w = made_up(r);
                        pool.push(w.clone());
                        v.push((sc.clone(), w));
                    }
                }
                ops.push(Op::Par(v));
            }
            8 => ops.push(Op::Restart),
            _ => {
                // check every document
                let t = fill(r.s(TEMPLATES), &pool, r);
                for ui in 0..urls.len() {
                    ops.push(Op::Lint(ui, t.clone()));
                }
            }
        }
    }
    // always end by checking every document with every pool word
    let t = pool.join(" ");
    for ui in 0..urls.len() {
        ops.push(Op::Lint(ui, t.clone()));
    }
    if SRC_LANGS.contains(&lang.as_str()) {
        // source documents: the prose becomes comment lines; each document defines a few identifiers (snake_case pairs of
        // made-up stems, single stems, sometimes a pool word or a case variant of one) with pairwise different ids, some of
        // them mentioned in the comments; now and then a check comes with one identifier more or less
        let mut idents: Vec<Vec<String>> = vec![];
        for _ in 0..urls.len() {
            let mut v: Vec<String> = vec![];
            for _ in 0..r.range(0, 3) {
                let cand = match r.below(5) {
                    0 | 1 => format!("{}_{}", made_up(r), made_up(r)),
                    2 => made_up(r),
                    3 => pool[r.below(pool.len())].clone(),
                    _ => capitalize(&pool[r.below(pool.len())]),
                };
                let ok = !cand.is_empty() && cand.chars().all(|c| c.is_ascii_alphanumeric() || c == '_') && cand.chars().next().map(|c| c.is_ascii_alphabetic()).unwrap_or(false);
                if ok && !v.iter().any(|x| real_id(x) == real_id(&cand)) {
                    v.push(cand);
                }
            }
            idents.push(v);
        }
        for op in ops.iter_mut() {
            if let Op::Lint(ui, t) = op {
                let mut ids = idents[*ui].clone();
                if r.chance(1, 5) && !ids.is_empty() {
                    ids.remove(r.below(ids.len()));
                } else if r.chance(1, 6) {
                    let extra = made_up(r);
                    if !ids.iter().any(|x| real_id(x) == real_id(&extra)) {
                        ids.push(extra);
                    }
                }
                let mut prose = t.clone();
                if !idents[*ui].is_empty() && r.chance(2, 3) {
                    prose.push_str(&format!("\nIt calls {} twice.", idents[*ui][r.below(idents[*ui].len())]));
                }
                *t = to_source(&lang, &prose, &ids);
            }
        }
    }
    Hist { lang, urls, ops }
}


/// histories in which the language of a document changes: didOpen of an open document with another language id, didChange
/// of a document that is not open, languages without a parser, didClose (Coq: C07Lang)
const LANG_POOL: &[&str] = &["rust", "python", "c", "plaintext", "markdown", "klingon"];
fn gen_lang_hist(r: &mut Rng) -> Hist {
    let mut pool = gen_pool(r);
    let urls: Vec<String> = if r.chance(1, 2) { vec!["f:src/m.rs".into()] } else { vec!["f:src/m.rs".into(), "f:a/b.txt".into()] };
    let lang = LANG_POOL[r.below(5)].to_string();
    let mut idents: Vec<String> = vec![];
    for _ in 0..r.range(0, 3) {
        let cand = match r.below(4) {
            0 | 1 => format!("{}_{}", made_up(r), made_up(r)),
            2 => made_up(r),
            _ => capitalize(&pool[r.below(pool.len())]),
        };
        let ok = !cand.is_empty() && cand.chars().all(|c| c.is_ascii_alphanumeric() || c == '_') && cand.chars().next().map(|c| c.is_ascii_alphabetic()).unwrap_or(false);
        if ok && !idents.iter().any(|x| real_id(x) == real_id(&cand)) {
            idents.push(cand);
        }
    }
    let text = |r: &mut Rng, pool: &Vec<String>| -> String {
        let mut prose = fill(r.s(TEMPLATES), pool, r);
        if !idents.is_empty() && r.chance(1, 2) {
            prose.push_str(&format!("\nIt calls {} twice.", idents[r.below(idents.len())]));
        }
        if r.chance(2, 3) { to_source(r.s(SRC_LANGS), &prose, &idents) } else { prose }
    };
    let mut ops = vec![];
    for _ in 0..r.range(6, 12) {
        let ui = r.below(urls.len());
        match r.below(12) {
            0..=3 => ops.push(Op::Open(ui, r.s(LANG_POOL).to_string(), text(r, &pool))),
            4..=5 => ops.push(Op::Change(ui, text(r, &pool))),
            6..=8 => {
                let w = if r.chance(1, 4) { let w = made_up(r); pool.push(w.clone()); w } else { pool[r.below(pool.len())].clone() };
                ops.push(Op::Add(if r.chance(1, 2) { Scope::User } else { Scope::File(ui) }, w));
            }
            9 => ops.push(Op::Close(ui)),
            10 => ops.push(if r.chance(1, 2) { Op::Restart } else { Op::Lint(ui, text(r, &pool)) }),
            _ => ops.push(Op::Lint(ui, text(r, &pool))),
        }
    }
    let t = pool.join(" ");
    for ui in 0..urls.len() {
        ops.push(Op::Open(ui, r.s(LANG_POOL).to_string(), to_source("rust", &t, &idents)));
        ops.push(Op::Change(ui, t.clone()));
    }
    Hist { lang, urls, ops }
}


/// crash, restart, further adds (Coq: C07_crash_then_add): a dictionary with a few words; the add of a LONG word dies at some
/// system call (often late: the temporary file <name>.tmp is left behind complete or nearly so); then shorter and longer words
/// are added, the documents are checked, the server restarts: the file must reload to exactly old (+ the crashed word) + the
/// later adds — a left-over temporary file must never leak into the dictionary
fn gen_crash_then_hist(r: &mut Rng) -> Hist {
    let urls: Vec<String> = vec!["f:a/b.txt".into()];
    let sc = if r.chance(2, 3) { Scope::User } else { Scope::File(0) };
    let mut ops = vec![];
    let mut seed: Vec<String> = vec![];
    for _ in 0..r.range(0, 3) {
        let w = made_up(r);
        if !seed.iter().any(|x| real_id(x) == real_id(&w)) {
            seed.push(w);
        }
    }
    if !seed.is_empty() {
        ops.push(Op::Seed(sc.clone(), seed.clone()));
    }
    let long = format!("{}{}{}", made_up(r), made_up(r), if r.chance(1, 2) { made_up(r) } else { "žluťoučký".to_string() });
    let sys = r.s(&["rename", "rename", "sync", "sync", "close", "write", "open", "unlink"]);
    let when = if r.chance(3, 4) { 1 } else { 2 };
    ops.push(Op::Crash(sc.clone(), long.clone(), sys.to_string(), when));
    let mut later: Vec<String> = vec![];
    for k in 0..r.range(1, 3) {
        // the first later word is short (the new file is shorter than the left-over), then anything
        let w: String = if k == 0 || r.chance(1, 2) { made_up(r).chars().take(r.range(2, 4)).collect() } else { format!("{}{}", long, made_up(r)) };
        if later.iter().chain(seed.iter()).any(|x| real_id(x) == real_id(&w)) || real_id(&w) == real_id(&long) {
            continue;
        }
        ops.push(Op::Add(if r.chance(5, 6) { sc.clone() } else { Scope::User }, w.clone()));
        later.push(w);
        if r.chance(1, 3) {
            ops.push(Op::Lint(0, format!("{} {} {}", seed.join(" "), long, later.join(" "))));
        }
    }
    if r.chance(1, 2) {
        ops.push(Op::Restart);
    }
    ops.push(Op::Lint(0, format!("{} {} {}", seed.join(" "), long, later.join(" "))));
    Hist { lang: "plaintext".into(), urls, ops }
}

/// metamorphic histories: a rule-rich paragraph in which some words are replaced by made-up ones; checked
/// before the words are added, after, and after a restart ("all other lints are unchanged")
fn gen_meta_hist(r: &mut Rng) -> Hist {
    let pool = gen_pool(r);
    let para = if r.chance(1, 2) { hv::gen::paragraph(r) } else { format!("{} {}", hv::gen::clean_sentence(r), hv::gen::clean_sentence(r)) };
    let mut words: Vec<String> = para.split(' ').map(|s| s.to_string()).collect();
    let mut used = vec![];
    for _ in 0..r.range(1, 3) {
        if words.is_empty() {
            break;
        }
        let i = r.below(words.len());
        let w = pool[r.below(pool.len())].clone();
        // keep the punctuation that was glued to the replaced word
        let tail: String = words[i].chars().rev().take_while(|c| !c.is_alphanumeric()).collect::<Vec<_>>().into_iter().rev().collect();
        words[i] = format!("{w}{tail}");
        used.push(w);
    }
    let text = words.join(" ");
    let urls = vec![r.s(URL_POOL).to_string()];
    let mut ops = vec![Op::Lint(0, text.clone())];
    for w in &used {
        let sc = if r.chance(1, 2) { Scope::User } else { Scope::File(0) };
        ops.push(Op::Add(sc, w.clone()));
    }
    ops.push(Op::Lint(0, text.clone()));
    ops.push(Op::Restart);
    ops.push(Op::Lint(0, text));
    Hist { lang: if r.chance(1, 5) { "markdown" } else { "plaintext" }.to_string(), urls, ops }
}

fn gen_wasm(r: &mut Rng, malformed: bool) -> Vec<WOp> {
    let pool = gen_pool(r);
    let mut ops = vec![WOp::Lint(fill(r.s(TEMPLATES), &pool, r))];
    for _ in 0..r.range(3, 8) {
        match r.below(8) {
            0..=2 => {
                let mut ws = vec![];
                for _ in 0..r.range(1, 3) {
                    ws.push(if malformed && r.chance(1, 3) { r.s(NON_WORDS).to_string() } else { pool[r.below(pool.len())].clone() });
                }
                ops.push(WOp::Import(ws));
            }
            3..=5 => ops.push(WOp::Lint(fill(r.s(TEMPLATES), &pool, r))),
            _ => ops.push(WOp::Export),
        }
    }
    ops.push(WOp::Lint(pool.join(" ")));
    ops.push(WOp::Export);
    ops
}

fn gen_content(r: &mut Rng) -> String {
    let pieces: &[&str] = &["zorgle", "Zorgle", "blorf", "\n", "\n", "\r\n", "\r", " ", "x", "é", "İ", "ß", "𝒜", "’s", "'s", "\n\n", "\t", "%", "ǅ", "ﬁ", "a b"];
    let mut s = String::new();
    for _ in 0..r.range(0, 10) {
        s.push_str(r.s(pieces));
    }
    s
}
fn gen_path(r: &mut Rng) -> String {
    let segs: &[&str] = &["a", "b", "A", "B", "a%b", "A%b", "%", "a%", "%b", ".", "..", "", "x y", "ü", "Ü", "c.txt", "C.txt", "c.TXT", "%25", "a%2Fb", "日本", "ǆ", "ǅ"];
    let mut s = String::new();
    for _ in 0..r.range(1, 5) {
        s.push('/');
        s.push_str(r.s(segs));
    }
    if r.chance(1, 8) {
        s.push('/');
    }
    s
}

/// FC07f regression probe (repaired by f2dc537; the same history also runs through the correspondence, whose model
/// has the per-document linter cache).  MergedDictionary used to compare children by a hash of their words'
/// characters WITHOUT separators, in hash-map order; {aA, A} and {Aa, A} could both hash the stream "AaA": then
/// update_document kept the old linter and the word just added stayed reported until the server restarted
/// (nondeterministic: 6 of 40 rounds).  Coq: C07_merge_rebuild, C07_cache_transparent; C07_merge_rebuild_old_refuted.
fn probe_stale(cx: &mut Cx, rep: &mut Report, rounds: u64, origin: &str) {
    let mut stale = 0u64;
    let text = "Here aA and Aa are.";
    let toks = word_tokens("plaintext", text);
    let idx = toks.words.iter().position(|w| w == "Aa");
    let Some(idx) = idx else { return };
    for _ in 0..rounds {
        rep.eval();
        let dir = cx.fresh_dir();
        let d = dir.to_str().unwrap().to_string();
        let st = settings(&format!("{d}/cfg/user.txt"), &format!("{d}/fd"), &format!("{d}/stats.txt"), json!({}));
        let _g = cx.rt.enter();
        let mut s = Session::new(st.clone());
        let doc = format!("{d}/n.txt");
        let _ = std::fs::write(&doc, text);
        let uri = Url::from_file_path(&doc).unwrap().to_string();
        s.command("HarperAddToUserDict", vec![json!("aA"), json!(uri)]);
        s.command("HarperAddToUserDict", vec![json!("A"), json!(uri)]);
        s.did_open(&uri, "plaintext", text);
        s.command("HarperAddToUserDict", vec![json!("Aa"), json!(uri)]);
        s.did_change(&uri, text);
        let flagged = |s: &Session| -> bool {
            let ds = s.last_published(&uri).map(diags_of).unwrap_or_default();
            ds.iter().any(|(r, m)| *r == toks.ranges[idx] && is_spelling_msg(m))
        };
        let in_session = flagged(&s);
        s.request("shutdown", Value::Null);
        drop(s);
        let mut s2 = Session::new(st);
        s2.did_open(&uri, "plaintext", text);
        let after_restart = flagged(&s2);
        s2.request("shutdown", Value::Null);
        drop(s2);
        if in_session && !after_restart {
            stale += 1;
        } else if in_session {
            rep.fail("added-word-reported", "\"Aa\" is reported after it was added, even after a restart".into(), json!({"kind": "stale-linter", "rounds": 1, "origin": origin}));
        }
        let _ = std::fs::remove_dir_all(&dir);
    }
    rep.count_n("stale_probe:rounds", rounds);
    rep.count_n("stale_probe:stale_linter_rounds", stale);
    if stale > 0 {
        rep.fail(
            "added-word-reported:stale-linter",
            format!("user dictionary {{aA, A}}, document open, add \"Aa\": in {stale} of {rounds} rounds \"Aa\" is still reported by the next check of the open document and accepted after a restart (the child hashes did not change, the linter was not rebuilt)"),
            json!({"kind": "stale-linter", "rounds": rounds, "origin": origin}),
        );
    }
}

/// FC07g regression probe (repaired by cfbe845; the same batches also run through the histories, op `par`).  Several
/// add commands for the SAME dictionary that arrive together are handled concurrently by tower-lsp; each loaded the
/// dictionary, appended its word and wrote the whole file back (through the same <name>.tmp): the last rename won and
/// the other words were lost without any crash.  Oracle: every word is in its dictionary file afterwards and is
/// accepted by a check in the session and after a restart.
fn probe_par_same(cx: &mut Cx, rep: &mut Report, rounds: u64, origin: &str) {
    let user_words = ["quxly", "vlimp", "zorgle"];
    let file_words = ["blorfy", "krunkle"];
    let mut lost_rounds = 0u64;
    let mut example = String::new();
    for _ in 0..rounds {
        rep.eval();
        let dir = cx.fresh_dir();
        let d = dir.to_str().unwrap().to_string();
        let user = format!("{d}/cfg/user.txt");
        let fd = format!("{d}/fd");
        let st = settings(&user, &fd, &format!("{d}/stats.txt"), json!({}));
        let _g = cx.rt.enter();
        let mut s = Session::new(st);
        let doc = format!("{d}/n.txt");
        let _ = std::fs::write(&doc, "Here quxly vlimp zorgle blorfy krunkle are.");
        let url = Url::from_file_path(&doc).unwrap();
        let uri = url.to_string();
        let futs: Vec<HandlerFut> = user_words.iter().map(|w| s.start("workspace/executeCommand", json!({"command": "HarperAddToUserDict", "arguments": [w, uri]}), true)).collect();
        let ok1 = s.drive_all(futs);
        let futs: Vec<HandlerFut> = file_words.iter().map(|w| s.start("workspace/executeCommand", json!({"command": "HarperAddToFileDict", "arguments": [w, uri]}), true)).collect();
        let ok2 = s.drive_all(futs);
        let text = "Here quxly vlimp zorgle blorfy krunkle are.";
        let flagged_words = |s: &mut Session, first: bool| -> Vec<String> {
            if first {
                s.did_open(&uri, "plaintext", text);
            } else {
                s.did_change(&uri, text);
            }
            s.last_published(&uri).map(|d| misspelt_words(d, text)).unwrap_or_default()
        };
        let in_session = flagged_words(&mut s, true);
        s.request("shutdown", Value::Null);
        drop(s);
        let mut s2 = Session::new(settings(&user, &fd, &format!("{d}/stats.txt"), json!({})));
        let after_restart = flagged_words(&mut s2, true);
        s2.request("shutdown", Value::Null);
        drop(s2);
        if !ok1 || !ok2 {
            rep.fail("stuck", "concurrent add commands did not complete".into(), json!({"kind": "par-same", "rounds": 1, "origin": origin}));
        }
        let got_user: Vec<String> = cx.rt.block_on(load_dict(&user)).map(|d| words_of(&d)).unwrap_or_default();
        let fpath = file_dict_name(&url).map(|n| Path::new(&fd).join(n)).ok();
        let got_file: Vec<String> = fpath.and_then(|p| cx.rt.block_on(load_dict(&p)).ok()).map(|d| words_of(&d)).unwrap_or_default();
        let missing: Vec<&str> = user_words.iter().filter(|w| !got_user.iter().any(|g| g == *w)).chain(file_words.iter().filter(|w| !got_file.iter().any(|g| g == *w))).cloned().collect();
        let reported: Vec<&String> = in_session.iter().chain(after_restart.iter()).filter(|w| user_words.contains(&w.as_str()) || file_words.contains(&w.as_str())).collect();
        if !missing.is_empty() || !reported.is_empty() {
            lost_rounds += 1;
            if example.is_empty() {
                example = format!("user dictionary = {:?}, file dictionary = {:?}, missing {:?}; reported as misspelt in the session {:?}, after a restart {:?}", got_user, got_file, missing, in_session, after_restart);
            }
        } else {
            rep.count("oracle:concurrent_adds_all_kept");
        }
        let _ = std::fs::remove_dir_all(&dir);
    }
    rep.count_n("par_same_probe:rounds", rounds);
    rep.count_n("par_same_probe:rounds_with_lost_words", lost_rounds);
    if lost_rounds > 0 {
        rep.fail(
            "concurrent-adds-lose-words",
            format!("three HarperAddToUserDict and two HarperAddToFileDict commands sent together (handled concurrently): in {lost_rounds} of {rounds} rounds words that were added are not in the dictionary file afterwards or are reported as misspelt, e.g. {example}"),
            json!({"kind": "par-same", "rounds": rounds, "origin": origin}),
        );
    }
}

fn run_input(cx: &mut Cx, rep: &mut Report, v: &Value, origin: &str) {
    match v["kind"].as_str().unwrap_or("") {
        "load" => run_load(cx, rep, v["content"].as_str().unwrap_or(""), origin),
        "name" => run_name(cx, rep, v["path"].as_str().unwrap_or("/"), origin),
        "names" => {
            if let Some(a) = v["paths"].as_array() {
                for p in a {
                    run_name(cx, rep, p.as_str().unwrap_or("/"), origin);
                }
            }
        }
        "ls" => {
            if let Some(h) = hist_from(v) {
                run_hist(cx, rep, &h, origin)
            }
        }
        "collide" => run_collide(rep, v["p"].as_str().unwrap_or("/"), v["q"].as_str().unwrap_or("/"), origin),
        "order" => run_order(cx, rep, v["seed_words"].as_u64().unwrap_or(2) as usize, v["word"].as_str().unwrap_or("gamma"), v["file"].as_bool().unwrap_or(false), origin),
        "stale-linter" => probe_stale(cx, rep, v["rounds"].as_u64().unwrap_or(40), origin),
        "par-same" => probe_par_same(cx, rep, v["rounds"].as_u64().unwrap_or(5), origin),
        "merge" => {
            let get = |k: &str| -> Vec<String> { v[k].as_array().map(|a| a.iter().filter_map(|x| x.as_str().map(|s| s.to_string())).collect()).unwrap_or_default() };
            run_merge(cx, rep, &get("a"), &get("b"), origin)
        }
        "view" => {
            let get = |k: &str| -> Vec<String> { v[k].as_array().map(|a| a.iter().filter_map(|x| x.as_str().map(|s| s.to_string())).collect()).unwrap_or_default() };
            run_view(cx, rep, &get("user"), &get("file"), &get("ids"), v["tok"].as_str().unwrap_or(""), origin)
        }
        "keeps" => {
            let post: Vec<String> = v["post"].as_array().map(|a| a.iter().filter_map(|x| x.as_str().map(|s| s.to_string())).collect()).unwrap_or_default();
            run_keeps(cx, rep, v["word"].as_str().unwrap_or(""), &post, origin)
        }
        "wasm" => {
            if let Some(ops) = wasm_from(v) {
                run_wasm(cx, rep, &ops, origin)
            }
        }
        _ => rep.count("input:unknown_kind"),
    }
}

fn main() {
    let argv: Vec<String> = std::env::args().collect();
    if argv.get(1).map(|s| s == "child-add").unwrap_or(false) {
        child_add(&argv[2..]);
        return;
    }
    let (args, corpus) = hv::cli();
    let mut rep = Report::new(&args.out);
    rep.rule = "histories of add-to-user-dictionary / add-to-file-dictionary / check-a-document / restart on the real harper-ls Backend (1-3 documents incl. percent-named, case-twin and untitled ones; dictionary files written by other tools, with and without a final newline / CRLF; made-up stems with case variants, non-ASCII and apostrophe words, curated words of another dialect; a malformed stream of non-words incl. LF/CR); real crash points (the add runs in a child killed by strace on entering the N-th openat/write/mkdir/fsync/rename; the dictionary file AND its .tmp sibling are examined); crash-then-continue histories (a long word's add dies late, then shorter and longer words are added, restart, reload); load_dict on arbitrary file contents; file_dict_name on generated paths; harper_wasm::Linter import_words/lint/export_words histories; MergedDictionary equality on pairs of dictionaries. non-trivial = distinct history / file content / path / pair".into();
    let mut cx = Cx::new(&args);
    for v in &corpus {
        run_input(&mut cx, &mut rep, v, "corpus");
    }
    if args.replay.is_none() {
        let mut r = Rng::new(args.seed);
        for _ in 0..args.scale(300, 3000) {
            let c = gen_content(&mut r);
            run_load(&mut cx, &mut rep, &c, "gen");
        }
        for _ in 0..args.scale(300, 3000) {
            let p = gen_path(&mut r);
            run_name(&mut cx, &mut rep, &p, "gen");
        }
        // C: pairs of paths: independent, and one derived from the other by trading '/' for '%' and back
        for _ in 0..args.scale(300, 3000) {
            let p = gen_path(&mut r);
            let q = if r.chance(1, 2) {
                gen_path(&mut r)
            } else {
                let mut cs: Vec<char> = p.chars().collect();
                for i in 1..cs.len() {
                    if (cs[i] == '/' || cs[i] == '%') && r.chance(1, 2) {
                        cs[i] = if cs[i] == '/' { '%' } else { '/' };
                    }
                }
                cs.into_iter().collect()
            };
            run_collide(&mut rep, &p, &q, "gen");
        }
        for i in 0..args.scale(60, 600) {
            let h = gen_hist(&mut r, false, i % 5 == 4);
            run_hist(&mut cx, &mut rep, &h, "gen");
        }
        for _ in 0..args.scale(80, 1500) {
            let h = gen_meta_hist(&mut r);
            run_hist(&mut cx, &mut rep, &h, "gen-meta");
        }
        for i in 0..args.scale(12, 80) {
            let h = gen_hist(&mut r, true, i % 7 == 6);
            run_hist(&mut cx, &mut rep, &h, "gen-crash");
        }
        for _ in 0..args.scale(12, 80) {
            let h = gen_crash_then_hist(&mut r);
            run_hist(&mut cx, &mut rep, &h, "gen-crash-then");
        }
        for _ in 0..args.scale(40, 400) {
            let h = gen_lang_hist(&mut r);
            run_hist(&mut cx, &mut rep, &h, "gen-lang");
        }
        // ---- finite sweeps ----
        // every file content up to a length over {a, A, LF, CR}
        let alpha = ['a', 'A', '\n', '\r'];
        let maxlen = args.scale(3, 5);
        let mut level: Vec<String> = vec![String::new()];
        for _ in 0..=maxlen {
            let mut next = vec![];
            for c in &level {
                run_load(&mut cx, &mut rep, c, "sweep");
                for a in alpha {
                    let mut n = c.clone();
                    n.push(a);
                    next.push(n);
                }
            }
            level = next;
        }
        // every sequence of up to n adds over three spellings x {user, file 0}, then both documents checked
        let sw = ["zorb", "Zorb", "quix"];
        let mut seqs: Vec<Vec<(usize, usize)>> = vec![vec![]];
        let mut all: Vec<Vec<(usize, usize)>> = vec![];
        for _ in 0..args.scale(1, 3) {
            let mut next = vec![];
            for q in &seqs {
                for w in 0..3 {
                    for sc in 0..2 {
                        let mut n = q.clone();
                        n.push((w, sc));
                        next.push(n);
                    }
                }
            }
            all.extend(next.iter().cloned());
            seqs = next;
        }
        for q in &all {
            let mut ops = vec![];
            for (w, sc) in q {
                ops.push(Op::Add(if *sc == 0 { Scope::User } else { Scope::File(0) }, sw[*w].to_string()));
            }
            ops.push(Op::Restart);
            ops.push(Op::Lint(0, "zorb Zorb ZORB quix Quix".to_string()));
            ops.push(Op::Lint(1, "zorb Zorb ZORB quix Quix".to_string()));
            let h = Hist { lang: "plaintext".into(), urls: vec!["f:a/b.txt".into(), "f:a/c.txt".into()], ops };
            run_hist(&mut cx, &mut rep, &h, "sweep");
        }
        // every crash point of one add (thorough): small user dictionary, small file dictionary with non-ASCII
        // words, and a dictionary larger than the 8 KiB BufWriter (two write calls)
        if args.thorough() {
            let big: Vec<String> = (0..1500).map(|i| format!("w{}x{}", i, "qz".repeat(1 + i % 4))).collect();
            let points: Vec<(&str, u32)> = vec![
                ("open", 1), ("open", 2), ("open", 3), ("mkdir", 1), ("mkdir", 2), ("write", 1), ("write", 2), ("write", 3), ("write", 4),
                ("close", 1), ("close", 2), ("close", 3), ("rename", 1), ("rename", 2), ("sync", 1), ("sync", 2), ("unlink", 1),
            ];
            for (class, when) in &points {
                for scen in 0..3 {
                    let (sc, seed): (Scope, Vec<String>) = match scen {
                        0 => (Scope::User, vec!["alpha".into(), "beta".into()]),
                        1 => (Scope::File(0), vec!["alpha".into(), "žluťoučký".into(), "𝒜lpha".into()]),
                        _ => (Scope::User, big.clone()),
                    };
                    let ops = vec![
                        Op::Seed(sc.clone(), seed),
                        Op::Crash(sc.clone(), "gamma".into(), class.to_string(), *when),
                        Op::Lint(0, "alpha beta gamma w7xqzqzqzqz".into()),
                        // ... and the history goes on: a shorter word, then a longer one (C07_crash_then_add)
                        Op::Add(sc.clone(), "zu".into()),
                        Op::Add(sc, "gammagammagamma".into()),
                        Op::Lint(0, "alpha beta gamma zu gammagammagamma".into()),
                    ];
                    let h = Hist { lang: "plaintext".into(), urls: vec!["f:a/b.txt".into()], ops };
                    run_hist(&mut cx, &mut rep, &h, "sweep-crash");
                }
            }
        }
        // S: system-call order of real saves: empty / small / larger-than-BufWriter dictionaries, user and file scope
        for (k, w, f) in [(0usize, "gamma", false), (2, "gamma", false), (3, "žluťoučký", true), (1500, "gamma", false), (1500, "delta", true)] {
            run_order(&mut cx, &mut rep, k, w, f, "sweep-order");
        }
        for _ in 0..args.scale(3, 30) {
            let k = r.range(0, 40);
            let w = made_up(&mut r);
            let f = r.chance(1, 2);
            run_order(&mut cx, &mut rep, k, &w, f, "gen-order");
        }
        for i in 0..args.scale(60, 600) {
            let ops = gen_wasm(&mut r, i % 5 == 4);
            run_wasm(&mut cx, &mut rep, &ops, "gen");
        }
        // M: every pair of dictionaries over a small universe chosen so that concatenations coincide
        // ({aa, a} / {aaa}, {ab, c} / {a, bc} / {abc}, {aA, A} / {Aa, A}), incl. the empty word
        let universe: Vec<&str> = if args.thorough() { vec!["a", "aa", "aaa", "A", "aA", "Aa", ""] } else { vec!["a", "aa", "aaa", "aA", "Aa", ""] };
        let subsets: Vec<Vec<String>> = (0..(1usize << universe.len())).map(|m| (0..universe.len()).filter(|i| m >> i & 1 == 1).map(|i| universe[i].to_string()).collect()).collect();
        for a in &subsets {
            for b in &subsets {
                run_merge(&mut cx, &mut rep, a, b, "sweep-merge");
            }
        }
        for _ in 0..args.scale(200, 2000) {
            // random word lists incl. repeated words and other spellings of the same id, in random order
            let pool = gen_pool(&mut r);
            let mut a: Vec<String> = (0..r.range(0, 5)).map(|_| pool[r.below(pool.len())].clone()).collect();
            let b: Vec<String> = match r.below(3) {
                0 => {
                    let mut b = a.clone();
                    b.reverse();
                    b
                }
                1 => {
                    // glue two words / split one
                    let mut b = a.clone();
                    if b.len() >= 2 {
                        let x = b.remove(0);
                        b[0] = format!("{x}{}", b[0]);
                    }
                    b
                }
                _ => (0..r.range(0, 5)).map(|_| pool[r.below(pool.len())].clone()).collect(),
            };
            if r.chance(1, 2) {
                a.reverse();
            }
            run_merge(&mut cx, &mut rep, &a, &b, "gen-merge");
        }
        // V / K: the merged dictionary seen by the rule bodies; one dictionary after a run of adds
        for _ in 0..args.scale(400, 4000) {
            let pool = gen_pool(&mut r);
            let pick = |r: &mut Rng, n: usize| -> Vec<String> { (0..r.range(0, n)).map(|_| pool[r.below(pool.len())].clone()).collect() };
            let us = pick(&mut r, 4);
            let fs = pick(&mut r, 3);
            let ids = if r.chance(1, 2) { pick(&mut r, 3) } else { vec![] };
            let tok = if r.chance(1, 6) { CURATED_WORDS[r.below(CURATED_WORDS.len())].to_string() } else { pool[r.below(pool.len())].clone() };
            run_view(&mut cx, &mut rep, &us, &fs, &ids, &tok, "gen-view");
            let w = pool[r.below(pool.len())].clone();
            let post = pick(&mut r, 5);
            run_keeps(&mut cx, &mut rep, &w, &post, "gen-keeps");
        }
    }
    // ---- hypothesis monitors ----
    // char::is_lowercase(c) -> to_lowercase(c) = [c]   (the shortcut in CharStringExt::to_lower changes nothing)
    let mut bad = 0u64;
    for cp in 0..=0x10FFFFu32 {
        if let Some(c) = char::from_u32(cp) {
            if c.is_lowercase() && c.to_lowercase().collect::<Vec<_>>() != vec![c] {
                bad += 1;
            }
        }
    }
    rep.monitor("unicode:is_lowercase_but_to_lowercase_differs", bad);
    rep.monitor("word_id:model_id_and_real_id_disagree", cx.id_mismatch);
    rep.monitor("word_id:distinct_ids_seen", cx.ids.len() as u64);
    // a byte prefix of a UTF-8 text is valid exactly at character boundaries (the Clean/Torn abstraction)
    let mut torn_bad = 0u64;
    for s in ["zorgle\nžlutý\n𝒜lpha\n", "é", "日本語\n"] {
        let b = s.as_bytes();
        for i in 0..=b.len() {
            if std::str::from_utf8(&b[..i]).is_ok() != s.is_char_boundary(i) {
                torn_bad += 1;
            }
        }
    }
    rep.monitor("utf8:prefix_validity_differs_from_char_boundary", torn_bad);
    for (k, v) in &cx.crash_classes {
        rep.monitor(&format!("crash_state:{k}"), *v);
    }
    if bad > 0 || cx.id_mismatch > 0 || torn_bad > 0 {
        rep.fail("hypothesis", format!("a modelling hypothesis is violated: lowercase law {bad}, word id {}, utf8 {torn_bad}", cx.id_mismatch), json!({"kind": "monitor"}));
    }
    let _ = std::fs::remove_dir_all(&cx.base);
    let _ = cx.thorough;
    rep.finish();
}
