//! C01 — checking any text in any supported language never crashes or hangs.
//!
//! Search (carries what the model cannot: tree-sitter, pulldown-cmark, typst-syntax, the ~290 rule
//! bodies): every front-end x {default, all rules, random} configuration x dialect on generated
//! documents, every prefix of a sample of them (x 3 endings), unterminated markup, empty and
//! whitespace-only input, very long words, astral characters, the malformed stream.  Every case runs
//! under catch_unwind with a panic hook that records the panic *location* and under a watchdog
//! (hang = no return within the deadline).  A scaling probe (n, 2n, 4n) is reported in the evidence.
//!
//! Correspondence (src/c01_corr.rs, included below as a module): the pattern combinators through the public
//! `harper_core::patterns::*` API against the extracted Model/Pattern.v, `run_on_chunk` through a custom
//! PatternLinter, Mask glue through a recording inner parser, the LHS masker through its public
//! parser.
use harper_core::linting::{LintGroup, LintGroupConfig, Linter};
use harper_core::{Dialect, FstDictionary};
use hv::common::*;
use hv::frontends;
use hv::gen;
use serde_json::{json, Value};
use std::collections::HashMap;
use std::sync::atomic::{AtomicUsize, Ordering};
use std::sync::{Arc, Mutex};
use std::time::{Duration, Instant};

#[path = "../c01_corr.rs"]
mod corr;
#[path = "../c01_rules.rs"]
mod rules;
#[path = "../c01_bodies.rs"]
mod bodies;

// ---------------------------------------------------------------------------------------------
// panic capture with location (the hook installed by hv::cli() remembers it per thread)
// ---------------------------------------------------------------------------------------------
/// Like `guarded`, but also returns where the panic was raised (`file:line`, /repo-relative).
pub fn guarded_loc<T>(f: impl FnOnce() -> T) -> Result<T, (String, String)> {
    match guarded(f) {
        Ok(v) => Ok(v),
        Err(m) => {
            let loc = last_panic_location();
            let loc = loc.strip_prefix("/repo/").map(|s| s.to_string()).unwrap_or(loc);
            // library panics (core/alloc/std, third-party crates) keep their registry path; shorten it
            let loc = match loc.find("/registry/src/") {
                Some(i) => loc[i + "/registry/src/".len()..].splitn(2, '/').nth(1).unwrap_or(&loc).to_string(),
                None => loc,
            };
            Err((m, loc))
        }
    }
}

// ---------------------------------------------------------------------------------------------
// cases
// ---------------------------------------------------------------------------------------------
#[derive(Clone, Debug)]
pub struct Case {
    pub fe: String,
    pub text: String,
    /// "default" | "all" | "random:<seed>" | "none"
    pub cfg: String,
    pub dialect: usize,
    pub origin: String,
    /// reuse stream (tree-sitter front-ends): the text handed to `create_ident_dict` of the SAME parser instance
    /// right before `text` is parsed with it (an editor keeps one parser per file; harper-ls builds the identifier
    /// dictionary from one state of the buffer and may check another)
    pub prior: Option<String>,
}

const DIALECTS: [Dialect; 4] = [Dialect::American, Dialect::British, Dialect::Canadian, Dialect::Australian];
const DIALECT_NAMES: [&str; 4] = ["American", "British", "Canadian", "Australian"];

impl Case {
    fn to_json(&self) -> Value {
        let mut v = json!({"kind": "doc", "frontend": self.fe, "text": self.text, "config": self.cfg, "dialect": DIALECT_NAMES[self.dialect % 4],
               "origin": self.origin, "features": features(&self.fe, &self.text)});
        if let Some(p) = &self.prior {
            v["prior"] = json!(p);
        }
        v
    }
    fn from_json(v: &Value) -> Option<Case> {
        if v.get("kind").and_then(|k| k.as_str()).unwrap_or("doc") != "doc" {
            return None;
        }
        let d = v["dialect"].as_str().unwrap_or("American");
        Some(Case {
            fe: v["frontend"].as_str().unwrap_or("plain").to_string(),
            text: v["text"].as_str().unwrap_or("").to_string(),
            cfg: v["config"].as_str().unwrap_or("all").to_string(),
            dialect: DIALECT_NAMES.iter().position(|n| *n == d).unwrap_or(0),
            origin: v["origin"].as_str().unwrap_or("corpus").to_string(),
            prior: v["prior"].as_str().map(|s| s.to_string()),
        })
    }
}

/// Does the inner prose parser of this front-end go through `parsers::Markdown`?
pub fn markdown_based(fe: &str) -> bool {
    let base = fe.split('+').next().unwrap();
    !(base == "plain" || base == "html" || base == "typst" || base == "c:java")
}

/// A tab directly after a block-container marker (block quote `>`, list bullet, ordered-list
/// number), optionally separated from it by one space — the input class of F27.  Comment leaders in
/// front of the marker are allowed (comment front-ends hand the line to Markdown without them).
pub fn tab_after_container_marker(text: &str) -> bool {
    for line in text.split('\n') {
        let cs: Vec<char> = line.chars().collect();
        for i in 0..cs.len() {
            let marker_end = if cs[i] == '>' || cs[i] == '-' || cs[i] == '*' || cs[i] == '+' {
                Some(i + 1)
            } else if cs[i].is_ascii_digit() {
                let mut j = i;
                while j < cs.len() && cs[j].is_ascii_digit() {
                    j += 1;
                }
                if j < cs.len() && (cs[j] == '.' || cs[j] == ')') { Some(j + 1) } else { None }
            } else {
                None
            };
            if let Some(mut e) = marker_end {
                // everything before the marker must be blank, other container markers or comment leaders
                let prefix_ok = cs[..i].iter().all(|c| c.is_whitespace() || matches!(c, '>' | '-' | '*' | '+' | '/' | '#' | '!' | '.' | ')') || c.is_ascii_digit());
                if !prefix_ok {
                    break;
                }
                if e < cs.len() && cs[e] == ' ' {
                    e += 1;
                }
                if e < cs.len() && cs[e] == '\t' {
                    return true;
                }
            }
        }
    }
    false
}

/// A line (not the first) whose indentation contains a tab while an earlier line opened a block container
/// (list item / block quote) — the other input class of F27: the tab is partially consumed by the
/// container's indentation (e.g. a code fence opened in a list item and followed by tabs).
pub fn tab_indent_inside_container(text: &str) -> bool {
    let mut container_open = false;
    for line in text.split('\n') {
        // the leading run of whitespace, comment leaders and container markers
        let lead: String = line.chars().take_while(|c| c.is_whitespace() || matches!(c, '/' | '#' | '!' | '>' | '-' | '*' | '+')).collect();
        if container_open && lead.contains('\t') {
            return true;
        }
        let b = line.trim_start_matches(|c: char| c.is_whitespace() || matches!(c, '/' | '#' | '!'));
        let digits = b.chars().take_while(|c| c.is_ascii_digit()).count();
        let ordered = digits > 0 && matches!(b.chars().nth(digits), Some('.') | Some(')'));
        if b.starts_with('>') || b.starts_with('-') || b.starts_with('*') || b.starts_with('+') || ordered {
            container_open = true;
        }
    }
    false
}

/// The input class of F31: `[word ws] modal ws of [ws course]` (modal = could/might/must/should/would or
/// …n't, any capitalisation) in which one of the whitespace gaps is a MIXED run (two or more whitespace
/// characters that are not all the same: space+tab, line break + indentation, …) — such a gap lexes to
/// more than one whitespace token.
pub fn modal_mixed_ws_of(text: &str) -> bool {
    let cs: Vec<char> = text.chars().map(|c| c.to_ascii_lowercase()).collect();
    let is_ws = |c: char| c.is_whitespace();
    let mixed = |g: &[char]| g.len() >= 2 && g.iter().any(|c| *c != g[0]);
    let word_at = |i: usize, w: &str| -> bool {
        let wc: Vec<char> = w.chars().collect();
        i + wc.len() <= cs.len() && cs[i..i + wc.len()] == wc[..]
    };
    for m in ["couldn't", "mightn't", "mustn't", "shouldn't", "wouldn't", "couldn’t", "mightn’t", "mustn’t", "shouldn’t", "wouldn’t", "could", "might", "must", "should", "would"] {
        let ml = m.chars().count();
        for i in 0..cs.len() {
            if !word_at(i, m) {
                continue;
            }
            // gap modal -> of
            let mut j = i + ml;
            let g1 = j;
            while j < cs.len() && is_ws(cs[j]) {
                j += 1;
            }
            if j == g1 || !word_at(j, "of") {
                continue;
            }
            let mut any = mixed(&cs[g1..j]);
            // gap of -> course
            let mut k = j + 2;
            let g2 = k;
            while k < cs.len() && is_ws(cs[k]) {
                k += 1;
            }
            if k > g2 && word_at(k, "course") {
                any |= mixed(&cs[g2..k]);
            }
            // gap word -> modal
            let mut h = i;
            while h > 0 && is_ws(cs[h - 1]) {
                h -= 1;
            }
            if h < i && h > 0 {
                any |= mixed(&cs[h..i]);
            }
            if any {
                return true;
            }
        }
    }
    false
}

/// Input features the known-finding classifiers may refer to (computed, never hand-written).
pub fn features(fe: &str, text: &str) -> Value {
    json!({
        "markdown_based": markdown_based(fe),
        "tab_after_container_marker": tab_after_container_marker(text),
        "tab_indent_inside_container": tab_indent_inside_container(text),
        "go_directive": fe.starts_with("c:go") && text.contains("go:"),
        "modal_then_mixed_whitespace_then_of": modal_mixed_ws_of(text),
        "max_word_len": text.split(|c: char| c.is_whitespace()).map(|w| w.chars().count()).max().unwrap_or(0),
        "chars": text.chars().count(),
    })
}

#[derive(Clone, Debug)]
pub enum Outcome {
    Ok { tokens: usize, lints: usize, micros: u128, bad_tokens: usize, unordered: bool, span_order_bad: usize, span_order_what: String },
    Panic { stage: &'static str, msg: String, loc: String },
    Hang { secs: u64, stage: &'static str },
    /// not run: the search was cut short after MAX_HANGS hangs (hung threads cannot be killed and keep a core busy)
    Skipped,
}

const MAX_HANGS: usize = 12;
static SETUP_PANICS: AtomicUsize = AtomicUsize::new(0);

pub struct Worker {
    dict: Arc<FstDictionary>,
    groups: HashMap<usize, LintGroup>,
    keys: Vec<String>,
}

impl Worker {
    pub fn new() -> Self {
        Worker { dict: FstDictionary::curated(), groups: HashMap::new(), keys: vec![] }
    }
    fn group(&mut self, dialect: usize) -> &mut LintGroup {
        let dict = self.dict.clone();
        let g = self.groups.entry(dialect % 4).or_insert_with(|| LintGroup::new_curated(dict, DIALECTS[dialect % 4]));
        if self.keys.is_empty() {
            self.keys = g.iter_keys().map(|s| s.to_string()).collect();
            self.keys.sort();
        }
        g
    }
    pub fn configure(&mut self, dialect: usize, cfg: &str) {
        let keys = { self.group(dialect); self.keys.clone() };
        let g = self.group(dialect);
        match cfg {
            "default" => g.config = LintGroupConfig::new_curated(),
            "all" => g.set_all_rules_to(Some(true)),
            "none" => g.set_all_rules_to(Some(false)),
            other => {
                let seed = other.strip_prefix("random:").and_then(|s| s.parse::<u64>().ok()).unwrap_or(0);
                let mut r = Rng::new(seed);
                g.config = LintGroupConfig::new_curated();
                for k in &keys {
                    match r.below(3) {
                        0 => g.config.set_rule_enabled(k, true),
                        1 => g.config.set_rule_enabled(k, false),
                        _ => g.config.unset_rule_enabled(k),
                    }
                }
            }
        }
    }
    /// Build (if needed) and configure the lint group for this case; not part of the timed region
    /// (constructing the ~290 curated rules takes seconds in a debug build).
    pub fn prepare(&mut self, c: &Case) {
        self.configure(c.dialect, &c.cfg);
    }
    pub fn run(&mut self, c: &Case) -> Outcome {
        self.run_staged(c, &AtomicUsize::new(0))
    }
    /// `prepare(c)` must have been called.  `stage` is set to 1 once the document exists (so that the
    /// watchdog can tell a front-end that never returns from a rule that never returns).
    pub fn run_staged(&mut self, c: &Case, stage: &AtomicUsize) -> Outcome {
        let t0 = Instant::now();
        let dict = self.dict.clone();
        let doc = match guarded_loc(|| match &c.prior {
            Some(prior) => make_document_reuse(&c.fe, prior, &c.text, &dict),
            None => frontends::make_document(&c.fe, &c.text, &dict),
        }) {
            Ok(d) => d,
            Err((msg, loc)) => return Outcome::Panic { stage: "document", msg, loc },
        };
        stage.store(1, Ordering::SeqCst);
        let g = self.group(c.dialect);
        let r = guarded_loc(|| g.lint(&doc));
        match r {
            Ok(l) => {
                let n = doc.get_source().len();
                let toks = doc.get_tokens();
                // premise of the C01 pattern theorems (C02's invariant): every token lies inside the source
                let bad_tokens = toks.iter().filter(|t| t.span.start > t.span.end || t.span.end > n).count();
                let unordered = toks.windows(2).any(|w| w[0].span.end > w[1].span.start);
                // premise span_ord of the Span::new site theorems (phase 7; weaker than C02's OrderedDisjoint + ZeroWidthOnlyBreaks):
                // (a) a Word / Number / Punctuation / Space token is never empty, (b) the start offsets of the tokens that
                // cover characters never decrease (zero-width tokens may sit anywhere, a token may be emitted twice)
                let mut span_order_bad = 0usize;
                if std::env::var_os("C01_DUMP_TOKENS").is_some() {
                    eprintln!("tokens of {:?}: {}", c.text, toks.iter().map(|t| format!("{}..{}:{}", t.span.start, t.span.end, format!("{:?}", t.kind).chars().take(6).collect::<String>())).collect::<Vec<_>>().join(" "));
                }
                let mut hi = 0usize;
                let mut span_order_what = String::new();
                for (ti, t) in toks.iter().enumerate() {
                    use harper_core::TokenKind as K;
                    let nz_kind = matches!(t.kind, K::Word(_) | K::Number(_) | K::Punctuation(_) | K::Space(_));
                    if nz_kind && t.span.start >= t.span.end {
                        span_order_bad += 1;
                        if span_order_what.is_empty() {
                            span_order_what = format!("token {ti} {} {}..{} is empty", format!("{:?}", t.kind).chars().take(12).collect::<String>(), t.span.start, t.span.end);
                        }
                    }
                    if t.span.start < t.span.end {
                        if t.span.start < hi {
                            span_order_bad += 1;
                            if span_order_what.is_empty() {
                                span_order_what = format!("token {ti} {} {}..{} starts before the start {hi} of the token before it", format!("{:?}", t.kind).chars().take(12).collect::<String>(), t.span.start, t.span.end);
                            }
                        }
                        hi = t.span.start;
                    }
                }
                Outcome::Ok { tokens: toks.len(), lints: l.len(), micros: t0.elapsed().as_micros(), bad_tokens, unordered, span_order_bad, span_order_what }
            }
            Err((msg, loc)) => {
                // the group's cache may be half-updated: rebuild it
                self.groups.remove(&(c.dialect % 4));
                Outcome::Panic { stage: "lint", msg, loc }
            }
        }
    }
}

/// CPU time (user + system, in clock ticks of 10 ms) a thread of this process has consumed, read from
/// /proc; `task` is what `/proc/thread-self` pointed to inside that thread ("<pid>/task/<tid>").
fn thread_cpu_ticks(task: &str) -> Option<u64> {
    let s = std::fs::read_to_string(format!("/proc/{task}/stat")).ok()?;
    let rest = &s[s.rfind(')')? + 2..];
    let f: Vec<&str> = rest.split(' ').collect();
    Some(f.get(11)?.parse::<u64>().ok()? + f.get(12)?.parse::<u64>().ok()?)
}
fn own_task() -> String {
    std::fs::read_link("/proc/thread-self").map(|p| p.to_string_lossy().to_string()).unwrap_or_default()
}
/// "No return within the deadline" is measured in CPU seconds of the thread that runs the case (a
/// loop that never ends burns CPU), so that a loaded machine does not turn slow cases into hangs;
/// a case that blocks without burning CPU is declared hung after 12 x the deadline of wall time.
fn over_deadline(task: &str, cpu_start: u64, t0: Instant, deadline: Duration) -> bool {
    let wall = t0.elapsed();
    if wall <= deadline {
        return false;
    }
    match thread_cpu_ticks(task) {
        Some(now) => now.saturating_sub(cpu_start) >= deadline.as_secs() * 100 || wall > deadline * 12,
        None => true,
    }
}

/// Run all cases on `threads` workers under a watchdog.  Results come back in case order.
pub fn run_cases(cases: Arc<Vec<Case>>, threads: usize, deadline: Duration) -> Vec<Outcome> {
    let n = cases.len();
    let next = Arc::new(AtomicUsize::new(0));
    let results: Arc<Mutex<Vec<Option<Outcome>>>> = Arc::new(Mutex::new(vec![None; n]));
    // per worker: (case index, start) of the case in flight; generation counter to abandon a hung worker
    type Slot = Arc<Mutex<Option<(usize, Instant, u64, String, Arc<AtomicUsize>)>>>;
    let spawn = |slot: Slot, next: Arc<AtomicUsize>, results: Arc<Mutex<Vec<Option<Outcome>>>>, cases: Arc<Vec<Case>>| {
        std::thread::Builder::new()
            .stack_size(64 << 20)
            .spawn(move || {
                let mut w = Worker::new();
                let task = own_task();
                let stage = Arc::new(AtomicUsize::new(0));
                loop {
                    let i = next.fetch_add(1, Ordering::SeqCst);
                    if i >= cases.len() {
                        *slot.lock().unwrap() = None;
                        break;
                    }
                    // building the ~290 curated rules runs pattern code too: a panic there is a finding, not a dead worker
                    let out = match guarded_loc(|| w.prepare(&cases[i])) {
                        Err((msg, loc)) => {
                            w = Worker::new();
                            // building the rules fails again and again (seconds each): a few dozen witnesses are enough
                            if SETUP_PANICS.fetch_add(1, Ordering::SeqCst) > 40 {
                                next.store(cases.len(), Ordering::SeqCst);
                            }
                            Outcome::Panic { stage: "setup (LintGroup::new_curated / configuration)", msg, loc }
                        }
                        Ok(()) => {
                            stage.store(0, Ordering::SeqCst);
                            *slot.lock().unwrap() = Some((i, Instant::now(), thread_cpu_ticks(&task).unwrap_or(0), task.clone(), stage.clone()));
                            w.run_staged(&cases[i], &stage)
                        }
                    };
                    let mut res = results.lock().unwrap();
                    if res[i].is_none() {
                        res[i] = Some(out);
                    } else {
                        // the watchdog already declared this case hung and replaced this worker
                        break;
                    }
                    drop(res);
                    *slot.lock().unwrap() = None;
                }
            })
            .unwrap()
    };
    let mut slots: Vec<Slot> = vec![];
    let mut handles = vec![];
    for _ in 0..threads.max(1) {
        let slot: Slot = Arc::new(Mutex::new(None));
        handles.push(Some(spawn(slot.clone(), next.clone(), results.clone(), cases.clone())));
        slots.push(slot);
    }
    let mut hangs = 0usize;
    loop {
        std::thread::sleep(Duration::from_millis(50));
        let done = results.lock().unwrap().iter().filter(|r| r.is_some()).count();
        if done >= n {
            break;
        }
        let mut busy = 0;
        for k in 0..slots.len() {
            let cur = slots[k].lock().unwrap().clone();
            if let Some((i, t0, cpu0, task, stage)) = cur {
                if over_deadline(&task, cpu0, t0, deadline) {
                    let mut res = results.lock().unwrap();
                    if res[i].is_none() {
                        res[i] = Some(Outcome::Hang { secs: deadline.as_secs(), stage: if stage.load(Ordering::SeqCst) == 0 { "document" } else { "lint" } });
                        drop(res);
                        hangs += 1;
                        // abandon the hung thread (it cannot be killed) and start a fresh worker
                        let slot: Slot = Arc::new(Mutex::new(None));
                        // the hung thread's handle is dropped (detached); handles[k] tracks the live worker of slot k
                        handles[k] = if hangs < MAX_HANGS { Some(spawn(slot.clone(), next.clone(), results.clone(), cases.clone())) } else { None };
                        slots[k] = slot;
                    }
                } else {
                    busy += 1;
                }
            }
        }
        if busy == 0 && handles.iter().all(|h| h.as_ref().map(|h| h.is_finished()).unwrap_or(true)) {
            // every worker is gone (died outside a guarded region, or all hung) but cases remain
            std::thread::sleep(Duration::from_millis(100));
            let mut res = results.lock().unwrap();
            let mut first = true;
            for r in res.iter_mut() {
                if r.is_none() {
                    *r = Some(if first && hangs < MAX_HANGS && SETUP_PANICS.load(Ordering::SeqCst) <= 40 { Outcome::Panic { stage: "worker", msg: "a worker thread died outside catch_unwind".into(), loc: last_panic_location() } } else { Outcome::Skipped });
                    first = false;
                }
            }
            break;
        }
        if hangs >= MAX_HANGS {
            // enough evidence: stop handing out cases, let the cases in flight finish (or time out)
            next.store(n, Ordering::SeqCst);
            if busy == 0 && next.load(Ordering::SeqCst) >= n {
                std::thread::sleep(Duration::from_millis(200));
                let mut res = results.lock().unwrap();
                for r in res.iter_mut() {
                    if r.is_none() {
                        *r = Some(Outcome::Skipped);
                    }
                }
                break;
            }
        }
    }
    let res = results.lock().unwrap();
    res.iter().map(|o| o.clone().unwrap()).collect()
}

// ---------------------------------------------------------------------------------------------
// generators
// ---------------------------------------------------------------------------------------------
fn comment_wrap(lang: &str, body: &str, style: usize) -> String {
    let hash = matches!(lang, "python" | "ruby" | "toml" | "shellscript" | "cmake" | "nix");
    let dash = matches!(lang, "lua" | "haskell");
    if hash {
        body.split('\n').map(|l| format!("# {l}")).collect::<Vec<_>>().join("\n")
    } else if dash {
        match style % 2 {
            0 => body.split('\n').map(|l| format!("-- {l}")).collect::<Vec<_>>().join("\n"),
            _ => {
                if lang == "lua" {
                    format!("--[[ {body} ]]")
                } else {
                    format!("{{- {body} -}}")
                }
            }
        }
    } else {
        match style % 4 {
            0 => body.split('\n').map(|l| format!("// {l}")).collect::<Vec<_>>().join("\n"),
            1 => format!("/* {body} */"),
            2 => format!("/**\n{}\n */", body.split('\n').map(|l| format!(" * {l}")).collect::<Vec<_>>().join("\n")),
            _ => body.split('\n').map(|l| format!("/// {l}")).collect::<Vec<_>>().join("\n"),
        }
    }
}

const MD_UNTERMINATED: &[&str] = &[
    "[link](", "[link](http://x", "[a][", "```", "```rust\nlet teh = 1;", "~~~\ncode", "**bold", "*emph", "`code", "``a`", "<div", "<div>\ntext",
    "| a |", "| a | b |\n|---|", "| a |\n|--|\n| teh", "> ", ">", "> \t\t!", ">\t\tx", "- ", "-", "- \t\tx", "1. ", "1.\t\tx", "1) a\n   b", "[[wiki|", "[[wiki", "[[a|b]]", "[[a]]", "[[",
    "a | b ]]", "$math", "$$", "$$\nx", "$a$", "![img](", "<!--", "<!-- teh -->", "&amp", "&amp;", "&#x1F600;", "\\", "* * *", "- [ ] task", "- [x", "[^1]: foot", "[^1]", "~~strike",
    "# ", "#", "###### h", "Setext\n===", "a\n---", "    indented code", "\ttab", "a  \nb", "a\\\nb", "<a href=\"x\">teh</a>", "<https://x.y>", "https://x.y", "a\n\n\n\nb", "* a\n\n  b\n* c",
    "1. a\n   - b\n     > c", "> - a\n> - b", "- ```\n  code", "- ```\n\t\tx", "> ```\n> \t\tx", "Term\n: definition", "---\ntitle: x\n---\ntext", "+++\na\n+++", "{#id .class}", "# h {#id}",
    // two words that are neighbours in the token list without whitespace between them (markup is not a token)
    "the*the*", "**very**very much", "teh[teh](x)", "is~~is~~ is", "a*a*a", "The **The** the*the* end.", "that_that_", "and<b>and</b>",
    // raw HTML / code / link targets that contain non-ASCII characters (bytes != characters), at the end of the text
    "All done <!-- à revoir -->", "The menu lists <span title=\"café\">", "<div>café</div>\n", "<!-- 😀 -->", "a <b>é</b>", "<é>", "`é😀`", "[a](http://é.x/😀)", "![é](é)", "```é\n😀", "<div>\né\n</div>",
    "a[^n]\n\n[^n]: teh note", "*a **b* c**", "_a_b_", "\u{0}", "a\u{0}b", "\r", "a\rb", "a\r\n\r\nb", "\u{feff}# h", "  \n  ", "\n\n\n", "\t", " \t \n",
];

const HTML_UNTERMINATED: &[&str] = &[
    "<p", "<p>text", "<p>text</", "<p>text</p", "<!-- comment", "<!--", "<script>", "<script>var teh", "<style>p{", "&nbsp", "&nbsp;", "<a href=\"", "<a href=\"x\">teh",
    "<![CDATA[", "<br/>", "<p>a<br>b</p>", "text only", "<p>a</p>  <p>b</p>", "<ul><li>a<li>b", "</p>", "<>", "< p>", "<p\n>a", "<p>😀 teh</p>", "<p>é</p><p>teh</p>", "<!DOCTYPE html>",
    "<p>the<b>the</b></p>", "<p>very<i>very</i> much</p>", "<p>a<br>a</p>", "<p>a&lt;b</p>", "<textarea>teh", "<title>teh", "<p title='teh'>a</p>", "<svg><text>teh</text></svg>", "<p>a\n\nb</p>",
];

const TYPST_UNTERMINATED: &[&str] = &[
    "#let", "#let x", "#let x =", "#let x = ", "= Heading", "=", "#set", "text set", "a set", "#set text(", "$x", "$", "$ x $", "#figure(", "#figure(caption: [", "#[", "#[a", "*bold", "_emph", "`raw",
    "```raw", "```rust\nlet teh", "#import \"", "#import", "#import \"a.typ\": b", "#show:", "#show", "#show heading: it => [", "/* comment", "// c", "#x.", "#x.y", "#x.y(", "#x.y.z", "<label", "<label>",
    "@ref", "@", "#\"", "#\"abc", "#\"abc\"", "#\"é😀\"", "#(\"a\" + \"b\")", "- item\n  - nested", "+ enum", "/ Term: desc", "/ Term", "#if", "#if x", "#if x {", "#if x [a] else", "#for x in", "#for",
    "#while", "#{", "#{ let", "#(", "#(a: 1, ..b)", "#(a: 1", "#let (a, b) = (1, 2)", "#let (a, ..b) = c", "#let (a: b) = c", "#let f(x, ..y) = x", "#let f(x: 1) = x", "#let _ = 1", "https://", "https://x.y",
    "\\", "\\#", "\\u{1F600}", "#context", "#context text.lang", "#include", "#include \"a\"", "#x(..y)", "#x(a: 1)[b]", "#rgb(\"fff\")", "#raw(\"teh\", theme: \"x\")", "#cite(<a>, style: \"x\")",
    "#a.display()", "#return", "#break", "#none", "#1", "#1.5em", "#x => y", "#((x) => y)", "#(x, y) => z", "#{x = 1}", "#{(a, b) = c}", "#{x += 1}", "a -- b --- c ... ~", "\"quoted\" 'single'",
    "'", "\"", "a'b", "#", "##", "#!", "a#b", "a #b c", "$ #x $", "#$x$", "=== H\ntext", "= H\n\n= I", "- a\n\nb", "a \\\nb", "#[\n]", "#[ ]", "#table(columns: 2)[a][b]", "#link(\"x\")[teh]",
    "*the*the", "the_the_ end", "very#[very] much", "a*a*a", "#text(fill: red)[teh]", "#par[teh]", "#emph[teh]", "#strong[", "#lorem(5)", "#x.at(0)", "#x.y = 1", "#{x.y = 1}", "#let x = y.z", "#set x.y(z: 1)", "#show x.y: z", "#show: x.y", "#set text(1pt) if x",
];

const LHS_UNTERMINATED: &[&str] = &[
    ">", "> ", ">x", ">\n", "\\begin{code}", "\\begin{code}\nfoo", "text\n\n>", "\n>", ">\n>", "\\end{code}", "text\n\\begin{code}", "text\n\n> code\n\ntext", "text\n> not code", "\n> x", "\n>\n",
    "a\n\n>\n\nb", " > x", "\\begin{code} ", " \\end{code}", "\\begin{code}\n\\begin{code}\n", "a\n\\end{code}\nb", "\n\n\n", ">>", "> > x", "a\r\n\r\n> b\r\n",
];

const COMMENT_BODIES: &[&str] = &[
    "", " ", "teh", "the*the*", "**very**very much", "{@link foo", "{@link foo}", "{@link", "{@", "{", "{@link foo} {@link", "@param x teh", "@param", "@", "a @b c", "{@code a\nb}", "```\ncode\n```", "```", "```\ncode",
    "go:generate foo", "go:build x\n", "go:build x\nteh words", "go:", "spellchecker:ignore teh", "harper:ignore", "> \t\tx", "- \t\tx", "a\n\n\n\nb", "a\n\n\n\n\nb", "TODO: teh", "<p>teh</p>",
    "<b>teh", "* a\n* b", "1. a", "# h", "a `b` c", "[a](b)", "é😀 teh", "\t", "!", "!!", "*", "-", "#", "/", "a */ b", "a /* b", "a -- b", "a # b", "\\", "a\\", "'", "\"",
];

fn unterminated_for(fe: &str) -> Vec<String> {
    let base = fe.split('+').next().unwrap();
    let mut v: Vec<String> = vec![];
    match base {
        "plain" => {}
        "markdown" | "markdown-ilt" => v.extend(MD_UNTERMINATED.iter().map(|s| s.to_string())),
        "gitcommit" => {
            v.extend(MD_UNTERMINATED.iter().take(40).map(|s| s.to_string()));
            v.extend(["#", "a #", "# only comment", "subject\n\nbody\n# comment", "Fix #12 teh bug", "a\n#", "#\n", "\n#"].iter().map(|s| s.to_string()));
        }
        "html" => v.extend(HTML_UNTERMINATED.iter().map(|s| s.to_string())),
        "typst" => v.extend(TYPST_UNTERMINATED.iter().map(|s| s.to_string())),
        "lhaskell" => {
            v.extend(LHS_UNTERMINATED.iter().map(|s| s.to_string()));
            v.extend(MD_UNTERMINATED.iter().take(30).map(|s| s.to_string()));
        }
        other => {
            let lang = other.strip_prefix("c:").unwrap_or(other);
            for (i, b) in COMMENT_BODIES.iter().enumerate() {
                v.push(comment_wrap(lang, b, i));
                v.push(comment_wrap(lang, b, i + 1));
                if i % 3 == 0 {
                    v.push(comment_wrap(lang, b, i + 2));
                }
            }
            for s in [
                "/*", "/**", "/** ", "/**/", "/***/", "/* a", "/** {@link foo", "//", "// ", "///", "//!", "#", "#!", "#!/bin/sh", "#!/bin/sh\n# teh", "--", "--[[", "--[[ a", "--[==[ a ]==]", "{-", "{- a", "{-| a -}",
                "'''", "\"\"\"", "\"\"\" teh \"\"\"", "\"", "'", "\"a", "x = \"é😀\" // teh", "//go:generate", "//go:build x\n//", "//go:build x\n// teh", "/// ```\n/// code", "// ```", "/* a */ /* b */",
                "/* a */\n\n\n\n/* b */", "// a\n\n\n\n\n// b", "# a\n\n\n\n # b", "// spellchecker:ignore", "/* é */ x /* 😀 teh */", "<?php // teh", "<?php /* teh", "<?php\n# teh\n?> teh <?php // teh",
                "=begin\nteh\n=end", "=begin\nteh", "<<EOF\nteh\nEOF", "#[[ teh ]]", "#[[ teh", "/+ teh +/", "(* teh *)", "; teh", "% teh", "<!-- teh -->", "{/* teh */}", "<div>{/* teh */}</div>",
                // (the F32 witness `f(1(1` and the F33 witness `/* try: 90-` live in corpus/C01 only: every hang costs 10 s and a core until the process exits)
                "const x = <div>// teh</div>;", "`${/* teh */ 1}`", "r#\"// teh\"#", "'//' // teh", "x /* a /* b */ c */ y", "#if 0\nteh\n#endif", "\\\n// teh", "// a \\\nteh",
            ] {
                v.push(s.to_string());
            }
            // code that is being typed: unterminated nested calls / brackets.  tree-sitter-dart is known to
            // never return on several of these (F32); every such case costs 10 s and a core until the process
            // exits, so Dart only gets the one witness above.
            if lang != "dart" {
                for s in ["1(1(1", "foo(bar(1\n", "a[b[1", "f(g(h(", "((((((((", "[[[[[[[[", "{{{{{{{{", "f(\"a", "f(1, (2, (3", "x = f(1(1;", "if (a(b(", "a.b(c.d(1"] {
                    v.push(s.to_string());
                }
            }
        }
    }
    v
}

fn edge_texts() -> Vec<(String, &'static str)> {
    let mut v: Vec<(String, &'static str)> = vec![];
    for s in ["", " ", "\n", "\t", "\r\n", "  \n\t ", "\u{a0}", "\u{2028}", "\u{feff}", "\u{0}"] {
        v.push((s.to_string(), "edge:empty/whitespace"));
    }
    for n in [254usize, 255, 256, 300] {
        v.push(("a".repeat(n), "edge:long-word"));
        v.push((format!("The {} is here.", "x".repeat(n)), "edge:long-word"));
        v.push((format!("{} {}", "teh".repeat(n / 3), "é".repeat(n)), "edge:long-word"));
    }
    for s in ["😀", "𝒜𝒷𝒸 𝒹", "a😀b teh 😀", "\u{10FFFF}", "\u{10000}\u{10FFFF} x", "👨‍👩‍👧 family", "e\u{301}\u{301}\u{301}", "𐐷𐐷 teh", "漢字 teh 漢字"] {
        v.push((s.to_string(), "edge:astral"));
    }
    v
}

/// Replace single spaces by whitespace that lexes to SEVERAL whitespace tokens (space+tab, newline+space, NBSP…):
/// rule bodies that assume "one whitespace token between two words" index out of range on these.
fn ws_mutate(text: &str, r: &mut Rng) -> String {
    let mut out = String::new();
    for c in text.chars() {
        if c == ' ' && r.chance(1, 3) {
            out.push_str(r.s(&[" \t ", "\n ", " \n", "\t ", " \t", "  \t", "\u{a0} ", " \u{a0}", "\n\t", " \r\n "]));
        } else {
            out.push(c);
        }
    }
    out
}

/// Replace ASCII letters by non-ASCII ones (2-, 3- and 4-byte characters), inside markup too: code that
/// measures text in bytes where harper counts characters (raw HTML, code spans, link targets, comment
/// leaders, …) places tokens past the end of the source on these.
fn nonascii_mutate(text: &str, r: &mut Rng) -> String {
    let mut out = String::new();
    let mut changed = false;
    for c in text.chars() {
        if c.is_ascii_alphabetic() && r.chance(1, 3) {
            out.push(*r.pick(&['é', 'à', 'ü', 'ß', 'ı', '漢', '😀', 'Ω']));
            changed = true;
        } else {
            out.push(c);
        }
    }
    if !changed {
        out.push('é');
    }
    out
}

/// Text the condense passes of `Document::parse` merge into ONE token (ordinals `1st`, contractions,
/// dotted initialisms, ellipses, …) with markup opened INSIDE it, so that the merged neighbours are not
/// contiguous in the source — at the very start of the document and after other text.
fn split_by_markup(fe: &str, thin: bool) -> Vec<String> {
    let base = fe.split('+').next().unwrap();
    let wrappers: &[(&str, &str)] = match base {
        "plain" | "c:java" => return vec![],
        "html" => &[("<b>", "</b>"), ("<sup>", "</sup>"), ("<i>", ""), ("<!-- x -->", "")],
        "typst" => &[("*", "*"), ("_", "_"), ("#[", "]"), ("#emph[", "]"), ("/* x */", "")],
        _ => &[("*", "*"), ("**", "**"), ("_", "_"), ("[", "](x)"), ("~~", "~~"), ("<sup>", "</sup>"), ("<!-- x -->", "")],
    };
    const MERGED: &[&str] = &["1st", "2nd", "3rd", "4th", "21st", "1,000th", "1.5th", "don't", "it's", "o'clock", "e.g.", "U.S.A.", "a.m.", "...", "$5", "5%", "a--b", "x.y.z", "\"a\"", "''"];
    let comment = base.starts_with("c:");
    let mut v = vec![];
    for (wi, w) in MERGED.iter().enumerate() {
        let cs: Vec<char> = w.chars().collect();
        for k in 1..cs.len() {
            for (xi, (open, close)) in wrappers.iter().enumerate() {
                // comment front-ends (22 languages) get a thinner sample
                if comment && (wi + k + xi) % 4 != 0 {
                    continue;
                }
                // quick tier: half of the (word, split, wrapper) triples; every word and wrapper still occurs
                if thin && !comment && (wi + k + xi) % 2 != 0 {
                    continue;
                }
                let head: String = cs[..k].iter().collect();
                let tail: String = cs[k..].iter().collect();
                let core = format!("{head}{open}{tail}{close}");
                let mut placed = vec![core.clone(), format!("{core} place goes to her.")];
                if !thin || (wi + k + xi) % 4 == 0 {
                    placed.push(format!("The {core} one."));
                }
                for t in placed {
                    v.push(if comment { comment_wrap(&base[2..], &t, wi + k) } else { t });
                }
            }
        }
    }
    v
}

/// Unusual literals: lexable constructs far beyond the sizes that tests use — `0x` literals of 15..40 hex
/// digits (u64 overflows at 17), digit runs of 20..400, huge exponents, long thousands groups, dotted
/// initialisms of 50/150 letters, 300-char URLs / e-mail addresses / hostnames, 300-fold punctuation,
/// long hyphen / apostrophe chains.
fn unusual_literals(r: &mut Rng) -> Vec<String> {
    let mut v: Vec<String> = vec![];
    const HEX: &[char] = &['0', '1', '2', '3', '4', '5', '6', '7', '8', '9', 'a', 'b', 'c', 'd', 'e', 'f', 'A', 'B', 'C', 'D', 'E', 'F'];
    for n in 15..=40usize {
        let mut h = String::from("0x");
        for _ in 0..n {
            h.push(*r.pick(HEX));
        }
        v.push(h);
    }
    v.push("0x52908400098527886E0F7030069857D2E4169EE7".into());
    v.push(format!("0x{}", "F".repeat(16)));
    v.push(format!("0x{}", "f".repeat(17)));
    v.push(format!("0X{}", "1".repeat(20)));
    v.push(format!("0x{}th", "9".repeat(18)));
    for n in [20usize, 40, 100, 400] {
        let d: String = (0..n).map(|i| char::from(b'0' + ((i * 7 + 1) % 10) as u8)).collect();
        v.push(d.clone());
        v.push(format!("1.{d}"));
        v.push(format!("{d}.5"));
        v.push(format!("{d}th"));
        v.push(format!("{d}s"));
        v.push(format!("${d}"));
        v.push(format!("1e{n}"));
        v.push(format!("1e-{n}"));
        v.push(format!("1{}", ",000".repeat(n / 4)));
        v.push(format!("{d}%"));
    }
    for n in [50usize, 150] {
        v.push((0..n).map(|i| format!("{}.", char::from(b'a' + (i % 26) as u8))).collect::<String>());
        v.push((0..n).map(|i| format!("{}.", char::from(b'A' + (i % 26) as u8))).collect::<String>());
        v.push("e.g.".repeat(n));
        v.push("a-".repeat(n) + "a");
        v.push("a'".repeat(n) + "a");
        v.push("n't".repeat(n));
        v.push("a.b".repeat(n));
    }
    let long = "abcdefghij".repeat(30);
    v.push(format!("https://{long}.com/{long}?{long}={long}#{long}"));
    v.push(format!("http://a.b/{}", "%41".repeat(100)));
    v.push(format!("https://{}", "a.".repeat(150)));
    v.push(format!("{long}@{long}.com"));
    v.push(format!("a@{}com", "b.".repeat(150)));
    v.push(format!("{}@b.c", "a.".repeat(150)));
    v.push(format!("a@b.c{}", "@b.c".repeat(80)));
    v.push(format!("{}.{}.{}.org", &long[..100], &long[..100], &long[..100]));
    v.push(format!("@{long}"));
    v.push(format!("#{long}"));
    for p in ["!", "?", ".", ",", "'", "\"", "-", "…", "“", "’", "(", ")", "$", "%", "@", "&", "/", "\\", ":", ";"] {
        v.push(p.repeat(300));
    }
    v.push("\"a ".repeat(150));
    v.push("(a ".repeat(150));
    v
}

/// Deeply nested markup for this front-end (every nesting construct, depth 32 and 200; code-level nesting
/// for the tree-sitter languages only at depth 48 and never for Dart, see F32).
fn deep_nesting(fe: &str) -> Vec<String> {
    let base = fe.split('+').next().unwrap();
    let mut v = vec![];
    let nest = |open: &str, close: &str, d: usize| format!("{}teh{}", open.repeat(d), close.repeat(d));
    let md: &[(&str, &str)] = &[(">", ""), ("> ", ""), ("- ", ""), ("* ", ""), ("1. ", ""), ("[", "](x)"), ("![", "](x)"), ("*", "*"), ("**", "**"), ("_", "_"), ("~~", "~~"), ("`", "`"), ("<b>", "</b>"), ("<div>\n", "\n</div>"), ("[[", "]]"), ("$", "$"), ("(", ")"), ("{", "}"), ("\"", "\""), ("#", "")];
    let html: &[(&str, &str)] = &[("<b>", "</b>"), ("<div>", "</div>"), ("<ul><li>", "</li></ul>"), ("<p>", ""), ("<", ">"), ("<!--", "-->"), ("<a href='", "'>"), ("&", ";"), ("<table><tr><td>", "</td></tr></table>")];
    let typst: &[(&str, &str)] = &[("#[", "]"), ("*", "*"), ("_", "_"), ("#emph[", "]"), ("#(", ")"), ("#{", "}"), ("$", "$"), ("- ", ""), ("+ ", ""), ("/ ", ": "), ("= ", ""), ("[", "]"), ("#f(", ")"), ("#text(fill: red)[", "]"), ("\"", "\"")];
    let depths: &[usize] = if base == "typst" { &[32, 64] } else { &[32, 200] };
    match base {
        "plain" => {
            for (o, c) in [("(", ")"), ("\"", "\""), ("'", "'"), ("[", "]")] {
                v.push(nest(o, c, 200));
            }
        }
        "html" => {
            for (o, c) in html {
                for d in depths {
                    v.push(nest(o, c, *d));
                    v.push(format!("{}teh", o.repeat(*d)));
                }
            }
        }
        "typst" => {
            for (o, c) in typst {
                for d in depths {
                    v.push(nest(o, c, *d));
                    v.push(format!("{}teh", o.repeat(*d)));
                }
            }
        }
        "markdown" | "markdown-ilt" | "gitcommit" | "lhaskell" => {
            for (o, c) in md {
                for d in depths {
                    v.push(nest(o, c, *d));
                    v.push(format!("{}teh", o.repeat(*d)));
                }
            }
            // nested lists / quotes by indentation
            v.push((0..40).map(|i| format!("{}- teh item\n", "  ".repeat(i))).collect());
            v.push((0..40).map(|i| format!("{} teh quote\n", ">".repeat(i + 1))).collect());
        }
        other => {
            let lang = other.strip_prefix("c:").unwrap_or(other);
            for (i, (o, c)) in md.iter().enumerate() {
                v.push(comment_wrap(lang, &nest(o, c, 32), i));
                if i % 4 == 0 {
                    v.push(comment_wrap(lang, &format!("{}teh", o.repeat(200)), i + 1));
                }
            }
            for (o, c) in [("{@link ", "}"), ("{@code ", "}"), ("@param ", ""), ("<p>", "</p>")] {
                v.push(comment_wrap(lang, &nest(o, c, 48), 2));
            }
            if lang != "dart" {
                for (o, c) in [("(", ")"), ("[", "]"), ("{", "}"), ("f(", ")"), ("/*", "*/"), ("\"", "\"")] {
                    v.push(format!("{} // teh\n", nest(o, c, 48)));
                }
            }
        }
    }
    v
}

/// `#!` lines that contain non-ASCII characters, followed by short comment text (the comment lines merged
/// with the shebang are shorter than the line's excess of UTF-8 bytes over characters).
const SHEBANGS: &[&str] = &[
    "#!/bin/sh ééééé\n# ok", "#!/home/jürgen/büro/größe/bin/zsh\n# teh comment", "#!/usr/bin/env python3 # 😀😀\n#\n# x", "#!é\n#", "#!😀\n# a\n\nx = 1 # teh",
    "#!/usr/bin/env node é漢字\n// ok", "#!/bin/sh\n# é", "#!ééé", "#! é\r\n# teh", "#!/bin/漢字漢字漢字漢字\n#!\n# teh\n",
];

fn prefixes(text: &str) -> Vec<String> {
    let cs: Vec<char> = text.chars().collect();
    let mut out = vec![];
    for k in 0..=cs.len() {
        let p: String = cs[..k].iter().collect();
        out.push(p.clone() + " ");
        out.push(p.clone() + "\n");
        out.push(p);
    }
    out
}

/// ONE parser instance: `create_ident_dict(prior)`, then the document of `text` is built with the same instance.
fn make_document_reuse(fe: &str, prior: &str, text: &str, dict: &Arc<FstDictionary>) -> harper_core::Document {
    use harper_core::parsers::MarkdownOptions;
    let mdo = MarkdownOptions::default();
    let a: Arc<Vec<char>> = Arc::new(prior.chars().collect());
    let source: Vec<char> = text.chars().collect();
    if fe == "lhaskell" {
        let p = harper_literate_haskell::LiterateHaskellParser::new_markdown(mdo);
        let _ = p.create_ident_dict(&a, mdo);
        harper_core::Document::new_from_vec(harper_core::Lrc::new(source), &p, dict)
    } else {
        let lang = fe.strip_prefix("c:").unwrap_or(fe);
        let p = harper_comments::CommentParser::new_from_language_id(lang, mdo).expect("unknown language id");
        let _ = p.create_ident_dict(&a);
        harper_core::Document::new_from_vec(harper_core::Lrc::new(source), &p, dict)
    }
}

/// The reuse stream: for every tree-sitter front-end, histories `create_ident_dict(A); parse(B)` on one parser with
/// B != A — prefixes of A (x 3 endings), A with a line deleted / inserted / replaced by multi-byte text, A with its
/// ASCII letters made multi-byte (and the other way round), an unrelated file, the empty text.  Its own Rng: the
/// documents of the other streams do not move.
fn reuse_cases(a: &Args) -> Vec<Case> {
    let mut r = Rng::new(a.seed ^ 0x7ee5_17e2);
    let mut cases = vec![];
    let mut fes: Vec<String> = frontends::COMMENT_LANGS.iter().map(|l| format!("c:{l}")).collect();
    fes.push("lhaskell".into());
    let per_fe = a.scale(3, 24) as usize;
    let mut idx = 0usize;
    for fe in &fes {
        for i in 0..per_fe {
            let mut full = frontends::embed(fe, &mut r);
            if i % 3 == 1 {
                full = format!("{full}\n{}", frontends::embed(fe, &mut r));
            }
            if full.chars().count() > 1500 {
                continue;
            }
            let cs: Vec<char> = full.chars().collect();
            let lines: Vec<&str> = full.split('\n').collect();
            let mut variants: Vec<(String, String, &str)> = vec![];
            // prefixes of A at a few cut points, three endings
            for _ in 0..2 {
                if cs.len() > 1 {
                    let k = r.range(1, cs.len() - 1);
                    let p: String = cs[..k].iter().collect();
                    variants.push((full.clone(), p.clone(), "prefix"));
                    variants.push((full.clone(), format!("{p} "), "prefix"));
                    variants.push((full.clone(), format!("{p}\n"), "prefix"));
                }
            }
            // a line deleted / inserted
            if lines.len() > 1 {
                let k = r.below(lines.len());
                let mut del = lines.clone();
                del.remove(k);
                variants.push((full.clone(), del.join("\n"), "line-deleted"));
                let mut ins = lines.clone();
                ins.insert(k, lines[r.below(lines.len())]);
                variants.push((full.clone(), ins.join("\n"), "line-inserted"));
            }
            // multi-byte content on one side only
            let na = nonascii_mutate(&full, &mut r);
            variants.push((na.clone(), full.clone(), "non-ascii-then-ascii"));
            variants.push((full.clone(), na.clone(), "ascii-then-non-ascii"));
            if cs.len() > 2 {
                let k = r.range(1, cs.len() - 1);
                variants.push((na, cs[..k].iter().collect(), "non-ascii-then-prefix"));
            }
            // an unrelated file, the empty text, and the control: the same text
            variants.push((full.clone(), frontends::embed(fe, &mut r), "unrelated"));
            variants.push((frontends::embed(fe, &mut r), full.clone(), "unrelated"));
            variants.push((full.clone(), String::new(), "then-empty"));
            variants.push((full.clone(), full.clone(), "same-text"));
            for (prior, text, how) in variants {
                if text.chars().count() > 4000 {
                    continue;
                }
                cases.push(Case { fe: fe.clone(), text, cfg: ["default", "all"][idx % 2].to_string(), dialect: idx / 2, origin: format!("reuse:{how}"), prior: Some(prior) });
                idx += 1;
            }
        }
    }
    cases
}

fn cfg_for(i: usize, r: &mut Rng) -> String {
    match i % 3 {
        0 => "default".into(),
        1 => "all".into(),
        _ => format!("random:{}", r.below(1_000_000)),
    }
}

pub fn all_frontends() -> Vec<String> {
    let mut fes = frontends::base_frontends();
    let extra: Vec<String> = fes.iter().filter(|f| f.starts_with("c:") || *f == "lhaskell").map(|f| format!("{f}+ci")).collect();
    fes.extend(extra);
    fes.push("markdown+ie".into());
    fes.push("plain+ie".into());
    fes
}

fn generate(a: &Args, r: &mut Rng) -> Vec<Case> {
    let mut cases: Vec<Case> = vec![];
    let fes = all_frontends();
    let mut idx = 0usize;
    let mut push = |cases: &mut Vec<Case>, fe: &str, text: String, origin: &str, r: &mut Rng, full_product: bool| {
        if text.chars().count() > 4000 {
            return;
        }
        if full_product {
            for (k, cfg) in ["default", "all"].iter().enumerate() {
                cases.push(Case { fe: fe.into(), text: text.clone(), cfg: cfg.to_string(), dialect: idx + k, origin: origin.into(), prior: None });
            }
            cases.push(Case { fe: fe.into(), text, cfg: format!("random:{}", r.below(1_000_000)), dialect: idx + 2, origin: origin.into(), prior: None });
        } else {
            let cfg = cfg_for(idx, r);
            cases.push(Case { fe: fe.into(), text, cfg, dialect: idx / 3, origin: origin.into(), prior: None });
        }
        idx += 1;
    };
    for fe in &fes {
        let wrapped = fe.contains('+');
        // 1. fixed edge inputs and unterminated markup: full configuration product on base front-ends
        for (t, o) in edge_texts() {
            push(&mut cases, fe, t, o, r, !wrapped);
        }
        for t in unterminated_for(fe) {
            push(&mut cases, fe, t.clone(), "unterminated", r, false);
            if !wrapped {
                push(&mut cases, fe, t.clone() + "\n", "unterminated", r, false);
                push(&mut cases, fe, t + " ", "unterminated", r, false);
            }
        }
        // 1b. merged tokens (ordinals, contractions, initialisms, …) with markup opened inside them
        for t in split_by_markup(fe, !a.thorough()) {
            push(&mut cases, fe, t, "split-by-markup", r, false);
        }
        // 1c. non-ASCII variants of the unterminated markup (byte length != character count)
        for t in unterminated_for(fe) {
            let m = nonascii_mutate(&t, r);
            push(&mut cases, fe, m, "non-ascii-mutated", r, false);
        }
        // 1d. unusual literals (long hex / digit runs / initialisms / URLs / punctuation) and deep nesting
        for (i, t) in unusual_literals(r).into_iter().enumerate() {
            let lang = fe.split('+').next().unwrap().strip_prefix("c:");
            let place = |x: String| match lang {
                Some(l) => comment_wrap(l, &x, i),
                None => x,
            };
            push(&mut cases, fe, place(t.clone()), "unusual-literal", r, false);
            if !wrapped && (a.thorough() || i % 2 == 0 || t.starts_with("0x")) {
                push(&mut cases, fe, place(format!("See {t} here.")), "unusual-literal", r, false);
                push(&mut cases, fe, place(format!("the {t}\n")), "unusual-literal", r, false);
            }
        }
        for t in deep_nesting(fe) {
            push(&mut cases, fe, t, "deep-nesting", r, false);
        }
        // 1e. non-ASCII shebang lines + short comments, every prefix (comment languages)
        if fe.starts_with("c:") {
            let hash = matches!(fe.split('+').next().unwrap(), "c:python" | "c:ruby" | "c:toml" | "c:shellscript" | "c:cmake" | "c:nix" | "c:php" | "c:javascript" | "c:typescript" | "c:rust");
            for t in SHEBANGS {
                if hash && !wrapped {
                    for p in prefixes(t) {
                        push(&mut cases, fe, p, "shebang-non-ascii", r, false);
                    }
                } else {
                    push(&mut cases, fe, t.to_string(), "shebang-non-ascii", r, false);
                    push(&mut cases, fe, format!("{t}\n"), "shebang-non-ascii", r, false);
                }
            }
        }
        // 2. generated documents
        let n_docs = if wrapped { a.scale(8, 120) } else { a.scale(30, 500) };
        let mut docs: Vec<String> = vec![];
        for i in 0..n_docs {
            let t = match i % 6 {
                0..=3 => frontends::embed(fe, r),
                4 => gen::any_text(r),
                _ => gen::malformed(r, 80),
            };
            docs.push(t);
        }
        for t in &docs {
            push(&mut cases, fe, t.clone(), "generated", r, false);
        }
        // whitespace-mutated variants (several whitespace tokens between words)
        let n_ws = if wrapped { a.scale(4, 60) } else { a.scale(24, 600) };
        for i in 0..n_ws {
            let base = match i % 3 {
                0 => gen::sentence(r),
                1 => frontends::embed(fe, r),
                _ => format!("{} {} {}", gen::sentence(r), r.s(&["you should of known", "it could of been", "we might of course go", "the might of it", "he must of left", "I would of", "as well as", "a lot of", "in front of", "kind of"]), gen::sentence(r)),
            };
            let t = ws_mutate(&base, r);
            push(&mut cases, fe, t, "whitespace-mutated", r, false);
        }
        // 3. every prefix (x 3 endings) of a sample of the generated documents
        let n_pref = if wrapped { a.scale(1, 6) } else { a.scale(2, 24) };
        let mut taken = 0;
        for t in docs.iter().filter(|t| {
            let n = t.chars().count();
            (20..=if a.thorough() { 400 } else { 250 }).contains(&n)
        }) {
            if taken >= n_pref {
                break;
            }
            taken += 1;
            for p in prefixes(t) {
                push(&mut cases, fe, p, "prefix", r, false);
            }
        }
        // every prefix of the unterminated-markup strings, joined (dense in construct boundaries)
        if !wrapped {
            let un = unterminated_for(fe);
            let step = if a.thorough() { 1 } else { 6 };
            for (i, t) in un.iter().enumerate() {
                if i % step != (r.below(step)) {
                    continue;
                }
                let cs: Vec<char> = t.chars().collect();
                for k in 1..cs.len() {
                    push(&mut cases, fe, cs[..k].iter().collect(), "prefix-of-unterminated", r, false);
                }
            }
        }
    }
    cases.extend(reuse_cases(a));
    cases
}

// ---------------------------------------------------------------------------------------------
// scaling probe
// ---------------------------------------------------------------------------------------------
fn scaling_probe(rep: &mut Report, a: &Args) {
    let unit_by_fe: Vec<(&str, String)> = vec![
        ("plain", "This is a test of teh scaling, with 21th numbers and a URL https://a.b/c. ".into()),
        ("plain", "This is test number {i} of teh scaling, with item{i} and a URL https://a.b/c{i}. ".into()),
        ("plain", "word{i} and ".into()),
        ("markdown", "- item {i} *one* with `code{i}` and [link {i}](http://x.y/{i})\n".into()),
        ("plain", "word ".into()),
        ("plain", "a.b.c.d.".into()),
        ("plain", "aaaaaaaaaa".into()),
        ("plain", "1,000.5 ".into()),
        ("plain", "\"quoted\" ".into()),
        ("plain", "\n".into()),
        ("markdown", "- item *one* with `code` and [link](http://x.y)\n".into()),
        ("markdown", "> ".into()),
        ("markdown", "[[a|b]] ".into()),
        ("markdown", "para\n\n".into()),
        ("html", "<p>This is <b>teh</b> text.</p>\n".into()),
        ("typst", "= Heading\nSome *bold* text with $x$ and #let y = \"teh\"\n\n".into()),
        ("typst", "#[".into()),
        ("lhaskell", "Some text here.\n\n> code line\n\n".into()),
        ("c:rust", "/// A doc comment with teh error.\nfn f() {}\n".into()),
        ("c:javascript", "/** {@link foo} and @param x teh */\nvar x = 1;\n".into()),
        ("c:javascript", "/** {@link foo ".into()),
        ("c:java", "/** <p>teh {@link x} */\nint x;\n".into()),
        ("c:python", "# a comment\n\n\n".into()),
        ("c:go", "// a comment\n//\n".into()),
        ("gitcommit", "Fix teh bug\n\n".into()),
    ];
    let n0 = a.scale(64, 125);
    let mut table = vec![];
    let mut w = Worker::new();
    let mut probe_no = 0usize;
    for (fe, unit) in unit_by_fe {
        let unit_len = unit.chars().count();
        let reps0 = (n0 * 8 / unit_len.max(1)).max(8);
        let mut exps = vec![];
        let mut times = vec![];
        for _rep in 0..2 {
            let mut ts = vec![];
            for mult in [1usize, 2, 4] {
                // `{i}` in a unit is replaced by a running number, so that no two sentences are equal
                // (LintGroup caches lints per chunk text)
                let text: String = (0..reps0 * mult).map(|i| unit.replace("{i}", &(i * 7 + 13).to_string())).collect();
                let c = Case { fe: fe.into(), text, cfg: "all".into(), dialect: 0, origin: "scaling".into(), prior: None };
                w.prepare(&c);
                // a fresh configuration hash per measurement: nothing is answered from the cache of an earlier one
                probe_no += 1;
                w.group(0).config.set_rule_enabled(format!("__c01_scaling_probe_{probe_no}"), true);
                let t0 = Instant::now();
                let _ = w.run(&c);
                ts.push(t0.elapsed().as_secs_f64().max(1e-6));
            }
            let e = (ts[2] / ts[0]).ln() / (4f64).ln();
            exps.push(e);
            times.push(ts);
        }
        rep.eval();
        let flagged = exps.iter().all(|e| *e > 3.5) && times.iter().all(|t| t[2] > 0.2);
        table.push(json!({"frontend": fe, "unit": unit, "chars_n": reps0 * unit_len, "seconds_n_2n_4n": times, "growth_exponent": exps.iter().map(|e| (e * 100.0).round() / 100.0).collect::<Vec<_>>(), "flagged": flagged}));
        if flagged {
            rep.fail("superpolynomial_growth", format!("lint time grows with exponent {:?} (> 3.5 on two repeats) on repeated text", exps), json!({"kind": "scaling", "frontend": fe, "unit": unit, "n": reps0}));
        }
    }
    rep.extra.insert("scaling_probe".into(), json!(table));
}

// ---------------------------------------------------------------------------------------------
fn record(rep: &mut Report, c: &Case, o: &Outcome) {
    if matches!(o, Outcome::Skipped) {
        rep.count("skipped_after_too_many_hangs");
        return;
    }
    rep.eval();
    let base = c.fe.split(':').next().unwrap().split('+').next().unwrap().to_string();
    rep.count(&format!("frontend:{}", if c.fe.starts_with("c:") { "comments" } else { &base }));
    rep.count(&format!("origin:{}", c.origin));
    rep.count(&format!("config:{}", c.cfg.split(':').next().unwrap()));
    rep.count(&format!("dialect:{}", DIALECT_NAMES[c.dialect % 4]));
    let n = c.text.chars().count();
    rep.count(&format!("chars:{}", if n == 0 { "0" } else if n < 16 { "1-15" } else if n < 64 { "16-63" } else if n < 256 { "64-255" } else if n < 1024 { "256-1023" } else { "1024+" }));
    match o {
        Outcome::Ok { tokens, lints, micros, bad_tokens, unordered, span_order_bad, span_order_what } => {
            rep.monitor("span_order_violations", *span_order_bad as u64);
            if *span_order_bad > 0 {
                rep.fail("span_order_hypothesis", format!("{span_order_bad} violation(s) of span_ord, first: {span_order_what} (an empty Word/Number/Punctuation/Space token, or a token that covers characters and starts before its predecessor does): premise of C01_span_new_sites_total; no panic this time"), c.to_json());
            }
            rep.monitor("docs_checked_for_tokens_inside_source", 1);
            rep.monitor("tokens_outside_source", *bad_tokens as u64);
            if *bad_tokens > 0 {
                rep.fail("tokens_outside_source", format!("{bad_tokens} token(s) with a span outside the {n}-char source (premise toks_good of C01_pattern_bounded); no panic this time"), c.to_json());
            }
            if *unordered {
                rep.count("docs_with_out_of_order_tokens");
            }
            if *tokens > 0 {
                rep.nontrivial(&(c.fe.clone(), c.text.clone()));
            }
            if *lints > 0 {
                rep.count("docs_with_lints");
            }
            rep.count_n("tokens", *tokens as u64);
            rep.count_n("lints", *lints as u64);
            if *micros > 2_000_000 {
                rep.count("slow(>2s)");
            }
        }
        Outcome::Panic { stage, msg, loc } => {
            let short: String = msg.chars().take(300).collect();
            rep.fail("panic", format!("panic in {stage} at {loc}: {short}"), c.to_json());
        }
        Outcome::Hang { secs, stage } => {
            rep.fail("hang", format!("no return within {secs} s for {} chars (in {stage})", n), c.to_json());
        }
        Outcome::Skipped => rep.count("skipped_after_too_many_hangs"),
    }
}

/// The correspondence and the scaling probe run without a watchdog.  They are skipped when the search saw
/// a hang they could run into: a rule / the pattern framework that never returns (stage lint), or a
/// front-end they use that never returns.  A third-party parser of another language that hangs in
/// document construction (F32: tree-sitter-dart) does not concern them.
fn endangers_unguarded(c: &Case, o: &Outcome) -> bool {
    match o {
        Outcome::Hang { stage, .. } => {
            let base = c.fe.split('+').next().unwrap();
            *stage == "lint" || matches!(base, "plain" | "markdown" | "markdown-ilt" | "html" | "gitcommit" | "typst" | "lhaskell" | "c:rust" | "c:javascript" | "c:java" | "c:python" | "c:go")
        }
        _ => false,
    }
}

pub fn run(a: &Args, corpus: &[Value]) {
    let mut rep = Report::new(&a.out);
    rep.rule = "documents: every front-end (plain, Markdown x2, HTML, Typst, LHS, git-commit, 22 comment languages; +CollapseIdentifiers / +IsolateEnglish wrappers) x {default, all rules, random} configuration x 4 dialects on generated documents (frontends::embed, gen::any_text, malformed stream), every prefix x {'', ' ', '\\n'} of a sample of them, unterminated markup per language, its prefixes and a non-ASCII variant of each, merged tokens (ordinals, contractions, initialisms) split by markup, whitespace-mutated text, empty/whitespace-only input, 254-300-char words, astral characters; each under catch_unwind + panic-location hook + watchdog (10 s). pattern correspondence: random pattern trees over all public combinators x random token lists (incl. out-of-bounds spans) vs the extracted model; run_on_chunk via a custom PatternLinter; Mask glue via a recording inner parser; LHS masker via its parser. non-trivial = distinct (front-end, text) yielding >= 1 token, or distinct correspondence case".into();
    let threads = std::thread::available_parallelism().map(|n| n.get()).unwrap_or(8).min(16);
    let deadline = Duration::from_secs(10);

    // corpus / replay first
    let mut first: Vec<Case> = vec![];
    for v in corpus {
        if let Some(c) = Case::from_json(v) {
            first.push(c);
        } else if v["kind"].as_str() == Some("scaling") {
            if let Err(m) = guarded(|| scaling_probe(&mut rep, a)) {
                rep.fail("panic_unattributed", format!("panic in lint at {}: {m} (scaling probe)", last_panic_location()), v.clone());
            }
        } else if v["kind"].as_str().map(|k| k.starts_with("body_")).unwrap_or(false) {
            if let Err(m) = guarded(|| bodies::replay(&mut rep, v, a)) {
                rep.fail("panic_unattributed", format!("panic at {}: {m} (rule-body model stream)", last_panic_location()), v.clone());
            }
        } else if v["kind"].as_str().map(|k| k.starts_with("rule_body")).unwrap_or(false) {
            if let Err(m) = guarded(|| rules::replay(&mut rep, v)) {
                rep.fail("panic_unattributed", format!("panic at {}: {m} (rule-body stream)", last_panic_location()), v.clone());
            }
        } else if let Err(m) = guarded(|| corr::replay(&mut rep, v)) {
            rep.fail("panic", format!("panic in lint at {}: {m} (correspondence replay)", last_panic_location()), v.clone());
        }
    }
    let outs = run_cases(Arc::new(first.clone()), threads, deadline);
    let outs0_hangs = first.iter().zip(&outs).filter(|(c, o)| endangers_unguarded(c, o)).count();
    for (c, o) in first.iter().zip(&outs) {
        record(&mut rep, c, o);
        if a.replay.is_some() {
            eprintln!("replay: {:?} -> {:?}", c, o);
        }
    }
    if a.replay.is_some() {
        if corpus.iter().any(|v| v["profile"].as_str() == Some("release")) && std::env::var("C01_SEARCH_ONLY").is_err() {
            release_child(&mut rep, a);
        }
        rep.finish();
        return;
    }

    // the search (first: it runs under the watchdog; the correspondence below does not)
    let mut r = Rng::new(a.seed);
    let mut corr_rng = r.fork();
    let cases = generate(a, &mut r);
    let cases = Arc::new(cases);
    let t0 = Instant::now();
    let outs = run_cases(cases.clone(), threads, deadline);
    let mut worst: (u128, usize) = (0, 0);
    let mut hangs = outs0_hangs;
    for (i, (c, o)) in cases.iter().zip(&outs).enumerate() {
        record(&mut rep, c, o);
        if let Outcome::Ok { micros, .. } = o {
            if *micros > worst.0 {
                worst = (*micros, i);
            }
        }
        if endangers_unguarded(c, o) {
            hangs += 1;
        }
    }
    rep.extra.insert("search_wall_s".into(), json!(t0.elapsed().as_secs_f64()));
    rep.extra.insert("search_threads".into(), json!(threads));
    if !cases.is_empty() {
        rep.extra.insert("slowest_case".into(), json!({"ms": worst.0 as f64 / 1000.0, "frontend": cases[worst.1].fe, "chars": cases[worst.1].text.chars().count()}));
    }
    rep.sample(json!({"search_case": cases.get(7).map(|c| c.to_json())}));
    if std::env::var("C01_SEARCH_ONLY").is_ok() {
        // the release-profile child of the thorough tier: the search only (the correspondence compares panics, and
        // overflow panics are exactly what the release profile does not have)
        rep.extra.insert("profile".into(), json!(if cfg!(debug_assertions) { "dev" } else { "release" }));
        rep.finish();
        return;
    }
    if hangs > 0 {
        // the code under test hangs somewhere: the single-threaded parts below have no watchdog
        rep.extra.insert("skipped_after_hangs".into(), json!(["correspondence", "scaling_probe"]));
        rep.finish();
        return;
    }

    // correspondence for the modelled cores (its set-up builds documents and patterns: a panic there is a finding too)
    if let Err(m) = guarded(|| corr::run(&mut rep, a, &mut corr_rng)) {
        let loc = last_panic_location();
        rep.fail("panic_unattributed", format!("panic in lint at {}: {} (while setting up the correspondence)", loc.strip_prefix("/repo/").unwrap_or(&loc), m.chars().take(300).collect::<String>()), json!({"kind": "corr_fixed"}));
    }
    // rule bodies: the lengths match_to_lint really receives vs min_len / max_len of the generated table
    if let Err(m) = guarded(|| rules::run(&mut rep, a)) {
        let loc = last_panic_location();
        rep.fail("panic_unattributed", format!("panic at {}: {} (rule-body stream set-up)", loc.strip_prefix("/repo/").unwrap_or(&loc), m.chars().take(300).collect::<String>()), json!({"kind": "rule_body_all"}));
    }
    // phase 4: the modelled rule bodies (ModalOf, proper nouns, RepeatedWords) against the extracted Model/C01Bodies.v
    if let Err(m) = guarded(|| {
        let c = corr::Corr::new(a.seed, 120);
        bodies::run(&mut rep, a, &c)
    }) {
        let loc = last_panic_location();
        rep.fail("panic_unattributed", format!("panic at {}: {} (rule-body model streams set-up)", loc.strip_prefix("/repo/").unwrap_or(&loc), m.chars().take(300).collect::<String>()), json!({"kind": "body_all"}));
    }
    if let Err(m) = guarded(|| scaling_probe(&mut rep, a)) {
        let loc = last_panic_location();
        rep.fail("panic_unattributed", format!("panic in lint at {}: {} (scaling probe)", loc.strip_prefix("/repo/").unwrap_or(&loc), m.chars().take(300).collect::<String>()), json!({"kind": "scaling"}));
    }
    if a.thorough() && std::env::var("C01_NO_RELEASE").is_err() {
        release_child(&mut rep, a);
    }
    rep.finish();
}

/// Thorough tier: the same search once more under the RELEASE profile (harness/Cargo.toml [profile.release]:
/// overflow-checks = false, debug-assertions = false — arithmetic wraps instead of panicking, `debug_assert!` is gone;
/// finding F30 was visible in the dev profile only, the opposite can happen: a wrapped length that indexes out of range
/// or loops).  Builds `c01` with `cargo build --release` into a target directory of its own, runs it as a child in
/// search-only mode (same tier, same seed, same corpus / replay file) and merges its failures (input tagged
/// `"profile": "release"`, ` [release profile]` appended to `what`), monitors and distribution into this report.
/// A build or run failure of the child ends this process with a non-zero exit code (./check: harness-run).
fn release_child(rep: &mut Report, a: &Args) {
    let t0 = Instant::now();
    let target = std::env::var("C01_RELEASE_TARGET").unwrap_or_else(|_| "/verif/.work/c01-release-target".into());
    let _ = std::fs::create_dir_all(&target);
    let build = std::process::Command::new("cargo")
        .args(["build", "--release", "--offline", "--bin", "c01"])
        .current_dir(env!("CARGO_MANIFEST_DIR"))
        .env("CARGO_TARGET_DIR", &target)
        .env("CARGO_NET_OFFLINE", "true")
        .env("CARGO_INCREMENTAL", "0")
        .output();
    let built = matches!(&build, Ok(o) if o.status.success());
    if !built {
        let msg = match build {
            Ok(o) => String::from_utf8_lossy(&o.stderr).chars().rev().take(1500).collect::<String>().chars().rev().collect::<String>(),
            Err(e) => e.to_string(),
        };
        eprintln!("c01: release-profile build failed: {msg}");
        std::process::exit(3);
    }
    let build_s = t0.elapsed().as_secs_f64();
    let wd = format!("{}/release", a.out);
    let mut cmd = std::process::Command::new(format!("{target}/release/c01"));
    cmd.args([a.tier.as_str(), &a.seed.to_string(), &wd]).env("C01_SEARCH_ONLY", "1");
    match &a.replay {
        Some(f) => cmd.args(["--replay", f]),
        None => cmd.args(["--corpus", concat!(env!("CARGO_MANIFEST_DIR"), "/../corpus/C01")]),
    };
    let t1 = Instant::now();
    let out = cmd.output();
    let child: Option<Value> = std::fs::read_to_string(format!("{wd}/report.json")).ok().and_then(|s| serde_json::from_str(&s).ok());
    let ok = matches!(&out, Ok(o) if o.status.success());
    let Some(child) = child.filter(|_| ok) else {
        eprintln!("c01: release-profile child failed: {:?}", out.map(|o| String::from_utf8_lossy(&o.stderr).chars().take(1500).collect::<String>()));
        std::process::exit(3);
    };
    let mut n_fail = 0;
    for f in child["failures"].as_array().cloned().unwrap_or_default() {
        let mut input = f["input"].clone();
        if let Some(o) = input.as_object_mut() {
            o.insert("profile".into(), json!("release"));
        }
        rep.fail(f["class"].as_str().unwrap_or("panic"), format!("{} [release profile]", f["what"].as_str().unwrap_or("")), input);
        n_fail += 1;
    }
    for (k, v) in child["monitors"].as_object().cloned().unwrap_or_default() {
        rep.monitor(&k, v.as_u64().unwrap_or(0));
    }
    let mut docs = 0;
    for (k, v) in child["distribution"].as_object().cloned().unwrap_or_default() {
        if !k.starts_with("fail:") {
            rep.count_n(&format!("release:{k}"), v.as_u64().unwrap_or(0));
        }
        if k.starts_with("frontend:") {
            docs += v.as_u64().unwrap_or(0);
        }
    }
    rep.evaluations += child["evaluations"].as_u64().unwrap_or(0);
    rep.extra.insert(
        "release_search".into(),
        json!({"profile": child["extra"]["profile"], "evaluations": child["evaluations"], "distinct_nontrivial": child["distinct_nontrivial"], "documents_by_frontend_total": docs,
               "failures": n_fail, "build_s": (build_s * 10.0).round() / 10.0, "run_s": (t1.elapsed().as_secs_f64() * 10.0).round() / 10.0,
               "search_wall_s": child["extra"]["search_wall_s"], "slowest_case": child["extra"]["slowest_case"]}),
    );
}

fn main() {
    let (args, corpus) = hv::cli();
    run(&args, &corpus);
}
