// scratch probe for C16 (deleted afterwards)
use harper_core::linting::{LintGroup, Linter};
use harper_core::{Document, FstDictionary, IgnoredLints};
use harper_wasm::{Dialect as WD, Language, Lint as WLint, Linter as WL, Span as WSpan, Suggestion as WSug};
use std::time::Instant;

fn main() {
    let t0 = Instant::now();
    let mut l = WL::new(WD::American);
    println!("Linter::new {:?}", t0.elapsed());
    let t0 = Instant::now();
    let _l2 = WL::new(WD::British);
    println!("Linter::new (2nd) {:?}", t0.elapsed());
    let t0 = Instant::now();
    let g = LintGroup::new_curated(FstDictionary::curated(), harper_core::Dialect::American);
    println!("LintGroup::new_curated {:?}", t0.elapsed());
    drop(g);
    let t0 = Instant::now();
    let text = "There is an problem in \"this\" text\u{1}\u{7f}é. Here is an second one. I zorgle teh thing alot.";
    let ls = l.lint(text.to_string(), Language::Plain);
    println!("lint {:?} n={}", t0.elapsed(), ls.len());
    for x in &ls {
        println!("  {}", x.to_json());
        for s in x.suggestions() {
            println!("     sug {}", s.to_json());
        }
        println!("     span {}", x.span().to_json());
    }
    println!("cfg = {}", &l.get_lint_config_as_json()[..200]);
    println!("set unknown: {:?}", l.set_lint_config_from_json("{\"Nope\":true,\"SpellCheck\":null,\"AnA\":false}".to_string()));
    let c = l.get_lint_config_as_json();
    let v: serde_json::Value = serde_json::from_str(&c).unwrap();
    println!("Nope={:?} SpellCheck={:?} AnA={:?} n={}", v.get("Nope"), v.get("SpellCheck"), v.get("AnA"), v.as_object().unwrap().len());
    println!("bad cfg: {:?}", l.set_lint_config_from_json("{\"Nope\":3}".to_string()));
    let ls2 = l.lint(text.to_string(), Language::Plain);
    println!("after AnA=false: n={}", ls2.len());
    // apply + stats
    let first = &ls2[0];
    let sug = &first.suggestions()[0];
    println!("apply -> {:?}", l.apply_suggestion(text.to_string(), first, sug));
    println!("stats = {}", l.generate_stats_file());
    // from_json
    let j = ls2[0].to_json();
    let back = WLint::from_json(j.clone()).unwrap();
    println!("roundtrip equal: {}", back.to_json() == j);
    println!("span from_json start>end: {:?}", WSpan::from_json("{\"start\":5,\"end\":2}".to_string()).map(|s| s.to_json()));
    println!("sug from_json: {:?}", WSug::from_json("{\"inner\":\"Remove\"}".to_string()).map(|s| s.to_json()));
    println!("sug from_json 2-char: {:?}", WSug::from_json("{\"inner\":{\"ReplaceWith\":[\"ab\"]}}".to_string()).map(|s| s.to_json()));
    // ctx hash through the public API
    {
        let dict = FstDictionary::curated();
        let mut g = LintGroup::new_curated(dict.clone(), harper_core::Dialect::American);
        let d = Document::new_plain_english(text, &dict);
        let raw = g.lint(&d);
        for r in raw.iter().take(3) {
            let mut ig = IgnoredLints::new();
            ig.ignore_lint(r, &d);
            println!("ctx {} for {:?}", serde_json::to_string(&ig).unwrap(), r.span);
        }
    }
    // F15
    {
        let mut l1 = WL::new(WD::American);
        l1.import_words(vec!["zorgle".to_string()]);
        l1.import_words(vec!["Zorgle".to_string()]);
        let r1 = l1.lint("I zorgle.".to_string(), Language::Plain);
        let ex = l1.export_words();
        let mut l2 = WL::new(WD::American);
        l2.import_words(ex.clone());
        let r2 = l2.lint("I zorgle.".to_string(), Language::Plain);
        println!("F15: export={ex:?} l1 lints={} l2 lints={}", r1.len(), r2.len());
    }
    // ignore then import a neighbouring word
    {
        let mut l1 = WL::new(WD::American);
        let t = "I zorgle an problem here.";
        let r = l1.lint(t.to_string(), Language::Plain);
        for x in &r {
            println!("  before: {} {:?}", x.span().to_json(), x.get_problem_text());
        }
        let mut ign = 0;
        for x in r {
            if x.get_problem_text() == "an" {
                l1.ignore_lint(t.to_string(), x);
                ign += 1;
            }
        }
        let r = l1.lint(t.to_string(), Language::Plain);
        println!("ignored {ign}; after ignore: {:?}", r.iter().map(|x| x.get_problem_text()).collect::<Vec<_>>());
        l1.import_words(vec!["zorgle".to_string()]);
        let r = l1.lint(t.to_string(), Language::Plain);
        println!("after import_words(zorgle): {:?}", r.iter().map(|x| x.get_problem_text()).collect::<Vec<_>>());
        println!("export ignored = {}", l1.export_ignored_lints());
    }
    // F11 through wasm
    {
        let mut l3 = WL::new(WD::American);
        let t = "There is an `problem` here.".to_string();
        let a = l3.lint(t.clone(), Language::Plain);
        let b = l3.lint(t.clone(), Language::Markdown);
        let mut l4 = WL::new(WD::American);
        let c = l4.lint(t.clone(), Language::Markdown);
        println!("F11: plain={} md-after-plain={} md-fresh={}", a.len(), b.len(), c.len());
    }
}
