//! C15 — dictionary back-ends agree; fuzzy search returns true near matches.
//! Correspondence with Model/{DictModel,Fuzzy,EditDistance}.v (extracted) + the property oracle on the
//! implementation (independent full-matrix Levenshtein) + hypothesis monitors (WordId collisions, the
//! Unicode law `is_lowercase c -> to_lowercase c = [c]`).
//!
//! A *scenario* is a set of named dictionaries built through the public API plus queries; the
//! scenario (reduced to the failing query) is the replay input.
use harper_core::spell::{suggest_correct_spelling, FuzzyMatchResult};
use fst::{IntoStreamer, Streamer};
use levenshtein_automata::LevenshteinAutomatonBuilder;
use harper_core::{CharString, Dictionary, FstDictionary, MergedDictionary, MutableDictionary, WordId, WordMetadata};
use hv::common::*;
use serde_json::{json, Value};
use std::collections::{BTreeSet, HashMap, HashSet};
use std::sync::Arc;

// ---------------------------------------------------------------------------------------------
// scenario description (serialisable: this is what a replay file holds)
// ---------------------------------------------------------------------------------------------
#[derive(Clone, Debug)]
struct DictDef {
    name: String,
    /// M = MutableDictionary::new + extend_words(entries); F = FstDictionary::new(entries);
    /// FM = FstDictionary::from(children[0] (an M) .clone()); X = MergedDictionary of children;
    /// CF = FstDictionary::curated(); CM = MutableDictionary::curated()
    ty: String,
    entries: Vec<(String, usize)>,
    children: Vec<String>,
}
#[derive(Clone, Debug)]
struct Query {
    q: String,
    d: u8,
    k: usize,
    /// names of the dictionaries to ask (empty = all)
    on: Vec<String>,
    fuzzy: bool,
}
#[derive(Clone, Debug, Default)]
struct Scenario {
    dicts: Vec<DictDef>,
    /// groups of dictionaries that hold the same entries and must answer exact queries identically
    agree: Vec<Vec<String>>,
    queries: Vec<Query>,
    origin: String,
    /// outside the property's domain (empty dictionary word ...): correspondence + no-panic only
    malformed: bool,
}

fn scenario_json(s: &Scenario, only_query: Option<&Query>) -> Value {
    let qs: Vec<&Query> = match only_query {
        Some(q) => vec![q],
        None => s.queries.iter().collect(),
    };
    json!({
        "kind": "scenario", "origin": s.origin, "malformed": s.malformed,
        "dicts": s.dicts.iter().map(|d| json!({"name": d.name, "ty": d.ty,
            "entries": d.entries.iter().map(|(w, m)| json!([w, m])).collect::<Vec<_>>(), "children": d.children})).collect::<Vec<_>>(),
        "agree": s.agree,
        "queries": qs.iter().map(|q| json!({"q": q.q, "qlen": q.q.chars().count(), "d": q.d, "k": q.k, "on": q.on, "fuzzy": q.fuzzy})).collect::<Vec<_>>(),
    })
}
fn scenario_from_json(v: &Value) -> Scenario {
    let strs = |x: &Value| x.as_array().map(|a| a.iter().filter_map(|s| s.as_str().map(String::from)).collect::<Vec<_>>()).unwrap_or_default();
    Scenario {
        dicts: v["dicts"].as_array().map(|a| a.iter().map(|d| DictDef {
            name: d["name"].as_str().unwrap_or("d").to_string(),
            ty: d["ty"].as_str().unwrap_or("M").to_string(),
            entries: d["entries"].as_array().map(|es| es.iter().map(|e| (e[0].as_str().unwrap_or("").to_string(), e[1].as_u64().unwrap_or(0) as usize)).collect()).unwrap_or_default(),
            children: strs(&d["children"]),
        }).collect()).unwrap_or_default(),
        agree: v["agree"].as_array().map(|a| a.iter().map(|g| strs(g)).collect()).unwrap_or_default(),
        queries: v["queries"].as_array().map(|a| a.iter().map(|q| Query {
            // "q_repeat": [s, n] is a compact way to write long queries in corpus files
            q: match q.get("q_repeat") { Some(r) => r[0].as_str().unwrap_or("a").repeat(r[1].as_u64().unwrap_or(1) as usize), None => q["q"].as_str().unwrap_or("").to_string() },
            d: q["d"].as_u64().unwrap_or(2) as u8,
            k: q["k"].as_u64().unwrap_or(10) as usize,
            on: strs(&q["on"]),
            fuzzy: q["fuzzy"].as_bool().unwrap_or(true),
        }).collect()).unwrap_or_default(),
        origin: v["origin"].as_str().unwrap_or("replay").to_string(),
        malformed: v["malformed"].as_bool().unwrap_or(false),
    }
}

// ---------------------------------------------------------------------------------------------
// helpers
// ---------------------------------------------------------------------------------------------
/// 16 synthetic metadata values (bits: common, determiner, preposition, swear)
fn mk_meta(i: usize) -> WordMetadata {
    WordMetadata { common: i & 1 != 0, determiner: i & 2 != 0, preposition: i & 4 != 0, swear: if i & 8 != 0 { Some(true) } else { None }, ..Default::default() }
}

/// independent Levenshtein distance: full (n+1) x (m+1) matrix over usize
fn lev(a: &[char], b: &[char]) -> usize {
    let (n, m) = (a.len(), b.len());
    let mut t = vec![vec![0usize; m + 1]; n + 1];
    for i in 0..=n {
        t[i][0] = i;
    }
    for j in 0..=m {
        t[0][j] = j;
    }
    for i in 1..=n {
        for j in 1..=m {
            let sub = t[i - 1][j - 1] + usize::from(a[i - 1] != b[j - 1]);
            t[i][j] = sub.min(t[i - 1][j] + 1).min(t[i][j - 1] + 1);
        }
    }
    t[n][m]
}
/// banded check `lev(a,b) <= bound` for long strings / big dictionaries (cheap reject on lengths first)
fn lev_within(a: &[char], b: &[char], bound: usize) -> Option<usize> {
    if a.len().abs_diff(b.len()) > bound {
        return None;
    }
    let d = lev(a, b);
    if d <= bound { Some(d) } else { None }
}

fn norm_char(c: char) -> char {
    // independent copy of char_to_normalized (the table of the model is regenerated from the source)
    match c {
        '\u{2019}' | '\u{2018}' | '\u{FF07}' => '\'',
        _ => c,
    }
}
fn normalized(w: &[char]) -> Vec<char> {
    w.iter().map(|c| norm_char(*c)).collect()
}
fn lower_chars(w: &[char]) -> Vec<char> {
    w.iter().flat_map(|c| c.to_lowercase()).collect()
}
fn lower_string(w: &[char]) -> Vec<char> {
    w.iter().collect::<String>().to_lowercase().chars().collect()
}

struct Built {
    def: DictDef,
    gname: String,
    dict: Arc<dyn Dictionary>,
    /// FstDictionary: the word list handed to the constructor (for the oracle's notion of "dictionary word")
    words: Vec<Vec<char>>,
    word_set: HashSet<Vec<char>>,
    is_fst: bool,
    is_merged: bool,
    is_curated: bool,
    /// an FstDictionary, or a merged dictionary over one: its fuzzy search consults the per-thread builder cache
    uses_fst: bool,
    /// FstDictionary::new called directly on entries whose ids are not pairwise distinct: which spelling of an
    /// id survives differs from MutableDictionary::extend_words (sorted order vs insertion order; FC15b)
    id_collision: bool,
    /// the concrete MergedDictionary (for `==`)
    merged: Option<MergedDictionary>,
    /// for an `id_collision` FstDictionary: MutableDictionary::extend_words over the entries in SORTED order,
    /// first metadata per spelling — what FstDictionary::new is specified to hold (C15_fst_new_in_step)
    sorted_ref: Option<Arc<dyn Dictionary>>,
}

struct Cx {
    rep: Report,
    meta_tags: HashMap<String, usize>,
    declared: HashSet<char>,
    ids: HashMap<WordId, Vec<char>>,
    scn: usize,
    curated_f: Option<Arc<FstDictionary>>,
    curated_m: Option<Arc<MutableDictionary>>,
    curated_emitted: HashMap<String, String>,
    fst_cases: u64,
    /// direct monitor of the stream contract: our own fst::Map per FstDictionary (built from the sorted
    /// words_iter exactly as FstDictionary::new builds its index) and one automaton builder per bound
    fst_maps: HashMap<String, Arc<(fst::Map<Vec<u8>>, Vec<Vec<char>>)>>,
    builders: HashMap<u8, Arc<LevenshteinAutomatonBuilder>>,
    stream_checked: u64,
    suggest_cases: u64,
    /// `A` cases (the real fst + levenshtein_automata stream against C15Automaton.la_search, item by item)
    automaton_cases: u64,
    automaton_curated: u64,
    automaton_curated_max: u64,
    /// Vec::sort_by_key stability, observed on std itself with the keys of every suggestion case
    sort_stable_checked: u64,
    /// the ONE long-lived thread every Dictionary query of the run is made on (FstDictionary keeps a thread-local
    /// cache of automaton builders: the history of bounds asked on a thread is part of the input), with a watchdog
    imp: ImplThread,
    /// wall-clock budget of one implementation call; CPU budget (of the implementation thread) of all of them
    call_budget: std::time::Duration,
    cpu_budget_ns: u64,
    impl_cpu_ns: u64,
    impl_calls: u64,
    slowest: (u64, String, Value),
    /// source location of the last panic caught on the implementation thread
    last_loc: String,
    /// a call ran out of budget: the report is finished with what was found so far
    aborted: bool,
    /// the bounds asked of FstDictionary::fuzzy_match on the implementation thread so far: order of first use, and
    /// the most recent ones (consecutive repetitions dropped) — part of every failing input (`warmup_bounds`), replayed
    /// on a one-word FstDictionary before the scenario so that the per-thread builder cache is in the same state
    bounds_first: Vec<u8>,
    bounds_recent: std::collections::VecDeque<u8>,
}

/// Implementation calls run on one dedicated thread; the main thread waits with a timeout, so that a call that does
/// not return becomes an oracle failure (class `fuzzy_diverges`, with the concrete input) instead of a hang.
struct ImplThread {
    tx: std::sync::mpsc::Sender<Box<dyn FnOnce() + Send>>,
}
fn spawn_impl_thread() -> ImplThread {
    let (tx, rx) = std::sync::mpsc::channel::<Box<dyn FnOnce() + Send>>();
    std::thread::Builder::new().name("impl".into()).stack_size(256 << 20).spawn(move || {
        for job in rx {
            job();
        }
    }).expect("cannot start the implementation thread");
    ImplThread { tx }
}
/// CPU time this thread has spent on a core so far (Linux: first field of /proc/thread-self/schedstat, ns)
fn thread_cpu_ns() -> u64 {
    std::fs::read_to_string("/proc/thread-self/schedstat").ok().and_then(|s| s.split_whitespace().next().and_then(|x| x.parse().ok())).unwrap_or(0)
}
fn env_u64(name: &str, default: u64) -> u64 {
    std::env::var(name).ok().and_then(|v| v.trim().parse().ok()).unwrap_or(default)
}

impl Cx {
    /// run `f` (implementation calls only, owned captures) on the implementation thread, panics caught.
    /// None = the watchdog fired (this call never returned) or the run was already aborted.
    fn on_impl<T: Send + 'static>(&mut self, what: &str, fail_input: &Value, f: impl FnOnce() -> T + Send + 'static) -> Option<Result<T, String>> {
        if self.aborted {
            return None;
        }
        let (rtx, rrx) = std::sync::mpsc::channel();
        let job = Box::new(move || {
            let c0 = thread_cpu_ns();
            let r = guarded(f);
            let loc = last_panic_location();
            let _ = rtx.send((r, loc, thread_cpu_ns().saturating_sub(c0)));
        });
        if self.imp.tx.send(job).is_err() {
            self.aborted = true;
            self.rep.fail("fuzzy_diverges", format!("the implementation thread is gone before {what}"), fail_input.clone());
            return None;
        }
        match rrx.recv_timeout(self.call_budget) {
            Ok((r, loc, cpu)) => {
                self.last_loc = loc;
                self.impl_cpu_ns += cpu;
                self.impl_calls += 1;
                if cpu > self.slowest.0 {
                    self.slowest = (cpu, what.to_string(), fail_input.clone());
                }
                if self.impl_cpu_ns > self.cpu_budget_ns {
                    self.aborted = true;
                    if self.rep.failures.len() >= 2000 {
                        self.rep.failures.pop();
                    }
                    let (c, w, inp) = self.slowest.clone();
                    self.rep.fail("fuzzy_diverges", format!("the dictionary queries of this run used {:.0} s of CPU in {} calls — beyond the budget of {:.0} s (an unchanged tree needs a fraction of it): queries have become pathologically slow; the slowest single call, {w}, took {:.2} s; the run stops here", self.impl_cpu_ns as f64 / 1e9, self.impl_calls, self.cpu_budget_ns as f64 / 1e9, c as f64 / 1e9), inp);
                }
                Some(r)
            }
            Err(_) => {
                self.aborted = true;
                if self.rep.failures.len() >= 2000 {
                    self.rep.failures.pop();
                }
                self.rep.fail("fuzzy_diverges", format!("{what} did not return within {} s (watchdog): the call diverges or has become pathologically slow; the run stops here", self.call_budget.as_secs()), fail_input.clone());
                None
            }
        }
    }
    fn note_bound(&mut self, d: u8) {
        if !self.bounds_first.contains(&d) {
            self.bounds_first.push(d);
        }
        if self.bounds_recent.back() != Some(&d) {
            self.bounds_recent.push_back(d);
            if self.bounds_recent.len() > 48 {
                self.bounds_recent.pop_front();
            }
        }
    }
    fn warmup_bounds(&self) -> Vec<u8> {
        let mut v = self.bounds_first.clone();
        v.extend(self.bounds_recent.iter().copied());
        v
    }
    /// replay of a failing input: bring the per-thread builder cache into the recorded state
    fn warm_up(&mut self, bounds: &[u8]) {
        if bounds.is_empty() {
            return;
        }
        let f: Arc<dyn Dictionary> = Arc::new(FstDictionary::new(vec![("warmup".chars().collect::<CharString>(), mk_meta(0))]));
        for &d in bounds {
            let (f, q) = (f.clone(), "warmup".chars().collect::<Vec<char>>());
            let _ = self.on_impl(&format!("warm-up fuzzy_match(\"warmup\", {d}, 1)"), &json!({"kind": "warmup", "bounds": bounds}), move || f.fuzzy_match(&q, d, 1).len());
            self.note_bound(d);
        }
    }
    fn tag(&mut self, m: &WordMetadata) -> usize {
        let key = serde_json::to_string(m).unwrap_or_else(|_| format!("{m:?}"));
        let n = self.meta_tags.len();
        if let Some(t) = self.meta_tags.get(&key) {
            return *t;
        }
        self.meta_tags.insert(key, n);
        // the one metadata field the suggestion score reads (C15Suggest.is_common), declared per tag
        self.rep.case(&format!("O {} {}", n, u8::from(m.common)), "O");
        n
    }
    /// the Unicode data the models are parameterised with: dumped from Rust's `char` for every
    /// character that occurs, before its first use; also monitors the law the theorems assume
    fn declare(&mut self, cs: &[char]) {
        for &c in cs {
            if self.declared.insert(c) {
                let low: Vec<char> = c.to_lowercase().collect();
                self.rep.monitor("unicode_law_is_lowercase_implies_to_lowercase_identity(chars)", 1);
                if c.is_lowercase() && low != vec![c] {
                    self.rep.fail("unicode_law", format!("char U+{:04X} is_lowercase but to_lowercase() = {:?}", c as u32, low), json!({"kind": "char", "c": c as u32}));
                }
                let line = format!("T {} {} {}", c as u32, u8::from(c.is_lowercase()), cps(&low));
                self.rep.case(line.trim(), "T");
            }
        }
    }
    /// WordId is modelled as the identity on lower(normalized(w)): monitor collisions
    fn monitor_id(&mut self, w: &[char]) {
        let key = {
            let n = normalized(w);
            // CharStringExt::to_lower as written (all-lowercase strings are returned unchanged)
            if n.iter().all(|c| c.is_lowercase()) { n } else { lower_chars(&n) }
        };
        let id = WordId::from_word_chars(w);
        self.rep.monitor("wordid_injective_on_explored_strings(checked)", 1);
        match self.ids.get(&id) {
            Some(prev) if *prev != key => {
                let (a, b): (String, String) = (prev.iter().collect(), key.iter().collect());
                self.rep.fail("wordid_collision", format!("WordId collision between {a:?} and {b:?}"), json!({"kind": "idpair", "a": a, "b": b}));
            }
            Some(_) => {}
            None => {
                self.ids.insert(id, key);
            }
        }
    }
    fn entries_line(&mut self, es: &[(Vec<char>, WordMetadata)]) -> String {
        let mut parts = Vec::with_capacity(es.len());
        for (w, m) in es {
            let t = self.tag(m);
            parts.push(format!("{} {}", t, cps(w)).trim().to_string());
        }
        parts.join(" , ")
    }
}

/// canonical form of a fuzzy result — the same function as canon_fuzzy in ocaml/c15_main.ml
fn canon_fuzzy(k: usize, mut es: Vec<(u8, Vec<u32>, usize)>) -> String {
    es.sort();
    let show = |e: &(u8, Vec<u32>, usize)| format!("{}:{}:{}", e.0, e.2, e.1.iter().map(|c| c.to_string()).collect::<Vec<_>>().join(" "));
    let n = es.len();
    if n < k || n == 0 {
        format!("R {}", es.iter().map(show).collect::<Vec<_>>().join(", ")).trim().to_string()
    } else {
        let dmax = es[n - 1].0;
        let below: Vec<_> = es.iter().filter(|e| e.0 < dmax).collect();
        format!("R {} ; {}*{}", below.iter().map(|e| show(e)).collect::<Vec<_>>().join(", "), dmax, n - below.len())
    }
}

fn panic_class(msg: &str) -> &'static str {
    if msg.contains("attempt to add with overflow") {
        "overflow"
    } else if msg.contains("index out of bounds") || msg.contains("out of range") {
        "index"
    } else if msg.contains("assertion failed") {
        "assert"
    } else if msg.contains("Option::unwrap()") {
        "unwrap"
    } else {
        "other"
    }
}

// ---------------------------------------------------------------------------------------------
// building the dictionaries of a scenario
// ---------------------------------------------------------------------------------------------
fn build(cx: &mut Cx, s: &Scenario) -> Option<Vec<Built>> {
    cx.scn += 1;
    let mut out: Vec<Built> = vec![];
    let mut muts: HashMap<String, MutableDictionary> = HashMap::new();
    for def in &s.dicts {
        let gname = format!("s{}_{}", cx.scn, def.name);
        let chars: Vec<(Vec<char>, WordMetadata)> = def.entries.iter().map(|(w, m)| (w.chars().collect(), mk_meta(*m))).collect();
        for (w, _) in &chars {
            cx.declare(w);
            cx.monitor_id(w);
        }
        let mut merged_handle: Option<MergedDictionary> = None;
        let built: Result<(Arc<dyn Dictionary>, Vec<Vec<char>>, String), String> = guarded(|| match def.ty.as_str() {
            "M" => {
                let mut m = MutableDictionary::new();
                m.extend_words(chars.iter().map(|(w, md)| (w.clone(), md.clone())));
                muts.insert(def.name.clone(), m.clone());
                let ws: Vec<Vec<char>> = m.words_iter().map(|w| w.to_vec()).collect();
                let line = format!("M {} | {}", gname, cx.entries_line(&chars));
                (Arc::new(m) as Arc<dyn Dictionary>, ws, line)
            }
            "F" => {
                let f = FstDictionary::new(chars.iter().map(|(w, md)| (w.iter().copied().collect::<CharString>(), md.clone())).collect());
                let mut ws: Vec<Vec<char>> = chars.iter().map(|(w, _)| w.clone()).collect();
                ws.sort();
                ws.dedup();
                let line = format!("F {} | {}", gname, cx.entries_line(&chars));
                (Arc::new(f) as Arc<dyn Dictionary>, ws, line)
            }
            "FM" => {
                let m = muts.get(&def.children[0]).expect("FM: child must be an M defined earlier").clone();
                let es: Vec<(Vec<char>, WordMetadata)> = m.words_iter().map(|w| (w.to_vec(), m.get_word_metadata(w).unwrap().clone())).collect();
                let f: FstDictionary = m.into();
                let ws = es.iter().map(|(w, _)| w.clone()).collect();
                let line = format!("F {} | {}", gname, cx.entries_line(&es));
                (Arc::new(f) as Arc<dyn Dictionary>, ws, line)
            }
            "X" => {
                let mut x = MergedDictionary::new();
                let mut names = vec![];
                let mut ws = vec![];
                for c in &def.children {
                    let b = out.iter().find(|b| b.def.name == *c).expect("X: child must be defined earlier");
                    x.add_dictionary(b.dict.clone());
                    names.push(b.gname.clone());
                    ws.extend(b.words.iter().cloned());
                }
                let line = format!("X {} | {}", gname, names.join(" "));
                merged_handle = Some(x.clone());
                (Arc::new(x) as Arc<dyn Dictionary>, ws, line)
            }
            "CF" | "CM" => {
                let is_f = def.ty == "CF";
                if cx.curated_f.is_none() {
                    cx.curated_f = Some(FstDictionary::curated());
                    cx.curated_m = Some(MutableDictionary::curated());
                }
                let m = cx.curated_m.clone().unwrap();
                let d: Arc<dyn Dictionary> = if is_f { cx.curated_f.clone().unwrap() } else { m.clone() };
                let mut es: Vec<(Vec<char>, WordMetadata)> = m.words_iter().map(|w| (w.to_vec(), m.get_word_metadata(w).unwrap().clone())).collect();
                if is_f {
                    es.sort_by(|a, b| a.0.cmp(&b.0));
                }
                let ws: Vec<Vec<char>> = es.iter().map(|(w, _)| w.clone()).collect();
                // the curated dictionary is handed to the model once per run (bulk load, see c15_main.ml)
                let line = if let Some(g) = cx.curated_emitted.get(&def.ty) {
                    format!("={}", g)
                } else {
                    for (w, _) in &es {
                        cx.declare(w);
                        cx.monitor_id(w);
                    }
                    cx.curated_emitted.insert(def.ty.clone(), gname.clone());
                    format!("{} {} | {}", if is_f { "G" } else { "K" }, gname, cx.entries_line(&es))
                };
                (d, ws, line)
            }
            other => panic!("unknown dictionary type {other}"),
        });
        match built {
            Ok((dict, words, line)) => {
                let mut gname = gname;
                if let Some(alias) = line.strip_prefix('=') {
                    gname = alias.to_string();
                } else {
                    let n = dict.word_count();
                    cx.rep.case(&line, &format!("n {n}"));
                    let mut ws: Vec<Vec<char>> = dict.words_iter().map(|w| w.to_vec()).collect();
                    ws.sort();
                    cx.rep.case(&format!("W {gname}"), format!("W {}", ws.iter().map(|w| cps(w)).collect::<Vec<_>>().join(", ")).trim());
                }
                // the dictionary's words, for the oracle, are what words_iter() lists
                let _ = words;
                let words: Vec<Vec<char>> = dict.words_iter().map(|w| w.to_vec()).collect();
                let word_set = words.iter().cloned().collect();
                out.push(Built { def: def.clone(), gname, dict, words, word_set, is_fst: matches!(def.ty.as_str(), "F" | "FM" | "CF"), is_merged: def.ty == "X", is_curated: def.ty.starts_with('C'),
                    uses_fst: matches!(def.ty.as_str(), "F" | "FM" | "CF") || (def.ty == "X" && def.children.iter().any(|c| out.iter().any(|b| b.def.name == *c && b.uses_fst))),
                    id_collision: def.ty == "F" && !ids_distinct(&def.entries), merged: merged_handle,
                    sorted_ref: if def.ty == "F" && !ids_distinct(&def.entries) {
                        let mut es = chars.clone();
                        es.sort_by(|a, b| a.0.cmp(&b.0));
                        es.dedup_by(|a, b| a.0 == b.0);
                        let mut m = MutableDictionary::new();
                        m.extend_words(es);
                        Some(Arc::new(m) as Arc<dyn Dictionary>)
                    } else { None } });
            }
            Err(m) => {
                cx.rep.fail("build_panic", format!("building dictionary {} ({}) panicked: {m}", def.name, def.ty), scenario_json(s, None));
                return None;
            }
        }
    }
    Some(out)
}

// ---------------------------------------------------------------------------------------------
// one scenario: correspondence lines + oracle
// ---------------------------------------------------------------------------------------------
#[derive(Clone, PartialEq, Debug)]
struct Exact {
    contains: bool,
    exact: bool,
    meta: Option<usize>,
    canon: Option<Vec<char>>,
    from_id: Option<Vec<char>>,
}

fn ask_exact(cx: &mut Cx, b: &Built, q: &[char], fail_input: &Value) -> Result<(Exact, Vec<String>), String> {
    let qs: String = q.iter().collect();
    let (d, q) = (b.dict.clone(), q.to_vec());
    let r = cx.on_impl(&format!("the exact queries for {qs:?} on {} ({})", b.def.name, b.def.ty), fail_input, move || {
        let q = &q[..];
        let mut str_diffs = vec![];
        let contains = d.contains_word(q);
        if d.contains_word_str(&qs) != contains {
            str_diffs.push("contains_word_str".to_string());
        }
        let exact = d.contains_exact_word(q);
        if d.contains_exact_word_str(&qs) != exact {
            str_diffs.push("contains_exact_word_str".to_string());
        }
        let meta = d.get_word_metadata(q).cloned();
        if d.get_word_metadata_str(&qs).cloned() != meta {
            str_diffs.push("get_word_metadata_str".to_string());
        }
        let canon = d.get_correct_capitalization_of(q).map(|w| w.to_vec());
        let from_id = d.get_word_from_id(&WordId::from_word_chars(q)).map(|w| w.to_vec());
        (contains, exact, meta, canon, from_id, str_diffs)
    }).unwrap_or_else(|| Err("aborted".into()))?;
    let meta = r.2.as_ref().map(|m| cx.tag(m));
    Ok((Exact { contains: r.0, exact: r.1, meta, canon: r.3, from_id: r.4 }, r.5))
}

fn exact_line(e: &Exact) -> String {
    let o = |x: &Option<Vec<char>>| x.as_ref().map(|w| cps(w)).unwrap_or_else(|| "-".into());
    format!("c={} e={} m={} k={} i={}", u8::from(e.contains), u8::from(e.exact), e.meta.map(|m| m.to_string()).unwrap_or_else(|| "-".into()), o(&e.canon), o(&e.from_id)).trim().to_string()
}

fn run_scenario(cx: &mut Cx, s: &Scenario) {
    if cx.aborted {
        return;
    }
    let Some(built) = build(cx, s) else { return };
    // FstDictionary::fuzzy_match depends on which bounds were asked before on the same thread (its cache of automaton
    // builders): in a `bound-history` scenario the whole query sequence is the input of a failure
    let history = s.origin.contains("bound-history");
    // the state of the builder cache when the scenario starts (a history scenario is replayed as a whole)
    let warm0 = cx.warmup_bounds();
    let by_name: HashMap<String, usize> = built.iter().enumerate().map(|(i, b)| (b.def.name.clone(), i)).collect();
    if !s.malformed {
        structure_oracle(cx, s, &built, &by_name);
    }
    for query in &s.queries {
        if cx.aborted {
            return;
        }
        cx.rep.eval();
        let q: Vec<char> = query.q.chars().collect();
        cx.declare(&q);
        cx.monitor_id(&q);
        let qn = normalized(&q);
        let ql_chars = lower_chars(&qn);
        let ql_string = lower_string(&qn);
        cx.declare(&ql_string);
        let mut fail_input = if history { scenario_json(s, None) } else { scenario_json(s, Some(query)) };
        let warm = if history { warm0.clone() } else { cx.warmup_bounds() };
        if built.iter().any(|b| b.uses_fst) && !warm.is_empty() {
            fail_input["warmup_bounds"] = json!(warm);
        }
        let targets: Vec<usize> = if query.on.is_empty() { (0..built.len()).collect() } else { query.on.iter().filter_map(|n| by_name.get(n).copied()).collect() };
        let mut nontriv = false;

        // ---- exact queries: correspondence per dictionary, then agreement between back-ends ----
        let mut answers: HashMap<String, Exact> = HashMap::new();
        for &i in &targets {
            let b = &built[i];
            match ask_exact(cx, b, &q, &fail_input) {
                Ok((e, str_diffs)) => {
                    cx.rep.case(&format!("C {} | {}", b.gname, cps(&q)), &exact_line(&e));
                    for sd in str_diffs {
                        cx.rep.fail("str_variant_differs", format!("{}: {} answers differently from its char-slice variant for {:?}", b.def.ty, sd, query.q), fail_input.clone());
                    }
                    if !s.malformed {
                        // internal consistency every back-end owes the property text
                        if e.contains != e.meta.is_some() || e.contains != e.canon.is_some() {
                            cx.rep.fail("exact_inconsistent", format!("{} ({}): contains_word={} but metadata/canonical spelling presence = {}/{} for {:?}", b.def.name, b.def.ty, e.contains, e.meta.is_some(), e.canon.is_some(), query.q), fail_input.clone());
                        }
                        if e.exact && !e.contains {
                            cx.rep.fail("exact_inconsistent", format!("{} ({}): contains_exact_word but not contains_word for {:?}", b.def.name, b.def.ty, query.q), fail_input.clone());
                        }
                        // (fix ebb53b3, C15_exact_own_word) a word of the dictionary is an exact word of it, as stored
                        if b.word_set.contains(&q) && !e.exact {
                            cx.rep.fail("exact_own_word", format!("{} ({}): {:?} is listed by words_iter but contains_exact_word({:?}) is false", b.def.name, b.def.ty, query.q, query.q), fail_input.clone());
                        }
                        if e.from_id != e.canon {
                            cx.rep.fail("exact_inconsistent", format!("{} ({}): get_word_from_id(id(q)) differs from get_correct_capitalization_of(q) for {:?}", b.def.name, b.def.ty, query.q), fail_input.clone());
                        }
                    }
                    if e.contains {
                        nontriv = true;
                    }
                    answers.insert(b.def.name.clone(), e);
                }
                Err(m) => {
                    cx.rep.case(&format!("C {} | {}", b.gname, cps(&q)), "PANIC");
                    cx.rep.fail("exact_panic", format!("exact query on {} ({}) panicked: {m}", b.def.name, b.def.ty), fail_input.clone());
                }
            }
        }
        if !s.malformed {
            for g in &s.agree {
                let present: Vec<&String> = g.iter().filter(|n| answers.contains_key(*n)).collect();
                for i in 1..present.len() {
                    let w = [present[0], present[i]];
                    let (a, b) = (&answers[w[0]], &answers[w[1]]);
                    if a != b {
                        let (ba, bb) = (&built[by_name[w[0]]], &built[by_name[w[1]]]);
                        let (ta, tb) = (&ba.def.ty, &bb.def.ty);
                        // FC15b: FstDictionary::new on colliding ids keeps the last spelling in SORTED order, extend_words the
                        // last INSERTED.  Only that: the FST must still answer like extend_words over the sorted list.
                        let mut class = "backends_disagree";
                        for (x, other) in [(ba, bb), (bb, ba)] {
                            if let (true, Some(rf), false) = (x.id_collision, x.sorted_ref.as_ref(), other.id_collision) {
                                let probe = Built { def: x.def.clone(), gname: String::new(), dict: rf.clone(), words: vec![], word_set: HashSet::new(), is_fst: false, is_merged: false, is_curated: false, uses_fst: false, id_collision: false, merged: None, sorted_ref: None };
                                if let Ok((want, _)) = ask_exact(cx, &probe, &q, &fail_input) {
                                    if want == answers[&x.def.name] {
                                        class = "fst_new_id_collision";
                                    }
                                }
                            }
                        }
                        cx.rep.fail(class, format!("{}({}) and {}({}) hold the same entries but answer {:?} differently: [{}] vs [{}]", w[0], ta, w[1], tb, query.q, exact_line(a), exact_line(b)), fail_input.clone());
                    }
                }
            }
            // merged = union of its parts
            for &i in &targets {
                let b = &built[i];
                if !b.is_merged {
                    continue;
                }
                let kids: Vec<&Exact> = b.def.children.iter().filter_map(|c| answers.get(c)).collect();
                if kids.len() != b.def.children.len() {
                    continue;
                }
                let Some(me) = answers.get(&b.def.name) else { continue };
                let want = Exact {
                    contains: kids.iter().any(|k| k.contains),
                    exact: kids.iter().any(|k| k.exact),
                    meta: kids.iter().find_map(|k| k.meta),
                    canon: kids.iter().find_map(|k| k.canon.clone()),
                    from_id: kids.iter().find_map(|k| k.from_id.clone()),
                };
                if *me != want {
                    cx.rep.fail("merged_not_union", format!("merged {} answers [{}] for {:?} but the union of its parts is [{}]", b.def.name, exact_line(me), query.q, exact_line(&want)), fail_input.clone());
                }
            }
        }

        // ---- fuzzy search ----
        if query.fuzzy {
            // what each dictionary returned for this query (for the merged = function-of-children oracle)
            let mut fuzzy_got: HashMap<String, Vec<(Vec<char>, u8, usize)>> = HashMap::new();
            for &i in &targets {
                let b = &built[i];
                // the curated FST is only asked up to distance 3 (bounds 4 and 5 are exercised on small dictionaries)
                if b.is_curated && query.d > 3 {
                    continue;
                }
                let mut str_differs = false;
                if b.uses_fst {
                    cx.note_bound(query.d);
                }
                let (dict, qc, qstr, (qd, qk)) = (b.dict.clone(), q.clone(), query.q.clone(), (query.d, query.k));
                let res = cx.on_impl(&format!("fuzzy_match({:?}, {}, {}) on {} ({}, {} words)", query.q, query.d, query.k, b.def.name, b.def.ty, b.words.len()), &fail_input, move || {
                    let r: Vec<FuzzyMatchResult> = dict.fuzzy_match(&qc, qd, qk);
                    let r2: Vec<FuzzyMatchResult> = dict.fuzzy_match_str(&qstr, qd, qk);
                    let conv = |r: &Vec<FuzzyMatchResult>| r.iter().map(|x| (x.word.to_vec(), x.edit_distance, x.metadata.clone())).collect::<Vec<_>>();
                    let (a, c) = (conv(&r), conv(&r2));
                    let differs = a != c;
                    (a, differs)
                });
                let Some(res) = res else { return };
                let res: Result<Vec<(Vec<char>, u8, WordMetadata)>, String> = res.map(|(a, differs)| {
                    str_differs = differs;
                    a
                });
                if str_differs {
                    cx.rep.fail("str_variant_differs", format!("{}: fuzzy_match_str differs from fuzzy_match for {:?}", b.def.ty, query.q), fail_input.clone());
                }
                let head = format!("Z {} {} {} | {} | {}", b.gname, query.d, query.k, cps(&q), cps(&ql_string));
                if b.is_fst {
                    cx.fst_cases += 1;
                }
                match res {
                    Err(m) => {
                        let pc = panic_class(&m);
                        cx.rep.case(&format!("{head} | P {pc}"), &format!("P {pc}"));
                        // (F19, fixed by 7a7de79: strings of >= 255 characters used to panic here)
                        cx.rep.fail("fuzzy_panic", format!("fuzzy_match on {} ({}) panicked ({pc}) at {}: {m}", b.def.name, b.def.ty, cx.last_loc), fail_input.clone());
                        cx.rep.count("fuzzy:panic");
                    }
                    Ok(r) => {
                        let es: Vec<(u8, Vec<u32>, usize)> = r.iter().map(|(w, d, m)| (*d, w.iter().map(|c| *c as u32).collect(), cx.tag(m))).collect();
                        let raw = es.iter().map(|e| format!("{} {} {}", e.0, e.2, e.1.iter().map(|c| c.to_string()).collect::<Vec<_>>().join(" ")).trim().to_string()).collect::<Vec<_>>().join(" ; ");
                        // merged: compared raw and in order (a function of what the children returned);
                        // mutable: raw and in order too (since fix 5a329ea the (distance, word) sort leaves nothing open);
                        // FST: canonical form (the unstable sorts are unspecified)
                        let impl_line = if b.is_merged || !b.is_fst {
                            format!("R {}", es.iter().map(|e| format!("{}:{}:{}", e.0, e.2, e.1.iter().map(|c| c.to_string()).collect::<Vec<_>>().join(" "))).collect::<Vec<_>>().join(", ")).trim().to_string()
                        } else {
                            canon_fuzzy(query.k, es)
                        };
                        cx.rep.case(&format!("{head} | {raw}"), &impl_line);
                        cx.rep.count(&format!("fuzzy:{}:results:{}", if b.is_fst { "fst" } else if b.is_merged { "merged" } else { "mutable" }, bucket(r.len())));
                        if !r.is_empty() {
                            nontriv = true;
                            if cx.rep.samples.len() < 8 && r.len() >= 2 && (cx.rep.samples.len() as u64) * 400 < cx.rep.evaluations {
                                cx.rep.sample(json!({"dictionary": format!("{} ({}, {} words)", b.def.name, b.def.ty, b.words.len()), "query": query.q, "max_distance": query.d, "max_results": query.k,
                                    "results": r.iter().take(6).map(|(w, d, _)| json!([w.iter().collect::<String>(), d])).collect::<Vec<_>>(), "n_results": r.len(), "origin": s.origin}));
                            }
                        }
                        fuzzy_got.insert(b.def.name.clone(), r.iter().map(|(w, d, m)| (w.clone(), *d, cx.tag(m))).collect());
                        if b.is_merged {
                            // MergedDictionary::fuzzy_match = the children's results concatenated, stably sorted by
                            // distance, cut at max_results (C15_merged_fuzzy_spec) — also for malformed inputs
                            let kids: Vec<&Vec<(Vec<char>, u8, usize)>> = b.def.children.iter().filter_map(|c| fuzzy_got.get(c)).collect();
                            if kids.len() == b.def.children.len() {
                                let mut want: Vec<(Vec<char>, u8, usize)> = kids.iter().flat_map(|k| k.iter().cloned()).collect();
                                want.sort_by_key(|e| e.1);
                                want.truncate(query.k);
                                if want != fuzzy_got[&b.def.name] {
                                    let show = |v: &Vec<(Vec<char>, u8, usize)>| v.iter().map(|(w, d, _)| format!("{}@{}", w.iter().collect::<String>(), d)).collect::<Vec<_>>().join(" ");
                                    cx.rep.fail("merged_fuzzy_not_union", format!("merged {}: fuzzy_match({:?}, {}, {}) = [{}] but its children's results, merged by distance and capped, are [{}]", b.def.name, query.q, query.d, query.k, show(&fuzzy_got[&b.def.name]), show(&want)), fail_input.clone());
                                }
                            }
                        }
                        suggest_case(cx, b, query, &q, &ql_string, &r, &raw, &fail_input);
                        if b.is_fst {
                            stream_monitor(cx, b, &qn, query.d, &fail_input);
                            if ql_string != qn {
                                stream_monitor(cx, b, &ql_string, query.d, &fail_input);
                            }
                        }
                        if !s.malformed {
                            fuzzy_oracle(cx, b, query, &qn, &ql_chars, &ql_string, &r, &fail_input);
                        }
                    }
                }
            }
        }
        // distribution
        let lowerq = ql_chars == qn && ql_string == qn;
        cx.rep.count(&format!("query:len:{}", bucket(q.len())));
        cx.rep.count(if lowerq { "query:lower-case" } else { "query:not-lower-case" });
        if !q.is_ascii_chars() {
            cx.rep.count("query:non-ascii");
        }
        if q != qn {
            cx.rep.count("query:typographic-apostrophe");
        }
        if query.fuzzy {
            cx.rep.count(&format!("fuzzy:d={}", query.d));
            cx.rep.count(&format!("fuzzy:k={}", bucket(query.k)));
        }
        cx.rep.count(&format!("origin:{}", s.origin));
        if nontriv {
            cx.rep.nontrivial(&(s.origin.clone(), query.q.clone(), query.d, query.k, s.dicts.len(), s.dicts.first().map(|d| d.entries.clone())));
        }
    }
}

/// per scenario, independent of the queries: a merged dictionary lists the words of its parts (word_count = sum,
/// words_iter = concatenation), and `==` on merged dictionaries agrees with their contents (fix f2dc537)
fn structure_oracle(cx: &mut Cx, s: &Scenario, built: &[Built], by_name: &HashMap<String, usize>) {
    let mut bare = s.clone();
    bare.queries.clear();
    let input = scenario_json(&bare, None);
    let sorted_words = |b: &Built| {
        let mut v = b.words.clone();
        v.sort();
        v
    };
    for b in built.iter().filter(|b| b.is_merged) {
        let kids: Vec<&Built> = b.def.children.iter().filter_map(|c| by_name.get(c).map(|i| &built[*i])).collect();
        let mut want: Vec<Vec<char>> = kids.iter().flat_map(|k| k.words.iter().cloned()).collect();
        want.sort();
        let n_want: usize = kids.iter().map(|k| k.dict.word_count()).sum();
        if b.dict.word_count() != n_want || sorted_words(b) != want {
            cx.rep.fail("merged_not_union", format!("merged {} of {:?}: word_count {} / words_iter {} words, but its parts have word_count {} / {} words in total", b.def.name, b.def.children, b.dict.word_count(), b.words.len(), n_want, want.len()), input.clone());
        }
    }
    let xs: Vec<&Built> = built.iter().filter(|b| b.merged.is_some() && !b.def.children.iter().any(|c| by_name.get(c).map(|i| built[*i].is_curated).unwrap_or(true))).collect();
    for (i, a) in xs.iter().enumerate() {
        for b in xs.iter().skip(i + 1) {
            let eq = a.merged.as_ref().unwrap() == b.merged.as_ref().unwrap();
            cx.rep.monitor("merged_eq_pairs_checked", 1);
            let kids = |x: &Built| x.def.children.iter().map(|c| sorted_words(&built[by_name[c]])).collect::<Vec<_>>();
            let (ka, kb) = (kids(a), kids(b));
            if eq && sorted_words(a) != sorted_words(b) {
                cx.rep.fail("merged_eq_but_differ", format!("merged dictionaries {} and {} compare equal (==) but hold different words: {:?} vs {:?}", a.def.name, b.def.name, a.words.iter().map(|w| w.iter().collect::<String>()).collect::<Vec<_>>(), b.words.iter().map(|w| w.iter().collect::<String>()).collect::<Vec<_>>()), input.clone());
            }
            if !eq && ka == kb {
                cx.rep.fail("merged_eq_order_dependent", format!("merged dictionaries {} and {} have children with the same words, child by child, but compare unequal (!=): the content hash depends on the hash-map iteration order", a.def.name, b.def.name), input.clone());
            }
        }
    }
}

trait AsciiChars {
    fn is_ascii_chars(&self) -> bool;
}
impl AsciiChars for Vec<char> {
    fn is_ascii_chars(&self) -> bool {
        self.iter().all(|c| c.is_ascii())
    }
}

/// independent copy of score_suggestion (spell/mod.rs), over i64
fn score(mw: &[char], w: &[char], dist: u8, md: &WordMetadata) -> i64 {
    if mw.is_empty() || w.is_empty() {
        return i32::MAX as i64;
    }
    let mut sc = dist as i64 * 10;
    if mw[0] == w[0] {
        sc -= 10;
    }
    if mw[mw.len() - 1] == 's' && w[w.len() - 1] == 's' {
        sc -= 5;
    }
    if md.common {
        sc -= 5;
    }
    if w.iter().filter(|c| **c == '\'').count() == 1 {
        sc -= 5;
    }
    sc
}

/// suggest_correct_spelling on the same (query, bound, cap): correspondence with C15Suggest (extracted) + oracle:
/// the suggestions are exactly the words of fuzzy_match's result (nothing dropped or added: C15_order_suggestions),
/// hence capped, in the stable order of the score
#[allow(clippy::too_many_arguments)]
fn suggest_case(cx: &mut Cx, b: &Built, query: &Query, q: &[char], ql_string: &[char], r: &[(Vec<char>, u8, WordMetadata)], raw: &str, fail_input: &Value) {
    let who = format!("{} ({})", b.def.name, b.def.ty);
    let head = format!("S {} {} {} | {} | {} | {}", b.gname, query.d, query.k, cps(q), cps(ql_string), raw);
    let (dict, qc, (qd, qk)) = (b.dict.clone(), q.to_vec(), (query.d, query.k));
    let Some(got) = cx.on_impl(&format!("suggest_correct_spelling({:?}, {}, {}) on {who}", query.q, query.k, query.d), fail_input, move || suggest_correct_spelling(&qc, qk, qd, &dict).into_iter().map(|w| w.to_vec()).collect::<Vec<Vec<char>>>()) else { return };
    cx.suggest_cases += 1;
    match got {
        Err(m) => {
            let pc = panic_class(&m);
            cx.rep.case(&head, &format!("P {pc}"));
            cx.rep.fail("suggest_panic", format!("suggest_correct_spelling on {who} panicked ({pc}) at {} although fuzzy_match did not: {m}", cx.last_loc), fail_input.clone());
        }
        Ok(sug) => {
            cx.rep.case(&head, format!("S {}: {}", sug.len(), sug.iter().map(|w| cps(w)).collect::<Vec<_>>().join(", ")).trim());
            let show = |v: &[Vec<char>]| v.iter().map(|w| w.iter().collect::<String>()).collect::<Vec<_>>();
            if sug.len() > query.k {
                cx.rep.fail("suggest_cap", format!("{who}: {} suggestions for result_limit = {}", sug.len(), query.k), fail_input.clone());
            }
            let mut a: Vec<&Vec<char>> = sug.iter().collect();
            let mut f: Vec<&Vec<char>> = r.iter().map(|x| &x.0).collect();
            a.sort();
            f.sort();
            if a != f {
                cx.rep.fail("suggest_not_fuzzy", format!("{who}: the suggestions {:?} for {:?} (d={}, k={}) are not the words of fuzzy_match's result {:?}", show(&sug), query.q, query.d, query.k, show(&r.iter().map(|x| x.0.clone()).collect::<Vec<_>>())), fail_input.clone());
            } else {
                // Vec::sort_by_key is stable: one possible outcome.  The hypothesis is observed on std itself: the keys of
                // this case, tagged with their positions, sorted by key alone, must keep equal keys in position order
                {
                    let mut tagged: Vec<(i64, usize)> = r.iter().enumerate().map(|(i, x)| (score(q, &x.0, x.1, &x.2), i)).collect();
                    tagged.sort_by_key(|t| t.0);
                    cx.sort_stable_checked += 1;
                    if tagged.windows(2).any(|w| w[0].0 > w[1].0 || (w[0].0 == w[1].0 && w[0].1 > w[1].1)) {
                        cx.rep.fail("sort_by_key_unstable", format!("Vec::sort_by_key reordered equal keys: {tagged:?}"), fail_input.clone());
                    }
                }
                let mut want: Vec<&(Vec<char>, u8, WordMetadata)> = r.iter().collect();
                want.sort_by_key(|x| score(q, &x.0, x.1, &x.2));
                let want: Vec<Vec<char>> = want.into_iter().map(|x| x.0.clone()).collect();
                if want != sug {
                    cx.rep.fail("suggest_order", format!("{who}: the suggestions for {:?} (d={}, k={}) are {:?}, but fuzzy_match's result in ascending score order (ties in the order returned) is {:?}", query.q, query.d, query.k, show(&sug), show(&want)), fail_input.clone());
                }
            }
            let distinct_scores: HashSet<i64> = r.iter().map(|x| score(q, &x.0, x.1, &x.2)).collect();
            cx.rep.count(&format!("suggest:distinct-scores:{}", bucket(distinct_scores.len())));
            if r.iter().map(|x| &x.0).ne(sug.iter()) {
                cx.rep.count("suggest:reordered");
            }
        }
    }
}

/// DIRECT monitor of the stream contract (C15_stream_contract_declarative): our own fst::Map over the sorted
/// words_iter of the dictionary (= its fuzzy index, C15_fst_new_in_step), searched with the Levenshtein DFA of
/// `x` for bound `d` exactly as FstDictionary::fuzzy_match does, against brute force (full-matrix distance):
/// the stream must be exactly [(i, lev(x, w_i)) | lev(x, w_i) <= d], in index order
fn stream_monitor(cx: &mut Cx, b: &Built, x: &[char], d: u8, fail_input: &Value) {
    let entry = match cx.fst_maps.get(&b.gname) {
        Some(e) => e.clone(),
        None => {
            let mut ws: Vec<Vec<char>> = b.words.clone();
            ws.sort();
            ws.dedup();
            let built = guarded(|| {
                let mut builder = fst::MapBuilder::memory();
                for (i, w) in ws.iter().enumerate() {
                    builder.insert(w.iter().collect::<String>(), i as u64).expect("insertion not in lexicographical order");
                }
                fst::Map::new(builder.into_inner().unwrap()).expect("unable to build FST map")
            });
            let Ok(map) = built else { return };
            let e = Arc::new((map, ws));
            cx.fst_maps.insert(b.gname.clone(), e.clone());
            e
        }
    };
    let builder = cx.builders.entry(d).or_insert_with(|| Arc::new(LevenshteinAutomatonBuilder::new(d, false))).clone();
    let xs: String = x.iter().collect();
    let got: Result<Vec<(u64, u8)>, String> = guarded(|| {
        let dfa = builder.build_dfa(&xs);
        let mut stream = entry.0.search_with_state(&dfa).into_stream();
        let mut out = vec![];
        while let Some((_, v, st)) = stream.next() {
            out.push((v, dfa.distance(st).to_u8()));
        }
        out
    });
    let want: Vec<(u64, u8)> = entry.1.iter().enumerate().filter_map(|(i, w)| lev_within(x, w, d as usize).map(|e| (i as u64, e as u8))).collect();
    cx.stream_checked += 1;
    // correspondence: the same stream from the extracted automaton product (C15Automaton.la_search over the model's
    // index of this dictionary), item by item; the 130 000-word curated index for the first few strings only
    if !b.is_curated || cx.automaton_curated < cx.automaton_curated_max {
        if b.is_curated {
            cx.automaton_curated += 1;
        }
        cx.automaton_cases += 1;
        let line = match &got {
            Ok(g) => format!("A {}", g.iter().map(|(i, e)| format!("{i}:{e}")).collect::<Vec<_>>().join(" ")).trim().to_string(),
            Err(m) => format!("P {}", panic_class(m)),
        };
        cx.rep.case(&format!("A {} {} | {}", b.gname, d, cps(x)), &line);
        cx.rep.count(&format!("automaton:stream-items:{}", bucket(got.as_ref().map(|g| g.len()).unwrap_or(0))));
    }
    match got {
        Ok(g) if g == want => {}
        Ok(g) => {
            let pos = g.iter().zip(want.iter()).position(|(a, b)| a != b).unwrap_or(g.len().min(want.len()));
            let word = |p: Option<&(u64, u8)>| p.map(|(i, e)| format!("{:?}@{e}", entry.1.get(*i as usize).map(|w| w.iter().collect::<String>()).unwrap_or_default())).unwrap_or_else(|| "end of stream".into());
            cx.rep.fail("stream_contract", format!("fst::Map::search_with_state(levenshtein DFA of {xs:?}, bound {d}) over the {} words of {} streams {} items, brute force finds {}; first difference at position {pos}: streamed {} vs expected {}", entry.1.len(), b.def.name, g.len(), want.len(), word(g.get(pos)), word(want.get(pos))), fail_input.clone());
        }
        Err(m) => {
            cx.rep.fail("stream_contract", format!("fst::Map::search_with_state(levenshtein DFA of {xs:?}, bound {d}) panicked: {m}"), fail_input.clone());
        }
    }
}

/// the property text, evaluated on the implementation's result
#[allow(clippy::too_many_arguments)]
fn fuzzy_oracle(cx: &mut Cx, b: &Built, query: &Query, qn: &[char], ql_chars: &[char], ql_string: &[char], r: &[(Vec<char>, u8, WordMetadata)], fail_input: &Value) {
    let who = format!("{} ({})", b.def.name, b.def.ty);
    let d = query.d as usize;
    // capped
    if r.len() > query.k {
        cx.rep.fail("fuzzy_cap", format!("{who}: {} results for max_results = {}", r.len(), query.k), fail_input.clone());
    }
    // ordered by distance
    if r.windows(2).any(|w| w[0].1 > w[1].1) {
        cx.rep.fail("fuzzy_order", format!("{who}: results not ordered by distance: {:?}", r.iter().map(|x| x.1).collect::<Vec<_>>()), fail_input.clone());
    }
    for (w, dist, md) in r {
        let ws: String = w.iter().collect();
        // a real dictionary word, with that word's metadata
        if !b.word_set.contains(w) {
            cx.rep.fail("fuzzy_not_a_word", format!("{who}: result {ws:?} for {:?} is not a word of the dictionary (words_iter)", query.q), fail_input.clone());
        } else if !b.is_merged && b.dict.get_word_metadata(w) != Some(md) {
            cx.rep.fail("fuzzy_metadata", format!("{who}: result {ws:?} carries metadata that differs from get_word_metadata({ws:?})"), fail_input.clone());
        }
        // a true Levenshtein distance to the query or its lower-case form, within the bound
        let (du, dl1, dl2) = (lev(qn, w), lev(ql_chars, w), lev(ql_string, w));
        let dd = *dist as usize;
        if dd == 255 && du.min(dl1).min(dl2) > 255 {
            // F19b: the u8 result of edit_distance_min_alloc saturates; only max_distance = 255 can see it
            cx.rep.fail("fuzzy_distance_saturated", format!("{who}: result {ws:?} for a query of {} characters reports distance 255 (u8::MAX); true distances: {du} to the query, {dl1}/{dl2} to its lower-case form — beyond max_distance {d}", qn.len()), fail_input.clone());
        } else if dd != du && dd != dl1 && dd != dl2 {
            cx.rep.fail("fuzzy_distance", format!("{who}: result {ws:?} for {:?} reports distance {dd}; true distances: {du} to the query, {dl1}/{dl2} to its lower-case form", query.q), fail_input.clone());
        }
        if dd > d {
            cx.rep.fail("fuzzy_bound", format!("{who}: result {ws:?} at distance {dd} > max_distance {d}"), fail_input.clone());
        }
    }
    // MutableDictionary (fix 5a329ea): ties are ordered by the word, so the result is a function of the
    // dictionary's contents (C15_mutable_fuzzy: StronglySorted fres_order; C15_mutable_fuzzy_deterministic)
    if !b.is_fst && !b.is_merged {
        if let Some(w) = r.windows(2).find(|w| w[0].1 == w[1].1 && w[0].0 >= w[1].0) {
            cx.rep.fail("fuzzy_tie_order", format!("{who}: results {:?} and {:?} (both at distance {}) for {:?} are not in word order: which equidistant candidates survive the cap, and their order, depend on the hash-map iteration order", w[0].0.iter().collect::<String>(), w[1].0.iter().collect::<String>(), w[0].1, query.q), fail_input.clone());
        }
        // exact completeness: nothing that was cut is (distance, word)-smaller than the last result
        if r.len() >= query.k && query.k > 0 {
            let last = &r[r.len() - 1];
            let found: HashSet<&Vec<char>> = r.iter().map(|x| &x.0).collect();
            let lo = if qn.len() <= d { 1 } else { qn.len() - d };
            for w in &b.words {
                if found.contains(w) || w.len() < lo || w.len() > qn.len() + d {
                    continue;
                }
                let dw = lev(qn, w).min(lev(ql_chars, w)).min(255);
                if dw <= d && (dw, w) < (last.1 as usize, &last.0) {
                    cx.rep.fail("fuzzy_tie_order", format!("{who}: {:?} at distance {dw} was cut by the cap although it sorts before the last result {:?} at distance {} for {:?}", w.iter().collect::<String>(), last.0.iter().collect::<String>(), last.1, query.q), fail_input.clone());
                    break;
                }
            }
        }
    }
    // FstDictionary, aligned streams (every word is within the bound of the normalised query and of its String::to_lowercase,
    // or of neither): each result carries the SMALLER of its two distances (C15_fst_merged_aligned, C15_fst_fuzzy_aligned_min)
    if b.is_fst && !b.is_merged {
        let aligned = ql_string == qn || b.words.iter().all(|w| lev_within(qn, w, d).is_some() == lev_within(ql_string, w, d).is_some());
        if aligned {
            cx.rep.count(if ql_string == qn { "fuzzy:aligned-min-checked:lower-case-query" } else { "fuzzy:aligned-min-checked:case-differs" });
            for (w, dist, _) in r {
                let want = lev(qn, w).min(lev(ql_string, w));
                if *dist as usize != want {
                    cx.rep.fail("fuzzy_not_min", format!("{who}: the two automaton streams list the same words, yet result {:?} for {:?} reports distance {dist}, not the smaller of its distances to the query and its lower-case form ({want})", w.iter().collect::<String>(), query.q), fail_input.clone());
                    break;
                }
            }
        } else {
            cx.rep.count("fuzzy:streams-not-aligned");
        }
    }
    // for lower-case queries no word within the bound is missed
    if ql_chars == qn && ql_string == qn {
        let found: HashSet<&Vec<char>> = r.iter().map(|x| &x.0).collect();
        let full = r.len() >= query.k;
        let worst = r.iter().map(|x| x.1 as usize).max().unwrap_or(0);
        let mut missed = 0u64;
        for w in &b.words {
            if w.is_empty() || found.contains(w) {
                continue;
            }
            if let Some(dw) = lev_within(qn, w, d) {
                // legitimately cut by the cap: the result is full and nothing in it is farther than w
                if full && worst <= dw {
                    continue;
                }
                missed += 1;
                if missed == 1 {
                    let ws: String = w.iter().collect();
                    cx.rep.fail("fuzzy_missed", format!("{who}: lower-case query {:?} (d={d}, k={}): dictionary word {ws:?} at distance {dw} is missing from the {} results (worst reported distance {worst})", query.q, query.k, r.len()), fail_input.clone());
                }
            }
        }
        cx.rep.count("fuzzy:completeness-checked");
    }
}

fn bucket(n: usize) -> &'static str {
    match n {
        0 => "0",
        1 => "1",
        2..=3 => "2-3",
        4..=7 => "4-7",
        8..=15 => "8-15",
        16..=63 => "16-63",
        64..=253 => "64-253",
        254..=256 => "254-256",
        _ => "257+",
    }
}

// ---------------------------------------------------------------------------------------------
// generators
// ---------------------------------------------------------------------------------------------

fn recase(r: &mut Rng, w: &str) -> String {
    match r.below(4) {
        0 => w.to_uppercase(),
        1 => {
            let mut c = w.chars();
            match c.next() {
                Some(f) => f.to_uppercase().collect::<String>() + c.as_str(),
                None => String::new(),
            }
        }
        2 => w.to_lowercase(),
        _ => w.chars().map(|c| if r.chance(1, 2) { c.to_uppercase().next().unwrap_or(c) } else { c.to_lowercase().next().unwrap_or(c) }).collect(),
    }
}
const EDIT_ALPHABET: &[char] = &['a', 'e', 's', 't', 'z', 'A', 'S', '\'', '\u{2019}', 'é', '-', '1'];
fn edit(r: &mut Rng, w: &str, n: usize, alphabet: &[char]) -> String {
    let mut cs: Vec<char> = w.chars().collect();
    for _ in 0..n {
        match r.below(4) {
            0 => {
                let p = r.below(cs.len() + 1);
                cs.insert(p, *r.pick(alphabet));
            }
            1 if !cs.is_empty() => {
                let p = r.below(cs.len());
                cs.remove(p);
            }
            2 if !cs.is_empty() => {
                let p = r.below(cs.len());
                cs[p] = *r.pick(alphabet);
            }
            _ if cs.len() >= 2 => {
                let p = r.below(cs.len() - 1);
                cs.swap(p, p + 1);
            }
            _ => {}
        }
    }
    cs.into_iter().collect()
}
fn apostrophe_variant(r: &mut Rng, w: &str) -> String {
    let alt = *r.pick(&['\u{2019}', '\u{2018}', '\u{FF07}', '\'']);
    if w.contains('\'') {
        w.replace('\'', &alt.to_string())
    } else {
        let mut cs: Vec<char> = w.chars().collect();
        let p = if cs.is_empty() { 0 } else { cs.len() - r.below(2.min(cs.len()) + 1) };
        cs.insert(p, alt);
        cs.into_iter().collect()
    }
}
const ODD_QUERIES: &[&str] = &[
    "", " ", "é", "café", "CAFÉ", "naïve", "Straße", "STRASSE", "İstanbul", "İ", "ΟΔΟΣ", "Σ", "ς", "ǅ", "ﬁn", "日本語", "🙂", "a🙂b", "e\u{301}", "I'm", "I\u{2019}m", "i\u{FF07}m",
    "it\u{2018}s", "NASA", "Ph.D", "x", "X", "A", "a", "I", "ok", "OK", "Ok", "hello", "Hello", "HELLO", "hELLO", "hvllo", "Semantical", "punctation", "youre", "thats",
];

fn pick_d(r: &mut Rng) -> u8 {
    *r.pick(&[0u8, 1, 1, 2, 2, 2, 3, 3])
}
fn pick_k(r: &mut Rng) -> usize {
    *r.pick(&[0usize, 1, 1, 2, 3, 5, 10, 10, 100, 100, 100, 1000, 1000])
}

fn variant_query(r: &mut Rng, base: &str, alphabet: &[char]) -> String {
    match r.below(10) {
        0 | 1 => base.to_string(),
        2 | 3 => recase(r, base),
        4 | 5 => {
            let n = 1 + r.below(3);
            edit(r, base, n, alphabet)
        }
        6 => {
            let n = 1 + r.below(2);
            let e = edit(r, base, n, alphabet);
            recase(r, &e)
        }
        7 => apostrophe_variant(r, base),
        8 => r.s(ODD_QUERIES).to_string(),
        _ => {
            let n = *r.pick(&[20usize, 60, 120]);
            let mut s = String::new();
            while s.chars().count() < n {
                s.push_str(base);
                s.push('a');
            }
            s
        }
    }
}

/// the standard family of back-ends over one entry list (ids pairwise distinct => all must agree)
fn family(entries: Vec<(String, usize)>, split: usize) -> (Vec<DictDef>, Vec<Vec<String>>) {
    // FstDictionary::new sorts unstably and dedups by spelling: which metadata survives for a spelling
    // given twice with different metadata is unspecified, so such lists are not handed to it
    let mut meta_of: HashMap<&str, usize> = HashMap::new();
    let with_direct_fst = entries.iter().all(|(w, m)| *meta_of.entry(w.as_str()).or_insert(*m) == *m);
    let (p1, p2) = entries.split_at(split.min(entries.len()));
    let d = |name: &str, ty: &str, entries: &[(String, usize)], children: &[&str]| DictDef { name: name.into(), ty: ty.into(), entries: entries.to_vec(), children: children.iter().map(|s| s.to_string()).collect() };
    let mut dicts = vec![
        d("m", "M", &entries, &[]),
        d("fm", "FM", &[], &["m"]),
        d("p1", "M", p1, &[]),
        d("p2", "M", p2, &[]),
        d("fp2", "FM", &[], &["p2"]),
        d("xm", "X", &[], &["m"]),
        d("xf", "X", &[], &["fm"]),
        d("xparts", "X", &[], &["p1", "fp2"]),
        d("xx", "X", &[], &["xparts", "m"]),
        // two children with the same words (duplicates in words_iter / word_count / fuzzy results are part of
        // "the union of its parts" as the code defines it: C15_merged_fuzzy_spec)
        d("xdup", "X", &[], &["m", "fm"]),
    ];
    let mut agree = vec![vec!["m".to_string(), "fm".into(), "xm".into(), "xf".into()]];
    if with_direct_fst {
        dicts.push(d("f", "F", &entries, &[]));
        agree[0].push("f".into());
    }
    (dicts, agree)
}

/// ids pairwise distinct? (lower(normalized w)) — decides whether FstDictionary::new(entries) is expected
/// to hold the same entries as MutableDictionary::extend_words(entries)
fn ids_distinct(entries: &[(String, usize)]) -> bool {
    let mut seen = HashSet::new();
    entries.iter().all(|(w, _)| {
        let n = normalized(&w.chars().collect::<Vec<_>>());
        seen.insert(if n.iter().all(|c| c.is_lowercase()) { n } else { lower_chars(&n) })
    })
}

fn small_alphabet_words(r: &mut Rng, alphabet: &[char], max_words: usize, max_len: usize) -> Vec<(String, usize)> {
    let n = r.below(max_words + 1);
    (0..n)
        .map(|_| {
            let len = 1 + r.below(max_len);
            let w: String = (0..len).map(|_| *r.pick(alphabet)).collect();
            let m = r.below(16);
            (w, m)
        })
        .collect()
}

fn curated_sample(cx: &mut Cx) -> Vec<String> {
    if cx.curated_m.is_none() {
        cx.curated_f = Some(FstDictionary::curated());
        cx.curated_m = Some(MutableDictionary::curated());
    }
    let mut v: Vec<String> = cx.curated_m.as_ref().unwrap().words_iter().map(|w| w.iter().collect()).collect();
    v.sort();
    v
}

pub fn run(a: &Args, corpus: &[Value]) {
    let mut cx = Cx {
        rep: Report::new(&a.out),
        meta_tags: HashMap::new(),
        declared: HashSet::new(),
        ids: HashMap::new(),
        scn: 0,
        curated_f: None,
        curated_m: None,
        curated_emitted: HashMap::new(),
        fst_cases: 0,
        fst_maps: HashMap::new(),
        builders: HashMap::new(),
        stream_checked: 0,
        suggest_cases: 0,
        automaton_cases: 0,
        automaton_curated: 0,
        automaton_curated_max: a.scale(8, 60) as u64,
        sort_stable_checked: 0,
        imp: spawn_impl_thread(),
        call_budget: std::time::Duration::from_secs(env_u64("C15_CALL_BUDGET_S", a.scale(180, 600) as u64)),
        cpu_budget_ns: env_u64("C15_CPU_BUDGET_S", a.scale(60, 600) as u64) * 1_000_000_000,
        impl_cpu_ns: 0,
        impl_calls: 0,
        slowest: (0, String::new(), Value::Null),
        last_loc: String::new(),
        aborted: false,
        bounds_first: vec![],
        bounds_recent: std::collections::VecDeque::new(),
    };
    cx.rep.rule = "scenarios = named dictionaries built through the public API (MutableDictionary::extend_words, FstDictionary::new, FstDictionary::from(Mutable), MergedDictionary incl. nested / duplicated / empty children, the two curated dictionaries) x queries (dictionary words, re-cased, 1-3 random edits, typographic apostrophes, non-ASCII incl. length-changing lower-casing, empty, long up to 300) x max_distance 0..3 (4, thorough also 5, on small dictionaries; 255 for the distance function with strings up to 300 characters) x max_results {0,1,2,3,5,10,100,1000}; every query asks all exact-trait methods (char and _str variants, get_word_from_id) and fuzzy_match/_str on every back-end of the scenario; per scenario word_count / words_iter of merged dictionaries and == between them. non-trivial = distinct (scenario, query) where some back-end contains the word or returns >= 1 fuzzy result".into();
    // the Unicode data of ASCII is declared up front
    let ascii: Vec<char> = (0u8..128).map(|b| b as char).collect();
    cx.declare(&ascii);
    // the oracle's lower-casing is char-wise; CharStringExt::to_lower returns all-is_lowercase strings
    // unchanged: the two coincide iff is_lowercase(c) implies to_lowercase(c) == [c] — every scalar value
    let mut law_checked = 0u64;
    for cp in 0u32..=0x10FFFF {
        if let Some(c) = char::from_u32(cp) {
            law_checked += 1;
            if c.is_lowercase() && c.to_lowercase().collect::<Vec<_>>() != vec![c] {
                cx.rep.fail("unicode_law", format!("char U+{cp:04X} is_lowercase but to_lowercase() differs"), json!({"kind": "char", "c": cp}));
            }
        }
    }
    cx.rep.monitor("unicode_law_is_lowercase_implies_to_lowercase_identity(all scalar values)", law_checked);
    // synthetic metadata values get the tags 0..15
    for i in 0..16 {
        let t = cx.tag(&mk_meta(i));
        assert_eq!(t, i);
    }
    for c in corpus {
        let s = scenario_from_json(c);
        let warm: Vec<u8> = c["warmup_bounds"].as_array().map(|a| a.iter().filter_map(|x| x.as_u64().map(|v| v as u8)).collect()).unwrap_or_default();
        cx.warm_up(&warm);
        run_scenario(&mut cx, &s);
    }
    if a.replay.is_some() {
        finish(cx);
        return;
    }
    let mut r = Rng::new(a.seed);
    let t_start = std::time::Instant::now();

    if std::env::var("C15_TIMING").is_ok() { eprintln!("t0 {:?}", t_start.elapsed()); }
    // ---- (1) the curated dictionaries: Fst, Mutable, Merged[Fst], Merged[Fst, user Mutable] ----
    let words = curated_sample(&mut cx);
    {
        let user: Vec<(String, usize)> = vec![("zorgle".into(), 1), ("Blorptastic".into(), 2), ("qux's".into(), 3), ("hello".into(), 5), ("Grzegorz".into(), 0)];
        let d = |name: &str, ty: &str, entries: &[(String, usize)], children: &[&str]| DictDef { name: name.into(), ty: ty.into(), entries: entries.to_vec(), children: children.iter().map(|s| s.to_string()).collect() };
        let dicts = vec![d("cf", "CF", &[], &[]), d("cm", "CM", &[], &[]), d("user", "M", &user, &[]), d("xc", "X", &[], &["cf"]), d("xcu", "X", &[], &["cf", "user"])];
        let mut queries = vec![];
        let n_exact = a.scale(250, 3000);
        let n_fuzzy = a.scale(10, 150);
        for i in 0..n_exact {
            let base = if r.chance(1, 12) { r.s(ODD_QUERIES).to_string() } else { r.pick(&words).clone() };
            let q = if i < ODD_QUERIES.len() { ODD_QUERIES[i].to_string() } else { variant_query(&mut r, &base, EDIT_ALPHABET) };
            // the association-list model scans the 130 000 curated entries per lookup: every back-end for
            // the first 60 queries, then the FST, the user dictionary and their merge
            let on = if i < 60 { vec![] } else { vec!["cf".to_string(), "user".into(), "xcu".into()] };
            queries.push(Query { q, d: 0, k: 0, on, fuzzy: false });
        }
        for i in 0..n_fuzzy {
            let base = r.pick(&words).clone();
            let q = if i < 12 { ODD_QUERIES[(i * 3 + 7) % ODD_QUERIES.len()].to_string() } else { variant_query(&mut r, &base, EDIT_ALPHABET) };
            let q: String = q.chars().take(40).collect();
            // the extracted model scans the whole curated list: the FST side is asked on every query,
            // the (slower, buffer-faithful) mutable side on the merged-with-user dictionary only
            queries.push(Query { q, d: pick_d(&mut r), k: pick_k(&mut r), on: vec!["cf".into(), "user".into(), "xcu".into()], fuzzy: true });
        }
        if a.thorough() {
            for _ in 0..60 {
                let base = r.pick(&words).clone();
                let q: String = variant_query(&mut r, &base, EDIT_ALPHABET).chars().take(24).collect();
                queries.push(Query { q, d: pick_d(&mut r), k: pick_k(&mut r), on: vec!["cm".into()], fuzzy: true });
            }
        }
        let s = Scenario { dicts, agree: vec![vec!["cf".into(), "cm".into(), "xc".into()]], queries, origin: "curated".into(), malformed: false };
        run_scenario(&mut cx, &s);
    }

    if std::env::var("C15_TIMING").is_ok() { eprintln!("t1 {:?}", t_start.elapsed()); }
    // ---- (2) sample dictionaries: subsets of the curated list + variants, all back-end families ----
    for _ in 0..a.scale(40, 400) {
        let n = *r.pick(&[3usize, 10, 40, 150, 400]);
        let mut entries: Vec<(String, usize)> = vec![];
        let start = r.below(words.len());
        for i in 0..n {
            // half neighbours in sorted order (many near matches), half random
            let w = if r.chance(1, 2) { words[(start + i) % words.len()].clone() } else { r.pick(&words).clone() };
            let w = match r.below(12) {
                0 => recase(&mut r, &w),
                1 => edit(&mut r, &w, 1, EDIT_ALPHABET),
                2 => apostrophe_variant(&mut r, &w),
                _ => w,
            };
            if w.is_empty() {
                continue;
            }
            entries.push((w, r.below(16)));
        }
        let distinct = ids_distinct(&entries);
        let (dicts, agree) = family(entries.clone(), r.below(entries.len() + 1));
        let mut queries = vec![];
        for _ in 0..a.scale(25, 40) {
            let base = if entries.is_empty() || r.chance(1, 20) { r.pick(&words).clone() } else { r.pick(&entries).0.clone() };
            let q = variant_query(&mut r, &base, EDIT_ALPHABET);
            queries.push(Query { q, d: pick_d(&mut r), k: pick_k(&mut r), on: vec![], fuzzy: true });
        }
        let s = Scenario { dicts, agree, queries, origin: if distinct { "sample".into() } else { "sample-id-collisions".into() }, malformed: false };
        run_scenario(&mut cx, &s);
    }

    if std::env::var("C15_TIMING").is_ok() { eprintln!("t2 {:?}", t_start.elapsed()); }
    // ---- (3) small alphabets: dense collisions of distance, case and apostrophes ----
    for _ in 0..a.scale(300, 3000) {
        let alphabet: &[char] = *r.pick(&[&['a', 'b'][..], &['a', 'b', 'A'][..], &['a', 'B', '\''][..], &['a', '\'', '\u{2019}'][..], &['i', 'İ', 'I'][..], &['σ', 'Σ', 'ς'][..], &['é', 'É', 'e'][..]]);
        let entries = small_alphabet_words(&mut r, alphabet, 6, 4);
        let distinct = ids_distinct(&entries);
        let (dicts, agree) = family(entries.clone(), r.below(entries.len() + 1));
        let mut queries = vec![];
        for _ in 0..8 {
            let len = r.below(6);
            let q: String = (0..len).map(|_| *r.pick(alphabet)).collect();
            queries.push(Query { q, d: r.below(4) as u8, k: *r.pick(&[0usize, 1, 2, 3, 100]), on: vec![], fuzzy: true });
        }
        let s = Scenario { dicts, agree, queries, origin: if distinct { "small-alphabet".into() } else { "small-alphabet-id-collisions".into() }, malformed: false };
        run_scenario(&mut cx, &s);
    }

    // ---- (8) bound histories: FstDictionary::fuzzy_match keeps a per-thread cache of automaton builders keyed by the bound;
    // every bound 0..4 (thorough: sometimes 0..5) is asked in some order and then again, twice, in the same order, on ONE
    // thread (the implementation thread) — whatever the cache does with a fifth bound, the bounds asked before must still
    // be answered with THEIR automaton.  The dictionary holds words at every distance 0..5 from the query; lower-case only
    // (completeness applies).  The whole sequence is the failing input (`history` in run_scenario). ----
    for it in 0..a.scale(12, 150) {
        let alphabet: &[char] = &['a', 'b', 'c', 'd', 'e'];
        let base: String = (0..r.range(6, 9)).map(|_| *r.pick(alphabet)).collect();
        let mut entries: Vec<(String, usize)> = vec![(base.clone(), r.below(16))];
        for n in 1..=5usize {
            for _ in 0..r.range(1, 2) {
                let w = edit(&mut r, &base, n, alphabet);
                if !w.is_empty() && !entries.iter().any(|e| e.0 == w) {
                    entries.push((w, r.below(16)));
                }
            }
        }
        let d = |name: &str, ty: &str, entries: &[(String, usize)], children: &[&str]| DictDef { name: name.into(), ty: ty.into(), entries: entries.to_vec(), children: children.iter().map(|s| s.to_string()).collect() };
        let dicts = vec![d("m", "M", &entries, &[]), d("f", "F", &entries, &[]), d("x", "X", &[], &["f"])];
        let top: u8 = if a.thorough() && it % 10 == 0 { 5 } else { 4 };
        let mut perm: Vec<u8> = (0..=top).collect();
        for i in (1..perm.len()).rev() {
            let j = r.below(i + 1);
            perm.swap(i, j);
        }
        let mut queries = vec![];
        for _round in 0..3 {
            for &dd in &perm {
                let q = if r.chance(2, 3) { base.clone() } else { edit(&mut r, &base, 1, alphabet) };
                queries.push(Query { q, d: dd, k: 100, on: vec![], fuzzy: true });
            }
        }
        run_scenario(&mut cx, &Scenario { dicts, agree: vec![vec!["m".into(), "f".into(), "x".into()]], queries, origin: "bound-history".into(), malformed: false });
    }

    // ---- (9) case variants of one word in DIFFERENT children of a merged dictionary ("Polish" / "polish"): they share a
    // WordId but are different words — both are results of a fuzzy search, and a lower-case query must find its exact word ----
    {
        let plain: Vec<&String> = words.iter().filter(|w| (3..=8).contains(&w.chars().count()) && w.chars().all(|c| c.is_ascii_lowercase())).collect();
        for _ in 0..a.scale(60, 600) {
            let n = r.range(1, 4);
            let bases: Vec<String> = (0..n).map(|_| (*r.pick(&plain)).clone()).collect();
            let cap = |w: &str| { let mut c = w.chars(); c.next().map(|f| f.to_ascii_uppercase().to_string() + c.as_str()).unwrap_or_default() };
            let mut ea: Vec<(String, usize)> = vec![];
            let mut eb: Vec<(String, usize)> = vec![];
            for w in &bases {
                let v = if r.chance(2, 3) { cap(w) } else { w.to_ascii_uppercase() };
                if !ea.iter().any(|e| e.0 == v) { ea.push((v, r.below(16))); }
                if !eb.iter().any(|e| e.0 == *w) { eb.push((w.clone(), r.below(16))); }
            }
            let d = |name: &str, ty: &str, entries: &[(String, usize)], children: &[&str]| DictDef { name: name.into(), ty: ty.into(), entries: entries.to_vec(), children: children.iter().map(|s| s.to_string()).collect() };
            let tb = if r.chance(1, 2) { "M" } else { "F" };
            let dicts = vec![d("a", "M", &ea, &[]), d("b", tb, &eb, &[]), d("xab", "X", &[], &["a", "b"]), d("xba", "X", &[], &["b", "a"])];
            let mut queries = vec![];
            for w in &bases {
                for _ in 0..2 {
                    let q = match r.below(4) { 0 => cap(w), 1 => edit(&mut r, w, 1, &['a', 'e', 's', 't']), _ => w.clone() };
                    queries.push(Query { q, d: r.below(3) as u8, k: *r.pick(&[1usize, 2, 100]), on: vec![], fuzzy: true });
                }
            }
            run_scenario(&mut cx, &Scenario { dicts, agree: vec![], queries, origin: "merged-case-variants".into(), malformed: false });
        }
    }

    if std::env::var("C15_TIMING").is_ok() { eprintln!("t3 {:?}", t_start.elapsed()); }
    // ---- (4) the distance function through a one-word MutableDictionary (d = 255 sees every value) ----
    // (the extracted buffer-faithful model is cubic in the length: few long cases in the quick tier)
    let n_long = a.scale(14, 140);
    for it in 0..a.scale(600, 6000) {
        let alphabet: &[char] = *r.pick(&[&['a', 'b'][..], &['a', 'b', 'c', 'd'][..], &['a', 'b', 'A'][..]]);
        let (ls, lt) = match if it < n_long { it % 7 } else { 7 + r.below(9) } {
            0 => (r.range(200, 254), r.range(200, 254)),
            1 => (254, r.range(1, 254)),
            2 => (r.range(0, 254), 254),
            // beyond the u8 rows (fix 7a7de79): the usize fallback, saturating at 255
            3 => (r.range(255, 257), r.range(1, 3)),
            4 => (r.range(1, 254), r.range(255, 300)),
            5 => (r.range(255, 300), r.range(255, 300)),
            6 => (r.range(255, 300), r.range(1, 254)),
            7 => (r.range(30, 70), r.range(30, 70)),
            _ => (r.below(14), 1 + r.below(14)),
        };
        let s_: String = (0..ls).map(|_| *r.pick(alphabet)).collect();
        // the word: a mutation of the query (interesting distances) or independent
        let t_: String = if r.chance(2, 3) { let ne = r.below(6); let e = edit(&mut r, &s_, ne, alphabet); if e.is_empty() { "a".into() } else { e.chars().take(300).collect() } } else { (0..lt).map(|_| *r.pick(alphabet)).collect() };
        let dicts = vec![DictDef { name: "w".into(), ty: "M".into(), entries: vec![(t_, 0)], children: vec![] }];
        let queries = vec![Query { q: s_, d: 255, k: 1, on: vec![], fuzzy: true }];
        run_scenario(&mut cx, &Scenario { dicts, agree: vec![], queries, origin: "edit-distance".into(), malformed: false });
    }

    if std::env::var("C15_TIMING").is_ok() { eprintln!("t4 {:?}", t_start.elapsed()); }
    // ---- (5) malformed stream: the empty dictionary word, exact duplicates, distance bounds > 3 ----
    for _ in 0..a.scale(60, 600) {
        let mut entries = small_alphabet_words(&mut r, &['a', 'b', 'A'], 5, 3);
        entries.push((String::new(), r.below(16)));
        if let Some(e) = entries.first().cloned() {
            entries.push(e);
        }
        let dicts = vec![
            DictDef { name: "m".into(), ty: "M".into(), entries: entries.clone(), children: vec![] },
            DictDef { name: "f".into(), ty: "F".into(), entries: entries.clone(), children: vec![] },
            DictDef { name: "x".into(), ty: "X".into(), entries: vec![], children: vec!["m".into(), "f".into()] },
        ];
        let mut queries = vec![];
        for _ in 0..6 {
            let len = r.below(5);
            let q: String = (0..len).map(|_| *r.pick(&['a', 'b', 'A'])).collect();
            queries.push(Query { q, d: r.below(5) as u8, k: *r.pick(&[0usize, 1, 2, 100]), on: vec![], fuzzy: true });
        }
        run_scenario(&mut cx, &Scenario { dicts, agree: vec![], queries, origin: "malformed".into(), malformed: true });
    }

    if std::env::var("C15_TIMING").is_ok() { eprintln!("t5 {:?}", t_start.elapsed()); }
    // ---- (6) distance bounds beyond 3 (SpellCheck's back-off asks 4): every back-end, words at distance 4 (5) ----
    for it in 0..a.scale(120, 1500) {
        let alphabet: &[char] = *r.pick(&[&['a', 'b'][..], &['a', 'b', 'c', 'd', 'e'][..], &['a', 'b', 'A'][..], &['x', 'y', 'z', '\''][..]]);
        let mut entries: Vec<(String, usize)> = vec![];
        let base: String = (0..r.range(4, 9)).map(|_| *r.pick(alphabet)).collect();
        for _ in 0..r.range(1, 8) {
            let w = if r.chance(2, 3) { let ne = r.range(3, 7); edit(&mut r, &base, ne, alphabet) } else { let l = r.range(1, 10); (0..l).map(|_| *r.pick(alphabet)).collect() };
            if !w.is_empty() {
                entries.push((w, r.below(16)));
            }
        }
        let distinct = ids_distinct(&entries);
        let (dicts, agree) = family(entries.clone(), r.below(entries.len() + 1));
        let mut queries = vec![];
        for _ in 0..4 {
            let q = if r.chance(1, 2) { base.clone() } else { let ne = r.below(4); edit(&mut r, &base, ne, alphabet) };
            let q = if r.chance(1, 6) { recase(&mut r, &q) } else { q };
            // the parametric automaton of levenshtein_automata for distance 5 takes ~6 s and 170 MB to build (6: minutes)
            let dq = if a.thorough() && it % 10 == 0 { 5 } else { 4 };
            queries.push(Query { q, d: dq, k: *r.pick(&[1usize, 3, 100]), on: vec![], fuzzy: true });
        }
        let s = Scenario { dicts, agree, queries, origin: if distinct { "large-distance".into() } else { "large-distance-id-collisions".into() }, malformed: false };
        run_scenario(&mut cx, &s);
    }

    if std::env::var("C15_TIMING").is_ok() { eprintln!("t6 {:?}", t_start.elapsed()); }
    // ---- (7) structure of merged dictionaries: children that spell the same letters ({"ab","c"} / {"abc"} / {"cab"}),
    // the same words in another insertion order, duplicated and empty children; `==` must follow the contents ----
    for _ in 0..a.scale(150, 1500) {
        let alphabet: &[char] = *r.pick(&[&['a', 'b', 'c'][..], &['k', 'e', 'y', 'b', 'o', 'a', 'r', 'd'][..], &['a', 'A', '\''][..]]);
        let n = *r.pick(&[2usize, 2, 2, 3, 5, 8]);
        let mut parts: Vec<String> = vec![];
        while parts.len() < n {
            let l = r.range(1, 4);
            let w: String = (0..l).map(|_| *r.pick(alphabet)).collect();
            if !parts.contains(&w) {
                parts.push(w);
            }
        }
        // metadata = a function of the word (the same entry whatever the insertion order)
        let ent = |ws: &[String]| ws.iter().map(|w| (w.clone(), w.chars().map(|c| c as usize).sum::<usize>() % 16)).collect::<Vec<_>>();
        let mut rev = parts.clone();
        rev.reverse();
        let mut shuffled = parts.clone();
        for i in (1..shuffled.len()).rev() {
            let j = r.below(i + 1);
            shuffled.swap(i, j);
        }
        let d = |name: &str, ty: &str, entries: &[(String, usize)], children: &[&str]| DictDef { name: name.into(), ty: ty.into(), entries: entries.to_vec(), children: children.iter().map(|s| s.to_string()).collect() };
        let cat1 = vec![parts.concat()];
        let cat2 = vec![rev.concat()];
        let resplit: Vec<String> = {
            // the same letters cut at another place: {"ab","c"} -> {"a","bc"}
            let all: Vec<char> = parts.concat().chars().collect();
            let cut = r.range(1, all.len().max(2) - 1).min(all.len());
            vec![all[..cut].iter().collect(), all[cut..].iter().collect()]
        };
        let dicts = vec![
            d("a", "M", &ent(&parts), &[]), d("a2", "M", &ent(&rev), &[]), d("a3", "M", &ent(&shuffled), &[]), d("fa", "FM", &[], &["a"]),
            d("b1", "M", &ent(&cat1), &[]), d("b2", "M", &ent(&cat2), &[]), d("b3", "M", &ent(&resplit), &[]), d("e", "M", &[], &[]), d("e2", "M", &[], &[]),
            d("xa", "X", &[], &["a"]), d("xa2", "X", &[], &["a2"]), d("xa3", "X", &[], &["a3"]), d("xfa", "X", &[], &["fa"]),
            d("xb1", "X", &[], &["b1"]), d("xb2", "X", &[], &["b2"]), d("xb3", "X", &[], &["b3"]),
            d("xab", "X", &[], &["a", "b1"]), d("xaa", "X", &[], &["a", "a2"]), d("xafa", "X", &[], &["a", "fa"]), d("xee", "X", &[], &["e", "a", "e2", "b2"]),
            d("xnest", "X", &[], &["xa", "xa2"]),
        ];
        let mut queries = vec![];
        let mut qs: Vec<String> = parts.clone();
        qs.push(cat1[0].clone());
        qs.push(cat2[0].clone());
        qs.push(resplit[0].clone());
        for _ in 0..3 {
            let q = r.pick(&qs).clone();
            let q = if r.chance(1, 3) { edit(&mut r, &q, 1, alphabet) } else { q };
            queries.push(Query { q, d: r.range(0, 3) as u8, k: *r.pick(&[1usize, 2, 3, 100]), on: vec![], fuzzy: true });
        }
        let agree = if ids_distinct(&ent(&parts)) { vec![vec!["a".to_string(), "a2".into(), "a3".into(), "fa".into(), "xa".into(), "xa2".into(), "xa3".into(), "xfa".into(), "xaa".into(), "xafa".into(), "xnest".into()]] } else { vec![] };
        run_scenario(&mut cx, &Scenario { dicts, agree, queries, origin: "merged-structure".into(), malformed: false });
    }

    if std::env::var("C15_TIMING").is_ok() { eprintln!("t7 {:?}", t_start.elapsed()); }
    if a.thorough() {
        exhaustive(&mut cx);
    }
    finish(cx);
}

/// thorough tier: all dictionaries of <= 3 words of length 1..3 over {a,b} x all queries of length <= 4 x
/// d 0..3 x caps {1,2,100}; all pairs of strings of length <= 5 over {a,b,A} for the distance function
fn exhaustive(cx: &mut Cx) {
    fn strings(alphabet: &[char], min: usize, max: usize) -> Vec<String> {
        let mut out = vec![];
        let mut cur = vec![String::new()];
        if min == 0 {
            out.push(String::new());
        }
        for len in 1..=max {
            let mut next = vec![];
            for p in &cur {
                for c in alphabet {
                    let mut s = p.clone();
                    s.push(*c);
                    next.push(s);
                }
            }
            if len >= min {
                out.extend(next.iter().cloned());
            }
            cur = next;
        }
        out
    }
    let ws = strings(&['a', 'b'], 1, 3); // 14 words
    let qs = strings(&['a', 'b'], 0, 4); // 31 queries
    let mut n_dicts = 0u64;
    let mut sets: Vec<Vec<usize>> = vec![vec![]];
    for i in 0..ws.len() {
        sets.push(vec![i]);
        for j in (i + 1)..ws.len() {
            sets.push(vec![i, j]);
            for k in (j + 1)..ws.len() {
                sets.push(vec![i, j, k]);
            }
        }
    }
    for set in &sets {
        // insertion order reversed (so that the FST's sort does something); metadata = position
        let entries: Vec<(String, usize)> = set.iter().rev().enumerate().map(|(i, w)| (ws[*w].clone(), i + 1)).collect();
        let d = |name: &str, ty: &str, entries: &[(String, usize)], children: &[&str]| DictDef { name: name.into(), ty: ty.into(), entries: entries.to_vec(), children: children.iter().map(|s| s.to_string()).collect() };
        let (p1, p2) = entries.split_at(entries.len() / 2);
        let dicts = vec![d("m", "M", &entries, &[]), d("f", "F", &entries, &[]), d("p1", "M", p1, &[]), d("p2", "F", p2, &[]), d("x", "X", &[], &["p1", "p2"])];
        let mut queries = vec![];
        for q in &qs {
            for dd in 0..=3u8 {
                for k in [1usize, 2, 100] {
                    queries.push(Query { q: q.clone(), d: dd, k, on: vec!["m".into(), "f".into(), "x".into()], fuzzy: true });
                }
            }
        }
        // the split merged dictionary holds the same entries too (ids are distinct over {a,b})
        run_scenario(cx, &Scenario { dicts, agree: vec![vec!["m".into(), "f".into(), "x".into()]], queries, origin: "exhaustive-dicts".into(), malformed: false });
        n_dicts += 1;
    }
    cx.rep.extra.insert("exhaustive_dictionaries_le3_words_len_le3_over_ab".into(), json!(n_dicts));
    cx.rep.extra.insert("exhaustive_queries_per_dictionary".into(), json!(qs.len() * 4 * 3));
    // distance function: all ordered pairs over {a,b,A}, length <= 5 (word non-empty: the window starts at 1)
    let all = strings(&['a', 'b', 'A'], 0, 5);
    let mut pairs = 0u64;
    for t in all.iter().filter(|t| !t.is_empty()) {
        let dicts = vec![DictDef { name: "w".into(), ty: "M".into(), entries: vec![(t.clone(), 0)], children: vec![] }];
        let queries: Vec<Query> = all.iter().map(|s| Query { q: s.clone(), d: 255, k: 1, on: vec![], fuzzy: true }).collect();
        pairs += queries.len() as u64;
        run_scenario(cx, &Scenario { dicts, agree: vec![], queries, origin: "exhaustive-lev".into(), malformed: false });
    }
    cx.rep.extra.insert("exhaustive_lev_pairs_len_le5_over_abA".into(), json!(pairs));
}

fn finish(mut cx: Cx) {
    cx.rep.monitor("fst_stream_contract(fuzzy cases on an FstDictionary compared with the model under the contract)", cx.fst_cases);
    cx.rep.monitor("fst_stream_contract_direct(streams of our own fst::Map + levenshtein DFA over the dictionary's sorted words compared with brute force)", cx.stream_checked);
    cx.rep.monitor("fst_stream_is_automaton_product(A cases: real fst + levenshtein_automata stream vs extracted la_search, item by item)", cx.automaton_cases);
    cx.rep.monitor("vec_sort_by_key_stable(std, on the score keys of every suggestion case)", cx.sort_stable_checked);
    cx.rep.extra.insert("implementation_thread".into(), json!({"calls": cx.impl_calls, "cpu_s": cx.impl_cpu_ns as f64 / 1e9, "cpu_budget_s": cx.cpu_budget_ns as f64 / 1e9,
        "call_watchdog_s": cx.call_budget.as_secs(), "slowest_call_s": cx.slowest.0 as f64 / 1e9, "slowest_call": cx.slowest.1, "aborted": cx.aborted}));
    cx.rep.extra.insert("suggest_cases".into(), json!(cx.suggest_cases));
    cx.rep.extra.insert("automaton_cases".into(), json!(cx.automaton_cases));
    cx.rep.extra.insert("automaton_cases_on_curated_index".into(), json!(cx.automaton_curated));
    cx.rep.extra.insert("distinct_metadata_values".into(), json!(cx.meta_tags.len()));
    cx.rep.extra.insert("distinct_characters_declared".into(), json!(cx.declared.len()));
    let _ = BTreeSet::<u8>::new();
    cx.rep.finish();
}

fn main() {
    let (args, corpus) = hv::cli();
    run(&args, &corpus);
}
